"""C01: ConcatSignal.sensitivity raised TypeError for Python-scalar inputs (float(array of size 1) is an error in numpy 2)."""
import numpy as np, sys
import pymoto as pym
s1, s2, s3 = pym.Signal("a", 1.5), pym.Signal("b", np.array([2., 3.])), pym.Signal("c", 4)
m = pym.ConcatSignal([s1, s2, s3]); m.response()
m.sig_out[0].sensitivity = np.array([10., 20., 30., 40.])
try:
    m.sensitivity()
    ok = s1.sensitivity == 10. and np.array_equal(s2.sensitivity, [20., 30.]) and s3.sensitivity == 40
    print(s1.sensitivity, s2.sensitivity, s3.sensitivity)
except Exception as e:
    print(type(e).__name__, str(e).split("\n")[0]); ok = False
sys.exit(0 if ok else 1)
