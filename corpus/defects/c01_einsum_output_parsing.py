"""C01 (candidate): EinSum parses the output subscripts with `cmd[1] if "->" in expr else ''` and compares with `== ''`:
(a) numpy's implicit mode (no '->': output = the once-occurring letters in alphabetical order, e.g. 'ij,jk' = matrix product,
    'ij,j' = matrix-vector product) gives a correct response, but indices_out is taken as '' so sensitivity() raises ValueError;
(b) 'ii -> ' (blank after the arrow) is not recognised as the trace special case and raises TypeError although 'ii->' works.
Exit 1 while either is present."""
import sys
import numpy as np
import pymoto as pym
ok = True
rng = np.random.default_rng(0)
for expr, shapes in [("ij,jk", [(2, 3), (3, 2)]), ("ij,j", [(2, 3), (3,)]), ("ii -> ", [(3, 3)])]:
    xs = [rng.standard_normal(s) for s in shapes]
    sigs = [pym.Signal(f"a{i}", x.copy()) for i, x in enumerate(xs)]
    m = pym.EinSum(sigs, expression=expr)
    m.response()
    w = rng.standard_normal(np.shape(m.sig_out[0].state))
    m.sig_out[0].sensitivity = w
    try:
        m.sensitivity()
        for i, x in enumerate(xs):
            g = np.zeros_like(x)           # exact transposed Jacobian by linearity in each operand
            for idx in np.ndindex(x.shape):
                e = [y.copy() for y in xs]; e[i] = np.zeros_like(x); e[i][idx] = 1.0
                g[idx] = np.sum(w * np.einsum(expr, *e))
            good = np.allclose(sigs[i].sensitivity, g)
            print(repr(expr), "input", i, "ok" if good else "WRONG"); ok &= good
    except Exception as e:
        print(repr(expr), "sensitivity raised", type(e).__name__, str(e).split("\n")[0]); ok = False
sys.exit(0 if ok else 1)
