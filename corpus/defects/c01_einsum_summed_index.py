"""C01: EinSum sensitivity raised ValueError when an index is summed out of a single operand (e.g. 'ij->i', 'ij,k->ik'):
the adjoint expression 'i->ij' has an output index that appears in no input."""
import numpy as np, sys
import pymoto as pym
ok = True
rng = np.random.default_rng(0)
for expr, shapes in [("ij->i", [(2, 3)]), ("ij,k->ik", [(2, 3), (4,)]), ("ijk->j", [(2, 3, 2)])]:
    xs = [rng.standard_normal(s) for s in shapes]
    sigs = [pym.Signal(f"a{i}", x.copy()) for i, x in enumerate(xs)]
    m = pym.EinSum(sigs, expression=expr)
    m.response()
    w = rng.standard_normal(m.sig_out[0].state.shape)
    m.sig_out[0].sensitivity = w
    try:
        m.sensitivity()
        for i, x in enumerate(xs):
            # exact Jacobian transpose by linearity in each operand
            g = np.zeros_like(x)
            for idx in np.ndindex(x.shape):
                e = [y.copy() for y in xs]; e[i] = np.zeros_like(x); e[i][idx] = 1.0
                g[idx] = np.sum(w * np.einsum(expr, *e))
            good = np.allclose(sigs[i].sensitivity, g)
            print(expr, "input", i, "ok" if good else "WRONG"); ok &= good
    except Exception as e:
        print(expr, type(e).__name__, str(e).split("\n")[0]); ok = False
sys.exit(0 if ok else 1)
