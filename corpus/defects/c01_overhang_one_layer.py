"""C01: OverhangFilter with a single layer along the print axis: response is the identity but the sensitivity was garbage
(negative-index wrap into the same layer)."""
import numpy as np, sys
import pymoto as pym
ok = True
for dom, direction in [(pym.DomainDefinition(4, 1), [0, 1]), (pym.DomainDefinition(1, 3), [-1, 0]), (pym.DomainDefinition(2, 2, 1), [0, 0, 1])]:
    rng = np.random.default_rng(0)
    sx = pym.Signal('x', rng.uniform(0.1, 0.9, dom.nel))
    m = pym.OverhangFilter([sx], domain=dom, direction=direction)
    m.response()
    w = rng.standard_normal(dom.nel)
    m.sig_out[0].sensitivity = w.copy()
    m.sensitivity()
    print(direction, np.allclose(m.sig_out[0].state, sx.state), np.allclose(sx.sensitivity, w))
    ok &= np.allclose(m.sig_out[0].state, sx.state) and np.allclose(sx.sensitivity, w)
sys.exit(0 if ok else 1)
