"""C01: StaticCondensation sensitivity used C = [I; -A_ff^-1 A_fm] on both sides, which is the adjoint only for a
symmetric matrix; for a non-symmetric (or complex) matrix the sensitivities were wrong (or raised)."""
import numpy as np, scipy.sparse as sps, sys
import pymoto as pym
ok = True
rng = np.random.default_rng(3)
for cplx in (False, True):
    n = 5
    A = rng.standard_normal((n, n)) + n*np.eye(n) + (1j*rng.standard_normal((n, n)) if cplx else 0)
    main, free = np.array([0, 3]), np.array([1, 4])
    def red(Am):
        s = pym.Signal("A", sps.csc_matrix(Am)); m = pym.StaticCondensation([s], main=main, free=free); m.response()
        return np.asarray(m.sig_out[0].state), m, s
    R0, m, s = red(A)
    W = rng.standard_normal(R0.shape) + (1j*rng.standard_normal(R0.shape) if cplx else 0)
    try:
        m.sig_out[0].sensitivity = W.copy(); m.sensitivity()
        G = s.sensitivity.todense()
        h = 1e-6
        for (i, j) in [(0, 1), (1, 0), (1, 4), (4, 1), (3, 3), (1, 1), (0, 4)]:
            for d in ([1.0, 1j] if cplx else [1.0]):
                E = np.zeros((n, n), dtype=complex if cplx else float); E[i, j] = d
                fd = np.real(np.sum(W*(red(A + h*E)[0] - red(A - h*E)[0])))/(2*h)
                an = np.real(G[i, j]*d)
                good = abs(fd - an) < 1e-6*max(1, abs(fd))
                if not good: print("cplx" if cplx else "real", (i, j), d, "fd", fd, "an", an)
                ok &= good
    except Exception as e:
        print(type(e).__name__, str(e).split("\n")[0]); ok = False
print("ok", ok); sys.exit(0 if ok else 1)
