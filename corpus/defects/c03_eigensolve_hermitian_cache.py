"""C03 (also C11): EigenSolve detects `is_hermitian` on the FIRST matrix only and keeps the flag for ever
(`if self.is_hermitian is None: ...` in _response). A symmetric matrix followed by a non-symmetric one on the same
instance is then passed to scipy.linalg.eigh, which reads one triangle: the returned pairs are not eigenpairs of the
current matrix (fresh instance: correct complex pair). Exits 1 while the defect is present."""
import sys, warnings
import numpy as np
import pymoto as pym
warnings.simplefilter("ignore")
Asym = np.array([[2., 1, 0], [1, 3, 1], [0, 1, 5]])
Ans = np.array([[2., 1, 0], [-1, 3, 2], [1, 0.5, 5]])
s = pym.Signal("A", Asym.copy()); m = pym.EigenSolve([s]); m.response()
s.state = Ans.copy(); m.response()
lam, Q = [o.state for o in m.sig_out]
res_hist = np.abs(Ans @ Q - Q * lam).max()
s2 = pym.Signal("A", Ans.copy()); m2 = pym.EigenSolve([s2]); m2.response()
lam2, Q2 = [o.state for o in m2.sig_out]
res_fresh = np.abs(Ans @ Q2 - Q2 * lam2).max()
print("after a symmetric matrix:", lam, "residual", res_hist)
print("fresh instance          :", lam2, "residual", res_fresh)
sys.exit(0 if res_hist < 1e-8 else 1)
