"""C03: LinSolve cached the Hermitian flag and the auto-chosen solver of its FIRST matrix.
symmetric matrix, then non-symmetric matrix on the same module -> wrong x / wrong sensitivities."""
import numpy as np, scipy.sparse as sps, sys
import pymoto as pym
ok = True
S = np.array([[4., 1., 0.], [1., 3., 1.], [0., 1., 5.]]); N = np.array([[4., 1., 0.], [2., 3., 1.], [1., 0., 5.]])
b = np.array([1., 2., 3.])
for conv in (np.asarray, sps.csc_matrix):
    sA, sb = pym.Signal('A', conv(S)), pym.Signal('b', b)
    m = pym.LinSolve([sA, sb])
    m.response()
    sA.state = conv(N)
    m.response()
    x = m.sig_out[0].state
    r = np.linalg.norm(N @ x - b)
    m.sig_out[0].sensitivity = np.array([1., -1., 2.])
    m.sensitivity()
    gb = sb.sensitivity
    gb_true = np.linalg.solve(N.T, np.array([1., -1., 2.]))
    e = np.linalg.norm(gb - gb_true)
    print(conv.__name__, "residual", r, "sens err", e)
    ok &= r < 1e-9 and e < 1e-9
sys.exit(0 if ok else 1)
