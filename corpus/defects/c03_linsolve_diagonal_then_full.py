"""C03: LinSolve kept the automatically chosen solver of an earlier matrix: a diagonal matrix selects SolverDiagonal
(a complex symmetric one SolverDenseLDL), which was then used for a later full (non-symmetric) matrix -> wrong x."""
import numpy as np, scipy.sparse as sps, sys
import pymoto as pym
ok = True
D = np.diag([2., 3., 4.]); F = np.array([[4., 1., 0.], [2., 3., 1.], [1., 0., 5.]]); b = np.array([1., 2., 3.])
CS = np.array([[2+1j, 1j, 0], [1j, 3, 1], [0, 1, 4-1j]]); CN = np.array([[2+1j, 1j, 0], [2, 3, 1], [0, -1j, 4-1j]])
CD = np.diag([2+1j, 3-1j, 4+2j])
for conv in (np.asarray, sps.csc_matrix):
    for first, second in ((D, F), (CS, CN), (CD, CN)):
        sA, sb = pym.Signal('A', conv(first)), pym.Signal('b', b.astype(first.dtype))
        m = pym.LinSolve([sA, sb]); m.response()
        sA.state = conv(second); m.response()
        r = np.linalg.norm(second @ m.sig_out[0].state - b)
        print(conv.__name__, "residual", r); ok &= r < 1e-9
sys.exit(0 if ok else 1)
