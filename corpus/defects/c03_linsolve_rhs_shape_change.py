import numpy as np, pymoto as pym, sys, traceback
rng=np.random.default_rng(0)
A=rng.standard_normal((4,4))+4*np.eye(4)
bad=[]
for first,second in (((4,2),(4,)),((4,),(4,2)),((4,2),(4,3))):
    sA=pym.Signal('A',A.copy()); sb=pym.Signal('b',rng.standard_normal(first))
    m=pym.LinSolve([sA,sb]); m.response()
    sb.state=rng.standard_normal(second)
    try:
        m.response()
        r=np.abs(A@m.sig_out[0].state-sb.state).max()
        print(first,second,'ok',r)
    except Exception as e:
        print(first,second,'raises',type(e).__name__, str(e)[:100]); bad.append((first,second))
sys.exit(1 if bad else 0)
