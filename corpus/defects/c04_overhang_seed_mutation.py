"""C04: OverhangFilter._sensitivity accumulated into the caller's seed array, so a second sensitivity() added a different amount."""
import numpy as np, sys
import pymoto as pym
d = pym.DomainDefinition(3, 4)
rng = np.random.default_rng(0)
sx = pym.Signal('x', rng.uniform(0.1, 0.9, d.nel))
m = pym.OverhangFilter([sx], domain=d, direction=[0, 1])
m.response()
w = rng.standard_normal(d.nel)
m.sig_out[0].sensitivity = w.copy()
seed0 = m.sig_out[0].sensitivity.copy()
m.sensitivity(); g1 = sx.sensitivity.copy()
m.sensitivity(); g2 = sx.sensitivity.copy()
ok = np.allclose(g2, 2*g1) and np.array_equal(m.sig_out[0].sensitivity, seed0)
print("second call doubles:", np.allclose(g2, 2*g1), "seed untouched:", np.array_equal(m.sig_out[0].sensitivity, seed0))
sys.exit(0 if ok else 1)
