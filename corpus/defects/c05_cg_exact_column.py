"""C05: block CG breaks down when one column converges exactly before the others: its residual column is exactly 0, the next
search block contains an exactly-zero column, orth(..., normalize=False) computes 0/0 = nan in its zero test, keeps the zero
vector, and p^H A p is singular -> numpy.linalg.LinAlgError("Singular matrix") (or NaNs).
A = diag(1,2,3), b = [[1,0,0],[1,1,1]]^T (first column is an eigenvector): expected x = [[1,0,0],[1,1/2,1/3]]^T."""
import sys, warnings
import numpy as np
from pymoto.solvers import CG
warnings.simplefilter("ignore")
np.seterr(all="ignore")
A = np.diag([1., 2., 3.])
b = np.array([[1., 0., 0.], [1., 1., 1.]]).T
try:
    x = CG(A).solve(b)
    ok = bool(np.all(np.isfinite(x)) and np.allclose(A @ x, b))
    print("x =", x.tolist(), "solved:", ok)
except Exception as e:
    print("raised", type(e).__name__, e)
    ok = False
sys.exit(0 if ok else 1)
