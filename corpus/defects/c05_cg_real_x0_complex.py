"""C05: CG.solve(b, x0=<real array>) for a complex Hermitian system raises UFuncTypeError: x = x0.copy() keeps the real
dtype and `x += p @ alpha` cannot cast complex to float.  Without x0 the same system is solved."""
import sys, warnings
import numpy as np
from pymoto.solvers import CG
warnings.simplefilter("ignore")
A = np.array([[3., 1j, 0.], [-1j, 3., 1.], [0., 1., 2.]])
b = np.array([1. + 0j, 2., 0.])
try:
    x = CG(A, tol=1e-10).solve(b, x0=np.ones(3))
    ok = bool(x.shape == b.shape and np.allclose(A @ x, b, atol=1e-8))
    print("solved:", ok)
except Exception as e:
    print("raised", type(e).__name__, str(e)[:100])
    ok = False
sys.exit(0 if ok else 1)
