"""C05: CG with the SOR or the ILU preconditioner, REAL sparse SPD matrix and a COMPLEX right-hand side raises
TypeError ("Cannot cast array data from dtype('complex128') to dtype('float64')") for trans N, T and H: SOR.solve / ILU.solve
hand the complex residual to SuperLU objects factorised from a real matrix (same root cause as the repaired
SolverSparseLU defect f06340d, which was not applied to the preconditioners).  CG with the identity / DampedJacobi
preconditioner solves the same system.  Expected: x complex with A x = b."""
import sys, warnings
import numpy as np, scipy.sparse as sps
from pymoto.solvers import CG
from pymoto.solvers.iterative import SOR, ILU
warnings.simplefilter("ignore")
A = np.array([[4., 1., 0.], [1., 3., 1.], [0., 1., 5.]])
b = np.array([1. + 2.j, 0. - 1.j, 3. + 0.j])
ok = True
for P in (SOR, ILU):
    for trans in "NTH":
        try:
            x = CG(sps.csc_matrix(A), preconditioner=P(), tol=1e-10).solve(b, trans=trans)
            good = bool(x.shape == b.shape and np.allclose(A @ x, b, atol=1e-8))
        except Exception as e:
            print(P.__name__, trans, "raised", type(e).__name__, str(e)[:80])
            good = False
        ok &= good
print("solved all:", ok)
sys.exit(0 if ok else 1)
