"""C05: CG.solve returns NaN for EVERY column when one right-hand-side column is zero (and for a zero vector):
tval = ||r|| / ||b|| = 0/0 = nan never satisfies `<= tol`, orth() divides by sqrt(0).  A = diag(1,2,3), b = [[1,1,1],[0,0,0]]^T:
expected x = [[1,1/2,1/3],[0,0,0]]^T (A x = b has the unique solution x_2 = 0), observed all-NaN."""
import sys, warnings
import numpy as np
from pymoto.solvers import CG
warnings.simplefilter("ignore")
np.seterr(all="ignore")
A = np.diag([1., 2., 3.])
b = np.array([[1., 1., 1.], [0., 0., 0.]]).T
ok = True
for rhs in (b, np.zeros(3)):
    try:
        x = CG(A).solve(rhs)
        good = bool(np.all(np.isfinite(x)) and np.allclose(A @ x, rhs))
    except Exception as e:
        print("raised", type(e).__name__, e)
        good = False
    print("rhs shape", rhs.shape, "solved:", good)
    ok &= good
sys.exit(0 if ok else 1)
