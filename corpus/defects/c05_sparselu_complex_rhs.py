"""C05: SolverSparseLU with a REAL sparse matrix and a COMPLEX right-hand side raises TypeError
("Cannot cast array data from dtype('complex128') to dtype('float64')") for trans N, T and H, for shapes (n), (n,1), (n,k).
SuperLU.solve does not accept a rhs dtype different from the factor's; `self.iscomplex` is computed in update() but never
used.  The dense solvers (QR/LU/Cholesky/LDL/Diagonal) and CG handle the same input.  Expected: x complex with A x = b."""
import sys
import numpy as np, scipy.sparse as sps
from pymoto.solvers import SolverSparseLU
A = np.array([[4., 1., 0.], [1., 3., 1.], [0., 2., 5.]])
b = np.array([1. + 2.j, 0. - 1.j, 3. + 0.j])
ok = True
for trans, M in (("N", A), ("T", A.T), ("H", A.conj().T)):
    try:
        x = SolverSparseLU(sps.csc_matrix(A)).solve(b, trans=trans)
        good = x.shape == b.shape and np.allclose(M @ x, b)
        print(trans, "residual ok:", good)
        ok &= bool(good)
    except Exception as e:
        print(trans, "raised", type(e).__name__, str(e)[:90])
        ok = False
sys.exit(0 if ok else 1)
