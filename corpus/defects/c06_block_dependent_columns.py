"""C06: a block right-hand side whose newly solved columns are linearly dependent ([b1, b2, b1+3*b2]; or more new columns than
remaining dimensions) makes LDAWrapper store normalised rounding noise as a database pair (`bnrm == 0` is never hit in
floating point); every later solve that has a component along it returns a WRONG x (relative residual O(1))."""
import numpy as np, sys, warnings
from pymoto.solvers import LDAWrapper, SolverDenseLU
warnings.simplefilter("ignore")
A = np.array([[4., 1., 0., 2.], [2., 5., 1., 0.], [0., 1., 3., 1.], [1., 0., 2., 6.]])
s = LDAWrapper(SolverDenseLU(), A=A)
b = np.array([1., 2., 0., -1.])
b2 = np.array([0., 1., 1., 3.])
B = np.stack([b, b2, b + 3 * b2], axis=1)
X = s.solve(B)
ok = np.allclose(A @ X, B)
isel = s.nondiagonal_idx
worst_pair = max(np.linalg.norm(A[np.ix_(isel, isel)] @ x - bb) for x, bb in zip(s.x_stored, s.b_stored))
worst = 0.0
rng = np.random.default_rng(0)
for _ in range(5):
    c = rng.integers(-3, 4, 4).astype(float)
    x = s.solve(c)
    worst = max(worst, np.linalg.norm(A @ x - c) / np.linalg.norm(c))
print(f"database pairs: {len(s.x_stored)} (2 independent directions were solved), worst |A x_k - b_k| = {worst_pair:.2e}, "
      f"worst relative residual of later solves = {worst:.2e}")
ok &= worst < 1e-6
print("ok:", ok); sys.exit(0 if ok else 1)
