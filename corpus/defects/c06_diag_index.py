"""C06: get_diagonal_indices ignored the column-coupling condition (3rd arg of np.logical_and is `out`).
A=[[1,1],[0,1]], b=[1,2]: true x=[-1,2]; defective code returns [1,2]."""
import numpy as np, sys
from pymoto.solvers import LDAWrapper, SolverDenseLU
A = np.array([[1., 1.], [0., 1.]]); b = np.array([1., 2.])
x = LDAWrapper(SolverDenseLU(), A=A).solve(b)
ok = np.allclose(A @ x, b)
print("x =", x, "residual ok:", ok); sys.exit(0 if ok else 1)
