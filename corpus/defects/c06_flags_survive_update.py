"""C06/C03: LDAWrapper kept the symmetric/hermitian flags detected for the FIRST matrix after update() with another matrix."""
import numpy as np, sys
from pymoto.solvers import LDAWrapper, SolverDenseLU
S = np.array([[2., 1.], [1., 3.]]); N = np.array([[2., 1.], [0., 3.]]); b = np.array([1., 1.])
s = LDAWrapper(SolverDenseLU(), A=S)
s.update(N)
x = s.solve(b, trans='T')
ok = np.allclose(N.T @ x, b)
print("x =", x, "solves N^T x = b:", ok); sys.exit(0 if ok else 1)
