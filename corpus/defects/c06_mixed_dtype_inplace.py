"""C06: LDAWrapper subtracts a complex stored vector IN PLACE from a real array -> UFuncTypeError (a TypeError):
(a) real matrix, solve(complex b) then solve(real b'): `badd -= beta * b`;  (b) complex matrix, solve(b) then
solve(b', x0=real vector): `x0_loc[isel] -= outer(x, beta)`.  A fresh wrapper answers both calls."""
import numpy as np, sys, warnings
from pymoto.solvers import LDAWrapper, SolverDenseLU
warnings.simplefilter("ignore")
ok = True
A = np.array([[2., 1.], [1., 3.]])
s = LDAWrapper(SolverDenseLU(), A=A)
try:
    s.solve(np.array([1., 0.]) + 1j * np.array([0., 1.]))
    b = np.array([0., 1.]); x = s.solve(b); ok &= np.allclose(A @ x, b)
except TypeError as e:
    print("(a) TypeError:", e); ok = False
Ac = np.array([[2., 1j], [1., 3.]])
s = LDAWrapper(SolverDenseLU(), A=Ac)
try:
    s.solve(np.array([1., 0.]))
    b = np.array([0., 1.]); x = s.solve(b, x0=np.ones(2)); ok &= np.allclose(Ac @ x, b)
except TypeError as e:
    print("(b) TypeError:", e); ok = False
print("ok:", ok); sys.exit(0 if ok else 1)
