"""C06: LDAWrapper.solve with an initial guess and a non-empty database raised ValueError (beta * x does not broadcast)."""
import numpy as np, sys
from pymoto.solvers import LDAWrapper, SolverDenseLU
rng = np.random.default_rng(0)
A = rng.standard_normal((4, 4)) + 4*np.eye(4)
s = LDAWrapper(SolverDenseLU(), A=A)
ok = True
try:
    s.solve(rng.standard_normal(4))
    b = rng.standard_normal(4); x = s.solve(b, x0=np.ones(4)); ok &= np.allclose(A@x, b)
    B = rng.standard_normal((4, 2)); X = s.solve(B, x0=np.ones((4, 2))); ok &= np.allclose(A@X, B)
except ValueError as e:
    print("ValueError:", e); ok = False
print("ok:", ok); sys.exit(0 if ok else 1)
