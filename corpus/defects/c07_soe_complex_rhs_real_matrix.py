"""C07: SystemOfEquations with a REAL dense matrix and COMPLEX bf / xp allocates real x and b, so numpy silently drops the
imaginary parts (only a ComplexWarning): x[p] != xp and b[f] != bf although 'all right-hand-side dtypes' are admissible
(LinSolve itself handles a real dense matrix with a complex rhs). Exits 1 while the defect is present."""
import sys, warnings
import numpy as np
import pymoto as pym
warnings.simplefilter("ignore")
A = np.array([[4., 1, 0, 2], [1, 5, 1, 0], [0, 2, 6, 1], [1, 0, 1, 7]])
f, p = np.array([0, 2]), np.array([1, 3])
bf = np.array([1 + 2j, -1 + 0.5j]); xp = np.array([0.5 - 1j, 2 + 1j])
m = pym.SystemOfEquations([pym.Signal("A", A), pym.Signal("bf", bf), pym.Signal("xp", xp)], free=f, prescribed=p)
m.response()
x, b = [s.state for s in m.sig_out]
# reference: the partitioned system solved in complex arithmetic
xf = np.linalg.solve(A[np.ix_(f, f)], bf - A[np.ix_(f, p)] @ xp)
xr = np.zeros(4, dtype=complex); xr[f] = xf; xr[p] = xp
ok = np.allclose(x[p], xp) and np.allclose(b[f], bf) and np.allclose(x, xr)
print("x dtype", x.dtype, "| x[p] =", x[p], "xp =", xp, "| b[f] =", b[f], "bf =", bf, "| ok =", ok)
sys.exit(0 if ok else 1)
