"""C04/C03/C19: SystemOfEquations and StaticCondensation built their inner LinSolve on the module's OWN matrix input
signal, so response() overwrote the input signal A with the free-free block; a second response() failed."""
import numpy as np, scipy.sparse as sps, sys
import pymoto as pym
ok = True
A = sps.csc_matrix(np.array([[4., 1, 0, 0, 0], [1, 4, 1, 0, 0], [0, 1, 4, 1, 0], [0, 0, 1, 4, 1], [0, 0, 0, 1, 4]]))
sA = pym.Signal('A', A); sbf = pym.Signal('bf', np.array([1., 2., 3.])); sxp = pym.Signal('xp', np.array([0.5, -0.5]))
m = pym.SystemOfEquations([sA, sbf, sxp], free=np.array([0, 1, 2]), prescribed=np.array([3, 4]))
try:
    m.response(); ok &= sA.state.shape == (5, 5)
    m.response()
    x, b = [s.state for s in m.sig_out]
    ok &= np.allclose(A @ x, b)
except Exception as e:
    print("SystemOfEquations:", type(e).__name__, e); ok = False
sA2 = pym.Signal('A', A)
m2 = pym.StaticCondensation([sA2], main=np.array([0, 4]), free=np.array([1, 2, 3]))
try:
    m2.response(); ok &= sA2.state.shape == (5, 5)
    m2.response()
except Exception as e:
    print("StaticCondensation:", type(e).__name__, e); ok = False
print("ok:", ok); sys.exit(0 if ok else 1)
