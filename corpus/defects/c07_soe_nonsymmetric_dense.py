"""C07: SystemOfEquations used `*` as matrix product (fails for dense A), A_fp^T for A_pf and A_pp for A_pp^T
(wrong b and wrong sensitivities for non-symmetric A)."""
import numpy as np, scipy.sparse as sps, sys
import pymoto as pym
ok = True
rng = np.random.default_rng(1)
N = rng.standard_normal((5, 5)) + 5*np.eye(5)
f, p = np.array([0, 2, 3]), np.array([1, 4])
for conv in (sps.csc_matrix, np.asarray):
    sA = pym.Signal('A', conv(N)); sbf = pym.Signal('bf', rng.standard_normal(3)); sxp = pym.Signal('xp', rng.standard_normal(2))
    m = pym.SystemOfEquations([sA, sbf, sxp], free=f, prescribed=p)
    try:
        m.response()
        x, b = [s.state for s in m.sig_out]
        r = np.linalg.norm(N @ x - b); print(conv.__name__, "residual", r)
        ok &= r < 1e-9 and np.allclose(x[p], sxp.state) and np.allclose(b[f], sbf.state)
        # sensitivities against finite differences
        wx, wb = rng.standard_normal(5), rng.standard_normal(5)
        m.sig_out[0].sensitivity = wx; m.sig_out[1].sensitivity = wb
        m.sensitivity()
        def val(bf, xp, Am):
            mm = pym.SystemOfEquations([pym.Signal('A', conv(Am)), pym.Signal('bf', bf), pym.Signal('xp', xp)], free=f, prescribed=p)
            mm.response(); return wx @ mm.sig_out[0].state + wb @ mm.sig_out[1].state
        h = 1e-6
        for k in range(3):
            e = np.zeros(3); e[k] = h
            fd = (val(sbf.state + e, sxp.state, N) - val(sbf.state - e, sxp.state, N)) / (2*h)
            ok &= abs(fd - sbf.sensitivity[k]) < 1e-6
        for k in range(2):
            e = np.zeros(2); e[k] = h
            fd = (val(sbf.state, sxp.state + e, N) - val(sbf.state, sxp.state - e, N)) / (2*h)
            ok &= abs(fd - sxp.sensitivity[k]) < 1e-6
        gA = sA.sensitivity.todense() if hasattr(sA.sensitivity, 'todense') else sA.sensitivity
        for (i, j) in [(0, 1), (1, 0), (4, 4), (2, 3), (1, 4)]:
            E = np.zeros((5, 5)); E[i, j] = h
            fd = (val(sbf.state, sxp.state, N + E) - val(sbf.state, sxp.state, N - E)) / (2*h)
            ok &= abs(fd - gA[i, j]) < 1e-6
        print(conv.__name__, "ok so far", ok)
    except Exception as e:
        print(conv.__name__, type(e).__name__, e); ok = False
sys.exit(0 if ok else 1)
