"""C07: StaticCondensation passes `A[f][:, m].todense()` (a numpy.matrix, for which `*` and `.T @` are matrix semantics of a
2-D-only type) as right-hand side to its inner LinSolve. With the documented `solver=` override set to the iterative CG
solver (kwargs are 'directly passed into the LinSolve module') the response raises ValueError; with `.toarray()` it works.
Exits 1 while the defect is present."""
import sys, warnings
import numpy as np, scipy.sparse as sps
import pymoto as pym
warnings.simplefilter("ignore")
A = np.array([[4., 1, 0, 1], [1, 5, 1, 0], [0, 1, 6, 1], [1, 0, 1, 7]])
main, free = np.array([0, 3]), np.array([1, 2])
ref = A[np.ix_(main, main)] - A[np.ix_(main, free)] @ np.linalg.solve(A[np.ix_(free, free)], A[np.ix_(free, main)])
ok = True
for name, mk in [("default", lambda: {}), ("CG", lambda: {"solver": pym.solvers.CG(tol=1e-12)}),
                 ("CG+SOR", lambda: {"solver": pym.solvers.CG(preconditioner=pym.solvers.SOR(), tol=1e-12)})]:
    try:
        m = pym.StaticCondensation([pym.Signal("A", sps.csc_matrix(A))], main=main, free=free, **mk())
        m.response()
        err = np.abs(np.asarray(m.sig_out[0].state) - ref).max()
        print(name, "max error", err)
        ok &= err < 1e-8
    except Exception as e:
        print(name, "raises", type(e).__name__, str(e).split("\n")[0])
        ok = False
sys.exit(0 if ok else 1)
