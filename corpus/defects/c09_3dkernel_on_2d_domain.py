"""C09 regression witness (repaired in /repo 6759d43): FilterConv on a 2-D domain (nelz = 0) with a 3-D kernel (kz >= 3).

_process_padding used the raw domain.nelz = 0 in `domain_sizes` / `padded_sizes` although the element arrays have
one layer in z. The override box of a constant zmax face therefore covers the z-layer of the DOMAIN itself
(index pad + 0) instead of the padded layer (index pad + 1), and the boxes of constant x/y faces miss the last z layer:
the domain values are replaced by the constant and the padded layer reads x[0].

Exits 1 if the defect is back.
"""
import sys
import numpy as np
import pymoto as pym

d = pym.DomainDefinition(2, 2)
x = np.array([3.0, 5.0, 11.0, 13.0])
w = np.zeros((1, 1, 3))
w[0, 0, 1] = 1.0        # identity kernel: y = x regardless of the padding
m = pym.FilterConv(pym.Signal('x', x), domain=d, weights=w, zmax_bc=9.0)
m.response()
y = m.sig_out[0].state
print("identity kernel, zmax_bc=9.0: y =", y.tolist(), "expected", x.tolist())
sys.exit(0 if np.array_equal(y, x) else 1)
