"""matrix classification must not depend on the units: the same non-symmetric system at scale 1 and at scale 2^-40"""
import numpy as np, scipy.sparse as sps, sys, warnings
import pymoto as pym
warnings.simplefilter("ignore")
rng = np.random.default_rng(3)
bad = []
for n in (3, 5):
    A0 = rng.standard_normal((n, n)) + 3 * np.eye(n)
    b0 = rng.standard_normal(n)
    for sc in (1.0, 2.0 ** -40):
        for mk, nm in ((lambda M: M.copy(), "dense"), (sps.csc_matrix, "csc")):
            A, b = A0 * sc, b0.copy()
            m = pym.LinSolve([pym.Signal("A", mk(A)), pym.Signal("b", b)])
            m.response()
            x = m.sig_out[0].state
            r = np.abs(A @ x - b).max() / np.abs(b).max()
            if not r < 1e-8:
                bad.append(f"LinSolve {nm} n={n} scale={sc:g}: |A x - b|/|b| = {r:.2e} (solver {type(m.solver).__name__})")
            if nm == "dense":
                e = pym.EigenSolve([pym.Signal("A", A.copy())])
                e.response()
                W, Q = e.sig_out[0].state, e.sig_out[1].state
                r = max(np.abs(A @ Q[:, i] - W[i] * Q[:, i]).max() / (np.abs(A).max() * np.abs(Q[:, i]).max()) for i in range(n))
                if not r < 1e-8:
                    bad.append(f"EigenSolve dense n={n} scale={sc:g}: |A q - lambda q| / scale = {r:.2e}")
print("\n".join(bad) if bad else "ok")
sys.exit(1 if bad else 0)
