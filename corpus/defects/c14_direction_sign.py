"""C14: OverhangFilter string direction: the '-' sign was tested after `direction` had been rebound to a list -> always +."""
import numpy as np, sys
import pymoto as pym
d = pym.DomainDefinition(3, 3)
ok = True
for s, want in [("x-", [-1, 0, 0]), ("-y", [0, -1, 0]), ("+x", [1, 0, 0]), ("y+", [0, 1, 0]), ("Y", [0, 1, 0]), ("-X", [-1, 0, 0])]:
    m = pym.OverhangFilter([pym.Signal('x', np.ones(9))], domain=d, direction=s)
    got = m.direction.tolist()
    print(s, got); ok &= got == [float(v) for v in want]
sys.exit(0 if ok else 1)
