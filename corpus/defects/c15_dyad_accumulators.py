"""C15: DyadCarrier accumulations started from a typed/untyped zero taken from the first dyad:
 - dot / @vector / vector@ on an empty carrier -> IndexError
 - real first dyad with complex vector or complex later dyad -> casting error (dot and A[i, :])
 - A[i, :] on an empty carrier -> scalar 0 instead of a zero vector"""
import numpy as np, sys
from pymoto import DyadCarrier
ok = True
def chk(name, fn, want):
    global ok
    try:
        got = fn()
        good = np.shape(got) == np.shape(want) and np.allclose(got, want)
    except Exception as e:
        got, good = f"{type(e).__name__}: {e}", False
    print(name, "ok" if good else f"FAIL got {got!r}")
    ok &= good
E = DyadCarrier(shape=(3, 2))
chk("empty.dot", lambda: E.dot(np.ones(2)), np.zeros(3))
chk("empty@vec", lambda: E @ np.ones(2), np.zeros(3))
chk("vec@empty", lambda: np.ones(3) @ E, np.zeros(2))
chk("empty[1,:]", lambda: E[1, :], np.zeros(2))
A = DyadCarrier([np.array([1., 2, 3])], [np.array([1., -1])])
chk("real@complexvec", lambda: A @ np.array([1j, 2.]), A.todense() @ np.array([1j, 2.]))
chk("complexvec@real", lambda: np.array([1j, 2., 0]) @ A, np.array([1j, 2., 0]) @ A.todense())
B = DyadCarrier([np.array([1., 2, 3]), np.array([1j, 0, 1])], [np.array([1., -1]), np.array([2., 1j])])
chk("mixed[1,:]", lambda: B[1, :], B.todense()[1, :])
chk("mixed@vec", lambda: B @ np.array([1., 2.]), B.todense() @ np.array([1., 2.]))
chk("mixed[2,1]", lambda: B[2, 1], B.todense()[2, 1])
sys.exit(0 if ok else 1)
