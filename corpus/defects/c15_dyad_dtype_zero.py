"""C15: a complex DyadCarrier whose dyads are all zero (slice of a zero block, product with 0) reported a real dtype."""
import numpy as np, sys
from pymoto import DyadCarrier
A = DyadCarrier([np.array([1j, 0, 0])], [np.array([0., 2.])])
S = A[1:, :]
Z = A * 0
ok = S.todense().dtype == A.todense()[1:, :].dtype and Z.iscomplex() and S.iscomplex()
print(S.todense().dtype, Z.dtype); sys.exit(0 if ok else 1)
