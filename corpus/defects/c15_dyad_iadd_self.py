"""C15: a += a never terminated (add_dyad iterated over the list it appends to)."""
import numpy as np, sys, signal
from pymoto import DyadCarrier
def onalarm(*a): print("timeout: a += a does not terminate"); sys.exit(1)
signal.signal(signal.SIGALRM, onalarm); signal.alarm(5)
a = DyadCarrier([np.array([1., 2])], [np.array([3., 4])]); d = a.todense()
a += a
b = DyadCarrier([np.array([1., 2])], [np.array([3., 4])]); b -= b
ok = np.allclose(a.todense(), 2*d) and np.allclose(b.todense(), 0*d)
print("ok", ok); sys.exit(0 if ok else 1)
