"""C15 (repaired): `D[:, :] = 0` is accepted (no exception) but does nothing, whereas the dense `A[:, :] = 0` zeroes the matrix:
__setitem__ only zeroes rows / columns for a non-null subscript and a pair of null slices passes the validity check."""
import numpy as np, sys
from pymoto import DyadCarrier
D = DyadCarrier([np.array([1., 2., 0.])], [np.array([1., -1.])])
A = D.todense()
A[:, :] = 0.0
try:
    D[:, :] = 0.0
except Exception as e:   # rejecting the form would also be consistent (unsupported, like D[0:2, 1:3] = 0)
    print("rejected:", type(e).__name__); sys.exit(0)
ok = np.array_equal(D.todense(), A)
print(D.todense().tolist(), "expected", A.tolist()); sys.exit(0 if ok else 1)
