"""C16: AggActiveSet: a highest-fraction that rounds to zero entries removed ALL entries (i_sort[-0:] is the whole array)."""
import numpy as np, sys
import pymoto as pym
sel = pym.AggActiveSet(upper_amt=0.95)(np.array([3., 1., 2., 5., 4.]))
print(sel); sys.exit(0 if sel.all() else 1)
