"""C19 (candidate): a complex input given through an integer-array SignalSlice (b[np.array([0, 2])]): `x = Sin.state` is a COPY;
the real pass writes it back with `Sin.state = x`, the imaginary pass only does `it[0] += dx*1j*sf` on the copy, so the input is
never perturbed in the imaginary direction and the numerical value of that pass is 0.  Exits 1 while present."""
import contextlib, io, sys
import numpy as np
import pymoto as pm


class Lin3(pm.Module):
    def _response(self, x):
        return 3.0 * x

    def _sensitivity(self, dy):
        return 3.0 * dy


b, y = pm.Signal('b', np.array([1 + 1j, 2 + 0j, 3 - 1j])), pm.Signal('y')
calls = []
with contextlib.redirect_stdout(io.StringIO()):
    pm.finite_difference(Lin3(b[np.array([0, 2])], y), dx=2.0 ** -10, random=False,
                         test_fn=lambda x0, dx, an, fd: calls.append((float(an), float(fd))))
print(calls)
sys.exit(1 if any(an != fd for an, fd in calls) else 0)
