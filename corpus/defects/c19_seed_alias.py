"""C19 (regression witness, repaired in /repo 5a72e1d): `Sout.sensitivity = df_an[Iout]` handed the seed ARRAY ITSELF to the output signal; `blk.reset()` then
zeroes it in place (a) completely when the output Signal keeps its allocation (constructed with a sensitivity), (b) partly
when a SignalSlice of the same base signal belongs to the network (SignalSlice.reset writes 0 into the base array before
the plain signal is set to None).  The numerical values are then computed with the zeroed seed: a CORRECT module is reported
with a non-matching pair.  (b) happens with the default tosig (all module outputs) as soon as a later module reads a slice
of an intermediate vector; it is exercised here with `fromsig=x` (with the DEFAULT fromsig the slice `y[0:1]` itself counts as a
network input, which is the separate open finding fd-default-input-is-slice-of-internal-signal, witness
corpus/defects/pending/c19_default_input_internal_slice.py).  Exits 1 while present.  Fix: the signal is seeded with a deep copy."""
import contextlib, io, sys
import numpy as np
import pymoto as pm


class Lin3(pm.Module):
    def _response(self, x):
        return 3.0 * x

    def _sensitivity(self, dy):
        return 3.0 * dy


class Pick(pm.Module):
    def _response(self, x):
        return 2.0 * x

    def _sensitivity(self, dy):
        return 2.0 * dy


def run(blk, **kw):
    calls = []
    with contextlib.redirect_stdout(io.StringIO()):
        pm.finite_difference(blk, dx=2.0 ** -10, random=False, test_fn=lambda x0, dx, an, fd: calls.append((float(an), float(fd))), **kw)
    return calls


bad = []
# (a) keep_alloc output
x, y = pm.Signal('x', np.array([1.0, 2.0])), pm.Signal('y', sensitivity=np.zeros(2))
c = run(Lin3(x, y))
print("(a)", c)
if any(an != fd for an, fd in c):
    bad.append("keep_alloc output")
# (b) intermediate output read through a slice by a later module, default tosig (outputs y and z), fromsig = x
x, y, z = pm.Signal('x', np.array([1.0, 2.0])), pm.Signal('y'), pm.Signal('z')
net = pm.Network(Lin3(x, y), Pick(y[0:1], z))
c = run(net, fromsig=x)
print("(b)", c)
if any(an != fd for an, fd in c):
    bad.append("sliced intermediate output")
print("non-matching pairs for correct affine modules:", bad)
sys.exit(1 if bad else 0)
