"""C19 (candidate - NOT auto-run while it carries the .candidate suffix): finite_difference on a module whose INPUT signal
holds a scipy sparse matrix raises TypeError ("Iterator operand or requested dtype holds references, but the NPY_ITER_REFS_OK
flag was not enabled"): `np.nditer(x, ...)` turns the matrix into a 0-d object array, and the `except TypeError` fallback does
the same with `np.array(x)`.  The property names sparse-matrix signals; sparse OUTPUT signals work.  Exits 1 while present.
Proposed fix: corpus/defects/c19_sparse_input.patch (iterate over the stored values `x.data`, entry (row, col) from `x.tocoo()`)."""
import contextlib, io, sys
import numpy as np
import scipy.sparse as sp
import pymoto as pm


class SumMat(pm.Module):          # y = sum_ij c_ij A_ij
    def _prepare(self, C):
        self.C = C

    def _response(self, A):
        return np.array([(A.multiply(self.C)).sum()])

    def _sensitivity(self, dy):
        return sp.csr_matrix(self.C * dy[0])


A = sp.csr_matrix(np.array([[1.0, 2.0], [0.0, 3.0]]))
C = np.array([[2.0, -1.0], [5.0, 4.0]])
m = SumMat(pm.Signal('A', A), pm.Signal('y'), C)
calls = []
try:
    with contextlib.redirect_stdout(io.StringIO()):
        pm.finite_difference(m, dx=2.0 ** -10, random=False, test_fn=lambda x0, dx, an, fd: calls.append((float(x0), float(an), float(fd))))
except Exception as e:  # noqa
    print("finite_difference with a sparse-matrix input raised", type(e).__name__, str(e)[:120])
    sys.exit(1)
print(calls)
ok = sorted(calls) == sorted([(1.0, 2.0, 2.0), (2.0, -1.0, -1.0), (3.0, 4.0, 4.0)]) and \
    (m.sig_in[0].state != A).nnz == 0 and m.sig_in[0].sensitivity is None
sys.exit(0 if ok else 1)
