"""C19 (candidate): only the modules of the selected slice mods[i_first:i_last+1] are reset.  With the DEFAULT tosig (all
outputs of the whole network) and a fromsig in the middle of the network, an output that is produced before i_first is
seeded but never reset: (a) its seed is left set after the call; and an input of interest that lies outside the slice and
carries a stale sensitivity is (b) reported with that stale value as the 'analytical' value.  Exits 1 while present."""
import contextlib, io, sys
import numpy as np
import pymoto as pm


class Scale(pm.Module):
    def _prepare(self, c):
        self.c = c

    def _response(self, x):
        return self.c * x

    def _sensitivity(self, dy):
        return self.c * dy


def run(blk, **kw):
    calls = []
    with contextlib.redirect_stdout(io.StringIO()):
        pm.finite_difference(blk, dx=2.0 ** -10, random=False, test_fn=lambda x0, dx, an, fd: calls.append((float(an), float(fd))), **kw)
    return calls


bad = []
# (a)  x -> a,  x -> b,  a -> y ; finite_difference(net, fromsig=a): outputs of interest a, b, y; slice = [a -> y]
x, a, b, y = pm.Signal('x', np.array([1.0])), pm.Signal('a'), pm.Signal('b'), pm.Signal('y')
net = pm.Network(Scale(x, a, 2.0), Scale(x, b, 5.0), Scale(a, y, 3.0))
run(net, fromsig=a)
print("(a) b.sensitivity after the call:", b.sensitivity)
if b.sensitivity is not None:
    bad.append("seed left set on an output outside the slice")
# (b)  u -> v,  x -> y ; tosig=y ; default fromsig = {u, x}; u carries a stale sensitivity and lies outside the slice
u, v, x, y = pm.Signal('u', np.array([1.0])), pm.Signal('v'), pm.Signal('x', np.array([1.0])), pm.Signal('y')
u.sensitivity = np.array([7.0])
net = pm.Network(Scale(x, y, 3.0), Scale(u, v, 2.0))
c = run(net, tosig=y)
print("(b) (an, fd) pairs:", c)
if (7.0, 0.0) in c:
    bad.append("stale sensitivity of an input outside the slice reported as analytical value")
print(bad)
sys.exit(1 if bad else 0)
