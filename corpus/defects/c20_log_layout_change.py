"""C20 (edge, candidate - NOT auto-run while it carries the .candidate suffix): ScalarToFile writes the column labels
once (iteration 0) in the memory order of the state it sees then; every later row is written in the memory order of
the state of THAT call.  If the layout of a signal's state changes between calls (C-ordered at iteration 0, a transposed
view / Fortran-ordered array of the same shape later), the later row is permuted with respect to the header: the
column labelled B[0, 1] holds B[1, 0].  Exits 1 while this happens."""
import os, shutil, sys, tempfile
import numpy as np
import pymoto as pym
tmp = tempfile.mkdtemp()
ok = True
try:
    s = pym.Signal("B")
    m = pym.ScalarToFile([s], saveto=os.path.join(tmp, "log.txt"), fmt=".1f")
    b = np.array([[1.0, 2.0], [3.0, 4.0]])
    s.state = b                       # C order
    m.response()
    s.state = np.asfortranarray(b)    # same values, Fortran order
    m.response()
    lines = open(os.path.join(tmp, "log.txt")).read().splitlines()
    print("\n".join(lines))
    head = lines[0].split("\t")
    for i, row in enumerate(lines[1:]):
        for lab, col in zip(head[1:], row.split("\t")[1:]):
            idx = tuple(int(t) for t in lab[2:-1].split(", "))
            if float(col) != b[idx]:
                print(f"row {i}: column {lab} holds {col}, state{list(idx)} = {b[idx]}")
                ok = False
finally:
    shutil.rmtree(tmp)
sys.exit(0 if ok else 1)
