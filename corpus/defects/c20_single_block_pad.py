"""C20 (edge, candidate - NOT auto-run while it carries the .candidate suffix): write_to_vti with a block vector that
holds ONE 2-component nodal vector in a 2-D domain, shape (1, 2*nnodes) or (2*nnodes, 1): nvectors == 1, so the 2-D array
itself is sliced with [0::2] and cannot be broadcast into vec_pad[0::3] -> ValueError, although (1, nnodes), (1, 3*nnodes)
and (2, 2*nnodes) are written fine.  Exits 1 while the defect is present."""
import base64, os, shutil, struct, sys, tempfile
import xml.etree.ElementTree as ET
import numpy as np
import pymoto as pym
d = pym.DomainDefinition(2, 2)          # nel 4, nnodes 9
tmp = tempfile.mkdtemp()
ok = True
try:
    for shape in [(1, 2 * d.nnodes), (2 * d.nnodes, 1)]:
        try:
            u = np.arange(2.0 * d.nnodes) + 0.5
            d.write_to_vti({"u": u.reshape(shape)}, os.path.join(tmp, "o.vti"))
            da = ET.parse(os.path.join(tmp, "o.vti")).getroot().find("ImageData/Piece/PointData/DataArray")
            vals = np.frombuffer(base64.b64decode(da.text.strip()[12:]), dtype="<f4")
            want = np.zeros(3 * d.nnodes, dtype=np.float32)
            want[0::3], want[1::3] = u[0::2], u[1::2]
            good = da.attrib["Name"] == "u" and da.attrib["NumberOfComponents"] == "3" and np.array_equal(vals, want)
            print(shape, "written", "and decodes to (u, v, 0)" if good else "but does NOT decode to (u, v, 0)")
            ok &= bool(good)
        except Exception as e:  # noqa
            print(shape, type(e).__name__, str(e)[:90])
            ok = False
finally:
    shutil.rmtree(tmp)
sys.exit(0 if ok else 1)
