"""C15 (open, same root cause as open_c15_dtype_lost_on_copy): the complex type of a scalar / matrix operand is lost when the
carrier stores no dyad (E*1j, 1j*E, E @ M, M @ E, E @ C for complex M / carrier C are real while the dense results are complex),
and `D + 0j` (complex scalar zero) returns a real copy while `D.todense() + 0j` is complex."""
import numpy as np, sys
from pymoto import DyadCarrier
E = DyadCarrier(shape=(2, 2))
M = np.array([[1j, 0], [0, 1]])
C = DyadCarrier([np.array([1j, 1])], [np.array([1., 1.])])
D = DyadCarrier([np.array([1., 2.])], [np.array([1., 1.])])
Ed = E.todense()
checks = {
    "E*1j": (E * 1j).iscomplex() == np.iscomplexobj(Ed * 1j),
    "1j*E": (1j * E).iscomplex() == np.iscomplexobj(1j * Ed),
    "E@M": (E @ M).iscomplex() == np.iscomplexobj(Ed @ M),
    "M@E": (M @ E).iscomplex() == np.iscomplexobj(M @ Ed),
    "E@C": (E @ C).iscomplex() == np.iscomplexobj(Ed @ C.todense()),
    "D+0j": (D + 0j).iscomplex() == np.iscomplexobj(D.todense() + 0j),
}
bad = [k for k, v in checks.items() if not v]
print("complex type of the operand lost in:", bad); sys.exit(1 if bad else 0)
