"""C15 (open): a DyadCarrier whose dtype is complex while no STORED vector is complex (the complex dyads were zero and dropped,
e.g. Z = A*0 for a complex A) loses its complex type under copy / neg / .T / conj / scalar * / slicing / + / +=, because the
constructor recomputes the dtype from the vectors it is handed; Z.todense() is complex but Z.copy().todense() is real."""
import numpy as np, sys
from pymoto import DyadCarrier
A = DyadCarrier([np.array([1j, 0, 0])], [np.array([0., 2.])])
Z = A * 0                                   # complex zero matrix, nothing stored
R = DyadCarrier([np.array([1., 1., 1.])], [np.array([1., 1.])])
dense = Z.todense()
assert np.iscomplexobj(dense) and Z.iscomplex()
X = R.copy(); X += Z
checks = {
    "copy": Z.copy().iscomplex() == np.iscomplexobj(dense.copy()),
    "neg": (-Z).iscomplex() == np.iscomplexobj(-dense),
    "T": Z.T.iscomplex() == np.iscomplexobj(dense.T),
    "conj": Z.conj().iscomplex() == np.iscomplexobj(dense.conj()),
    "mul": (Z * 2).iscomplex() == np.iscomplexobj(dense * 2),
    "slice": Z[1:, :].iscomplex() == np.iscomplexobj(dense[1:, :]),
    "add": (R + Z).iscomplex() == np.iscomplexobj(R.todense() + dense),
    "iadd": X.iscomplex() == np.iscomplexobj(R.todense() + dense),
}
bad = [k for k, v in checks.items() if not v]
print("complex type lost under:", bad); sys.exit(1 if bad else 0)
