"""C01: EigenSolve, SPARSE path, complex Hermitian matrix: `_sparse_eigval_sens` uses d(lambda) = q^T dA q / q^T B q, which is
the derivative only when the left eigenvector is q itself (A = A^T); for a complex Hermitian matrix the left eigenvector is
conj(q), so the eigenvalue sensitivities are wrong (the dense path, Lee's system, is right). Compared with central
differences along a Hermitian direction. Exits 1 while the defect is present."""
import sys, warnings
import numpy as np, scipy.sparse as sps
import pymoto as pym
warnings.simplefilter("ignore")
rng = np.random.default_rng(3)
n = 8
C = rng.standard_normal((n, n)) + 1j * rng.standard_normal((n, n))
A = C @ C.conj().T + np.diag(np.arange(1, n + 1) * 3.0)

def solve(Am, sparse):
    s = pym.Signal("A", sps.csc_matrix(Am) if sparse else Am.copy())
    m = pym.EigenSolve([s], nmodes=2, hermitian=True) if sparse else pym.EigenSolve([s], hermitian=True)
    m.response()
    return m, s

E = rng.standard_normal((n, n)) + 1j * rng.standard_normal((n, n)); E = (E + E.conj().T) / 2
h = 1e-6
ok = True
for sparse in (False, True):
    m, s = solve(A, sparse)
    w = np.zeros(m.sig_out[0].state.shape); w[0] = 1.0
    m.sig_out[0].sensitivity = w
    m.sensitivity()
    g = s.sensitivity.todense() if hasattr(s.sensitivity, "todense") else s.sensitivity
    an = float(np.real(np.sum(g * E)))
    fd = float(np.real(solve(A + h * E, sparse)[0].sig_out[0].state[0] - solve(A - h * E, sparse)[0].sig_out[0].state[0]) / (2 * h))
    print("sparse" if sparse else "dense ", "analytic", an, "finite difference", fd)
    ok &= abs(an - fd) < 1e-5 * max(1.0, abs(fd))
sys.exit(0 if ok else 1)
