"""C01: EigenSolve, SPARSE path, REAL NON-SYMMETRIC matrix A (library routine `eigs`): `_sparse_eigval_sens` and
`_sparse_eigvec_sens` use the right eigenvector q on both sides (d(lambda) = q^T dA q / q^T B q; adjoint system solved with
(A - lambda B)^T and the homogeneous part c*q), which is the derivative only when q is also the LEFT eigenvector, i.e. when
(A - lambda B)^T q = 0 (symmetric pencil: Lean theorems C11.eig_sparse_eigval_adjoint / eig_sparse_eigvec_mode_adjoint need
exactly A^T = A, B^T = B). For a non-symmetric A with real simple eigenvalues both sensitivities are wrong; the dense path
(Lee's bordered system) is right for the same matrices. Same root cause as the finding
eigensolve-sparse-complex-hermitian-sens. Compared with central differences. Exits 1 while the defect is present."""
import sys, warnings
import numpy as np, scipy.sparse as sps
import pymoto as pym
warnings.simplefilter("ignore")
rng = np.random.default_rng(5)
n = 8
C = rng.standard_normal((n, n))
A = C @ C.T + np.diag(np.arange(1, n + 1) * 3.0) + np.triu(rng.standard_normal((n, n)), 1) * 1.5   # real, simple eigenvalues
D = rng.standard_normal((n, n)) * 0.2
B = D @ D.T + 2 * np.eye(n)
E = rng.standard_normal((n, n))
F = rng.standard_normal((n, n)) * 0.3
F = (F + F.T) / 2
ev = np.linalg.eigvals(np.linalg.solve(B, A))
ev = ev[np.argsort(np.abs(ev))]
assert np.abs(np.imag(ev[:2])).max() == 0.0 and np.real(ev[1] - ev[0]) > 0.2 and abs(ev[2] - ev[1]) > 0.2, ev   # modes 0, 1: real, simple


def solve(Am, Bm, sparse):
    cv = sps.csc_matrix if sparse else (lambda M: M.copy())
    sA, sB = pym.Signal("A", cv(Am)), pym.Signal("B", cv(Bm))
    m = pym.EigenSolve([sA, sB], nmodes=2, sigma=0.0) if sparse else pym.EigenSolve([sA, sB])
    m.response()
    return m, sA, sB


def dn(x):
    return np.asarray(x.todense()) if hasattr(x, "todense") else np.asarray(x)


ok = True
h = 1e-6
for sparse in (False, True):
    for seed_q in (False, True):
        m, sA, sB = solve(A, B, sparse)
        W, Q = m.sig_out[0].state, m.sig_out[1].state
        wl, wq = np.zeros(W.shape), np.zeros(Q.shape)
        if seed_q:
            wq[:, 0] = np.cos(np.arange(n))
            m.sig_out[1].sensitivity = wq
        else:
            wl[0] = 1.0
            m.sig_out[0].sensitivity = wl
        m.sensitivity()
        an = float(np.real(np.sum(dn(sA.sensitivity) * E) + np.sum(dn(sB.sensitivity) * F)))

        def f(s):
            mm = solve(A + s * E, B + s * F, sparse)[0]
            return float(np.real(np.sum(wq * mm.sig_out[1].state) + wl @ mm.sig_out[0].state))
        fd = (f(h) - f(-h)) / (2 * h)
        good = abs(an - fd) < 1e-5 * max(1.0, abs(fd))
        print("sparse" if sparse else "dense ", "eigenvector seed" if seed_q else "eigenvalue seed ", "analytic", an, "finite difference", fd,
              "ok" if good else "WRONG")
        ok &= good
sys.exit(0 if ok else 1)
