"""C01 (candidate): numpy.einsum broadcasts an extent-1 axis against a larger extent of the same index letter
('i,i->i' with shapes (1,) and (3,); 'ij,j->i' with shapes (2,1) and (3,)).  EinSum.response() accepts such operands, but
the sensitivity of the extent-1 operand is computed with the full extent and assigned into the (1,)-shaped array: ValueError.
Exit 1 while present."""
import sys
import numpy as np
import pymoto as pym
ok = True
rng = np.random.default_rng(0)
for expr, shapes in [("i,i->i", [(1,), (3,)]), ("ij,j->i", [(2, 1), (3,)])]:
    xs = [rng.standard_normal(s) for s in shapes]
    sigs = [pym.Signal(f"a{i}", x.copy()) for i, x in enumerate(xs)]
    m = pym.EinSum(sigs, expression=expr)
    m.response()
    w = rng.standard_normal(np.shape(m.sig_out[0].state))
    m.sig_out[0].sensitivity = w
    try:
        m.sensitivity()
        for i, x in enumerate(xs):
            g = np.zeros_like(x)
            for idx in np.ndindex(x.shape):
                e = [y.copy() for y in xs]; e[i] = np.zeros_like(x); e[i][idx] = 1.0
                g[idx] = np.sum(w * np.einsum(expr, *e))
            good = np.allclose(sigs[i].sensitivity, g)
            print(expr, shapes, "input", i, "ok" if good else "WRONG"); ok &= good
    except Exception as e:
        print(expr, shapes, "sensitivity raised", type(e).__name__, str(e).split("\n")[0]); ok = False
sys.exit(0 if ok else 1)
