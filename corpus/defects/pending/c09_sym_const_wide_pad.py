"""C09 candidate defect (pending disposition): FilterConv with a kernel wider than 2*n+1 along an axis
(pad > number of elements), lower face 'symmetric' and upper face a constant value.

_process_padding pads the upper face first with the placeholder index 0 (to be overridden by the constant),
then np.pad(..., mode='symmetric') on the lower face reflects the ALREADY PADDED index array. For pad > n the
reflection reaches the placeholder entries, which lie outside the override box of the upper face, so those
positions of the padded field read x[0] (global element 0) - neither the constant nor a reflection of the field.

Exits 1 while the defect is present.
"""
import sys
import numpy as np
import pymoto as pym

d = pym.DomainDefinition(2, 1)
x = np.array([3.0, 5.0])
w = np.zeros((7, 1))
w[6, 0] = 1.0          # y[i] = xpad[i]  i.e. the field at domain coordinate i - 3
m = pym.FilterConv(pym.Signal('x', x), domain=d, weights=w, xmin_bc='symmetric', xmax_bc=7.0)
m.response()
y = m.sig_out[0].state
# coordinate -3 of the symmetric (even, period 2n = 4) extension of [3, 5] is x[1] = 5; reflecting the field already
# extended by the constant would give 7. The code returns x[0] = 3.
ok = y[0] in (5.0, 7.0)
print("y =", y.tolist(), "expected y[0] in {5 (reflection of the field), 7 (reflection of the extended field)}")
# make the garbage visible independent of x[0]: change x[0] only
x2 = np.array([11.0, 5.0])
m2 = pym.FilterConv(pym.Signal('x', x2), domain=d, weights=w, xmin_bc='symmetric', xmax_bc=7.0)
m2.response()
print("with x[0]=11: y =", m2.sig_out[0].state.tolist())
sys.exit(0 if ok else 1)
