"""C10 (open finding mma-subsolv-nan-wide-ranges): the sub-problem solver `pymoto.common.mma.subsolv` returns NaN for a
sub-problem that MMA itself produced (first iteration of a convex problem with two variables, bounds [-0.013, 1.014] and
[-0.22, 1.9e5], a start far from feasibility): the damped Newton step `x + steg*dx` rounds to the bound `alfa` exactly for the
variable of magnitude 1e5, `epsi/(x - alfa)` divides by zero and every later iterate is NaN.  In exact arithmetic the step-length
rule keeps x strictly inside (alfa, beta) (Lean: C10.subsolv_interior_invariant); the floating-point implementation does not.
The design written back to the variable signals is then NaN: "each design variable stays within [xmin, xmax]" fails.
Exits 1 while the defect is present."""
import sys, warnings
import numpy as np
from pymoto.common import mma
warnings.simplefilter("ignore")
args = dict(
    epsimin=2.449489742783178e-09, low=np.array([-0.15080420607823347, -5616.783591544139]),
    upp=np.array([0.8766089537141926, 184009.6474631087]), alfa=np.array([0.26016105783873694, 70233.788830317]),
    beta=np.array([0.4656436897972222, 108159.07504124756]),
    P=np.array([[0.0, 363798470187888.06], [0.0, 4083742925.3719893], [0.0, 0.0], [0.0, 406358020.5083406], [0.0, 0.0]]),
    Q=np.array([[0.1095117330112716, 0.0], [0.0, 0.0], [0.02906280952444324, 0.0], [0.0, 0.0], [0.000554382032451853, 0.0]]),
    a0=1.0, a=np.zeros(4), b=np.array([2551.475155230153, 0.03385363355636298, 254.1187537903529, 0.38987371292909895]),
    c=np.full(4, 1000.0), d=np.ones(4), x0=np.array([0.3629023738179796, 89196.43193578228]))
with np.errstate(all="ignore"):
    out = mma.subsolv(*[args[k] for k in ("epsimin", "low", "upp", "alfa", "beta", "P", "Q", "a0", "a", "b", "c", "d", "x0")])
x = np.asarray(out[0], dtype=float)
inside = np.all(np.isfinite(x)) and np.all(x > args["alfa"]) and np.all(x < args["beta"])
print("subsolv x =", x, "inside (alfa, beta):", bool(inside))
sys.exit(0 if inside else 1)
