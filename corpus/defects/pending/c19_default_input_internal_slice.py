"""C19 (OPEN finding fd-default-input-is-slice-of-internal-signal; not auto-run from corpus/defects/pending): `Network.append`
computes sig_in = all_in - all_out on signal OBJECTS; a SignalSlice `y[0:1]` read by a later module is a different object than the
signal `y` an earlier module writes, so it counts as a network input.  `finite_difference(net)` with the default fromsig then
perturbs `y[0]` although the network overwrites it on every response: the numerical value is 0 while the back-propagated
sensitivity of that entry is not, i.e. a CORRECT network is reported with non-matching pairs.  (With `fromsig=x` the same network
is reported correctly, see corpus/defects/c19_seed_alias.py case (b).)  Exits 1 while present."""
import contextlib, io, sys
import numpy as np
import pymoto as pm


class Lin3(pm.Module):
    def _response(self, x):
        return 3.0 * x

    def _sensitivity(self, dy):
        return 3.0 * dy


class Pick(pm.Module):
    def _response(self, x):
        return 2.0 * x

    def _sensitivity(self, dy):
        return 2.0 * dy


x, y, z = pm.Signal('x', np.array([1.0, 2.0])), pm.Signal('y'), pm.Signal('z')
net = pm.Network(Lin3(x, y), Pick(y[0:1], z))
print("Network.sig_in:", sorted(s.tag for s in net.sig_in))
calls = []
with contextlib.redirect_stdout(io.StringIO()):
    pm.finite_difference(net, dx=2.0 ** -10, random=False,
                         test_fn=lambda x0, dx, an, fd: calls.append((float(an), float(fd))))
print("(an, fd) pairs of a correct affine network:", calls)
bad = [c for c in calls if c[0] != c[1]]
print("non-matching:", bad)
sys.exit(1 if bad or len(net.sig_in) != 1 else 0)
