"""C19 (candidate): the sub-network selection looks at `b.sig_in` of the top-level items only; an input of interest that is an
INTERNAL signal of a nested Network (written and read inside it) is invisible, the nested network ends up in `blks_pre`, and
the pair reported for d(out)/d(in) is (0, 0) although the derivative is not 0 (a wrong sensitivity there would be accepted);
when it is the only fromsig signal, RuntimeError("Could not find any modules that use ...") is raised although a module uses it.
Exits 1 while present."""
import contextlib, io, sys
import numpy as np
import pymoto as pm


class Scale(pm.Module):
    def _prepare(self, c):
        self.c = c

    def _response(self, x):
        return self.c * x

    def _sensitivity(self, dy):
        return self.c * dy


x, a, y, z = pm.Signal('x', np.array([1.0])), pm.Signal('a'), pm.Signal('y'), pm.Signal('z')
inner = pm.Network(Scale(x, a, 2.0), Scale(a, y, 3.0))       # a is internal to the nested network
net = pm.Network(inner, Scale(y, z, 5.0))
ok = True
for fromsig, want in (([a], [(15.0, 15.0)]), ([a, y], [(15.0, 15.0), (5.0, 5.0)])):
    calls = []
    try:
        with contextlib.redirect_stdout(io.StringIO()):
            pm.finite_difference(net, fromsig=fromsig, tosig=z, dx=2.0 ** -10, random=False,
                                 test_fn=lambda x0, dx, an, fd: calls.append((float(an), float(fd))))
        print([s.tag for s in fromsig], "d z / d a = 15; reported (an, fd):", calls)
        ok = ok and calls == want
    except Exception as e:  # noqa
        print([s.tag for s in fromsig], "raised", type(e).__name__, str(e)[:100])
        ok = False
sys.exit(0 if ok else 1)
