"""Shared machinery of the checks: context, model driver, exact-number encoding, comparison,
Lean obligations (build, hygiene, axiom audit), evidence, known findings.

Everything here is Python stdlib + numpy; pymoto is imported (from /repo) only by the property
modules under harness/props/.
"""
import json
import math
import os
import random
import re
import subprocess
import sys
import time
import traceback
from concurrent.futures import ThreadPoolExecutor
from fractions import Fraction

import numpy as np

VERIF = os.path.dirname(os.path.dirname(os.path.abspath(__file__)))
LEAN_DIR = os.path.join(VERIF, "lean")
REPO = os.environ.get("PYMOTO_REPO", "/repo")
ALLOWED_AXIOMS = {"propext", "Classical.choice", "Quot.sound"}
HYGIENE_RE = re.compile(r"\bsorry\b|\badmit\b|^\s*axiom\s|native_decide|bv_decide|implemented_by|\bunsafe\s|maxHeartbeats\s+0")


class InfraError(Exception):
    """failure of the checking machinery itself (exit 2)"""


# ----------------------------------------------------------------------------------------------
# exact numbers
# ----------------------------------------------------------------------------------------------
def q(x):
    """encode an int / float / Fraction / numpy scalar exactly for the Lean driver"""
    if isinstance(x, (bool, np.bool_)):
        return int(x)
    if isinstance(x, (int, np.integer)):
        return int(x)
    if isinstance(x, Fraction):
        return x.numerator if x.denominator == 1 else f"{x.numerator}/{x.denominator}"
    if isinstance(x, (float, np.floating)):
        f = float(x)
        if not math.isfinite(f):
            raise ValueError("non-finite number cannot be sent exactly")
        n, d = f.as_integer_ratio()
        return n if d == 1 else f"{n}/{d}"
    raise TypeError(f"cannot encode {type(x)}")


def qlist(a):
    """nested lists / arrays of exact numbers"""
    if isinstance(a, np.ndarray):
        a = a.tolist()
    if isinstance(a, (list, tuple)):
        return [qlist(v) for v in a]
    return q(a)


def qc(z):
    """complex → [re, im] exact"""
    z = complex(z)
    return [q(z.real), q(z.imag)]


def qclist(a):
    if isinstance(a, np.ndarray):
        a = a.tolist()
    if isinstance(a, (list, tuple)):
        return [qclist(v) for v in a]
    return qc(a)


def fr(v):
    """decode a driver number into a Fraction"""
    if isinstance(v, bool):
        return Fraction(int(v))
    if isinstance(v, int):
        return Fraction(v)
    if isinstance(v, float):
        return Fraction(v)
    if isinstance(v, str):
        return Fraction(v)
    raise TypeError(f"cannot decode {v!r}")


def frlist(a):
    if isinstance(a, list):
        return [frlist(v) for v in a]
    return fr(a)


def flat(a):
    out = []

    def rec(v):
        if isinstance(v, (list, tuple)):
            for w in v:
                rec(w)
        else:
            out.append(v)
    rec(a)
    return out


def close(impl, model, rtol=1e-9, atol=1e-12, scale=None):
    """impl: float/complex (array-like); model: Fractions / floats of the same nested shape.
    Returns (ok, worst_excess_description). Comparison is |impl - model| <= atol*scale + rtol*|model|."""
    a = np.asarray(impl)
    fa = flat(a.tolist())
    fm = flat(model)
    if len(fa) != len(fm):
        return False, f"size {len(fa)} != {len(fm)}"
    sc = 1.0 if scale is None else float(scale)
    worst = None
    for i, (x, m) in enumerate(zip(fa, fm)):
        if isinstance(m, (list, tuple)):
            raise TypeError("ragged")
        if isinstance(m, complex) or isinstance(x, complex):
            d = abs(complex(x) - complex(m))
            mm = abs(complex(m))
        else:
            mf = float(m)
            if math.isnan(mf) or (isinstance(x, float) and math.isnan(x)):
                if not (math.isnan(mf) and math.isnan(float(x))):
                    return False, f"nan mismatch at {i}: impl={x} model={mf}"
                continue
            d = abs(float(x) - mf)
            mm = abs(mf)
        tol = atol * sc + rtol * mm
        if not d <= tol:
            if worst is None or d - tol > worst[0]:
                worst = (d - tol, i, x, m)
    if worst is None:
        return True, ""
    return False, f"entry {worst[1]}: impl={worst[2]!r} model={float(worst[3]) if not isinstance(worst[3], complex) else worst[3]!r}"


# ----------------------------------------------------------------------------------------------
# model driver
# ----------------------------------------------------------------------------------------------
def _run_driver_chunk(lines):
    if not lines:
        return []
    inp = "\n".join(json.dumps(l, separators=(",", ":")) for l in lines) + "\n"
    env = dict(os.environ)
    env["LEAN_PATH"] = os.path.join(LEAN_DIR, ".lake", "build", "lib", "lean")
    last = ""
    for attempt in range(3):  # a driver process killed from outside (rc < 0, seen under heavy machine load) is retried
        try:
            p = subprocess.run(["lean", "--run", "Driver.lean"], cwd=LEAN_DIR, input=inp, env=env,
                               capture_output=True, text=True, timeout=3000)
        except subprocess.TimeoutExpired:
            raise InfraError("model driver timed out")
        outs = [l for l in p.stdout.split("\n") if l.strip()]
        if p.returncode == 0 and len(outs) == len(lines):
            return [json.loads(l) for l in outs]
        last = (f"model driver failed rc={p.returncode} got {len(outs)}/{len(lines)} lines\n"
                f"{p.stderr[-2000:]}\n{p.stdout[-500:]}")
        if p.returncode >= 0:
            break
        time.sleep(2 + 3 * attempt)
    raise InfraError(last)


def run_model(lines, shards=None):
    """send request dicts to the Lean driver; returns the list of `{"ok":..}` / `{"err":..}` dicts"""
    lines = list(lines)
    if not lines:
        return []
    if shards is None:
        shards = min(14, max(1, len(lines) // 40))
    if shards <= 1:
        return _run_driver_chunk(lines)
    n = len(lines)
    bounds = [(n * i) // shards for i in range(shards + 1)]
    chunks = [lines[bounds[i]:bounds[i + 1]] for i in range(shards)]
    with ThreadPoolExecutor(max_workers=shards) as ex:
        res = list(ex.map(_run_driver_chunk, chunks))
    out = []
    for r in res:
        out.extend(r)
    return out


# ----------------------------------------------------------------------------------------------
# implementation calls: map exceptions to a small enum
# ----------------------------------------------------------------------------------------------
ERR_CLASSES = (IndexError, ValueError, TypeError, AssertionError, ZeroDivisionError, KeyError,
               AttributeError, RuntimeError, NotImplementedError, np.linalg.LinAlgError)


def errname(e):
    if isinstance(e, AssertionError):
        return "Assertion"
    for c in ERR_CLASSES:
        if isinstance(e, c):
            return c.__name__
    return type(e).__name__


def call_impl(fn, *a, **kw):
    """returns ("ok", value) or ("err", ErrName, message)"""
    try:
        return ("ok", fn(*a, **kw))
    except Exception as e:  # noqa
        return ("err", errname(e), f"{type(e).__name__}: {e}")


def vary_layout(a, key):
    """the same logical array in another memory layout for about half of the keys: Fortran order, or the transposed view of a
    C-ordered array (rank >= 2 only). What the library computes must not depend on it, and it must not write into it."""
    import zlib
    if not isinstance(a, np.ndarray) or a.ndim < 2 or a.size == 0:
        return a
    h = zlib.crc32(repr(key).encode()) % 4
    if h == 1:
        return np.asfortranarray(a)
    if h == 2:
        return np.ascontiguousarray(a.T).T      # F-contiguous view that does not own its data
    return a


def frozen(a):
    """bitwise snapshot of an array argument (to check afterwards that a call did not write into it)"""
    return None if not isinstance(a, np.ndarray) else (a.dtype.str, a.shape, a.tobytes())


# ----------------------------------------------------------------------------------------------
# context
# ----------------------------------------------------------------------------------------------
class Ctx:
    def __init__(self, prop, tier, seed):
        self.prop = prop
        self.tier = tier
        self.quick = tier == "quick"
        self.seed = seed
        self.rng = random.Random(f"{prop}-{seed}")
        self.nprng = np.random.default_rng(abs(hash((prop, seed))) % (2 ** 32) if False else
                                           int.from_bytes(f"{prop}-{seed}".encode(), "little") % (2 ** 63))
        self.evaluations = 0
        self.distinct = set()
        self.samples = []
        self.branches = {}
        self.disagreements = []   # correspondence failures (model vs implementation)
        self.oracle_failures = []  # property violations observed directly on the real code
        self.skipped_boundary = 0
        self.modes = {}
        self.notes = []
        self.t0 = time.time()
        self.max_keep = 40

    def reseed(self, k):
        """fresh random streams for an extra correspondence round (round k >= 1) of the same run"""
        self.rng = random.Random(f"{self.prop}-{self.seed}-round{k}")
        self.nprng = np.random.default_rng(int.from_bytes(f"{self.prop}-{self.seed}-round{k}".encode(), "little") % (2 ** 63))

    # -- bookkeeping -------------------------------------------------------------------------
    def branch(self, name, n=1):
        self.branches[name] = self.branches.get(name, 0) + n

    def sample(self, obj, limit=6):
        if len(self.samples) < limit:
            self.samples.append(obj)

    def mode(self, m):
        self.modes[m] = self.modes.get(m, 0) + 1

    def agree(self, key, nontrivial=True):
        self.evaluations += 1
        if nontrivial:
            self.distinct.add(key if isinstance(key, (str, int, tuple)) else json.dumps(key, sort_keys=True, default=str))

    def disagree(self, stream, case, impl, model, detail=""):
        self.evaluations += 1
        if len(self.disagreements) < self.max_keep:
            self.disagreements.append({"stream": stream, "case": case, "impl": _short(impl), "model": _short(model),
                                       "detail": detail})
        else:
            self.disagreements.append(None)

    def compare_exact(self, stream, case, impl, model, key=None, nontrivial=True):
        """impl / model are JSON-like values that must be equal"""
        self.mode("E")
        if _canon(impl) == _canon(model):
            self.agree(key if key is not None else (stream, json.dumps(case, sort_keys=True, default=str)), nontrivial)
            return True
        self.disagree(stream, case, impl, model, "exact mismatch")
        return False

    def compare_close(self, stream, case, impl, model, rtol=1e-9, atol=1e-12, scale=None, key=None, nontrivial=True):
        self.mode("T")
        ok, why = close(impl, model, rtol, atol, scale)
        if ok:
            self.agree(key if key is not None else (stream, json.dumps(case, sort_keys=True, default=str)), nontrivial)
            return True
        self.disagree(stream, case, np.asarray(impl).tolist(), _tofloat(model), why)
        return False

    def oracle_fail(self, what, witness, key=None):
        """a violation of the PROPERTY ITSELF shown on the real code (input + expected + observed)"""
        if len(self.oracle_failures) < self.max_keep:
            self.oracle_failures.append({"what": what, "witness": witness, "finding_key": key})

    def model(self, reqs, shards=None):
        return run_model(reqs, shards)

    def elapsed(self):
        return time.time() - self.t0


def _canon(v):
    if isinstance(v, np.ndarray):
        v = v.tolist()
    if isinstance(v, (list, tuple)):
        return [_canon(w) for w in v]
    if isinstance(v, (np.integer,)):
        return int(v)
    if isinstance(v, (np.floating,)):
        v = float(v)
    if isinstance(v, float) and v.is_integer() and abs(v) < 2 ** 53:
        return int(v)
    if isinstance(v, (np.bool_,)):
        return bool(v)
    if isinstance(v, dict):
        return {k: _canon(w) for k, w in sorted(v.items())}
    if isinstance(v, Fraction):
        return int(v) if v.denominator == 1 else str(v)
    if isinstance(v, complex):
        return [_canon(v.real), _canon(v.imag)]
    return v


def _tofloat(v):
    if isinstance(v, list):
        return [_tofloat(w) for w in v]
    if isinstance(v, Fraction):
        return float(v)
    return v


def _short(v, limit=4000):
    try:
        s = json.dumps(_canon(_tofloat(v)), default=str)
    except Exception:
        s = repr(v)
    if len(s) > limit:
        return s[:limit] + "…"
    return json.loads(s) if len(s) <= limit else s


# ----------------------------------------------------------------------------------------------
# Lean obligations
# ----------------------------------------------------------------------------------------------
def _lean_files():
    out = []
    for root, _, files in os.walk(os.path.join(LEAN_DIR, "PymotoVerif")):
        for f in files:
            if f.endswith(".lean"):
                out.append(os.path.join(root, f))
    out.append(os.path.join(LEAN_DIR, "Driver.lean"))
    return sorted(out)


def _strip_comments(src):
    # remove /- ... -/ (nested) and -- line comments
    out = []
    i, depth, n = 0, 0, len(src)
    while i < n:
        if src.startswith("/-", i):
            depth += 1
            i += 2
        elif depth and src.startswith("-/", i):
            depth -= 1
            i += 2
        elif depth:
            if src[i] == "\n":
                out.append("\n")
            i += 1
        elif src.startswith("--", i):
            while i < n and src[i] != "\n":
                i += 1
        else:
            out.append(src[i])
            i += 1
    return "".join(out)


def hygiene():
    hits = []
    for f in _lean_files():
        src = _strip_comments(open(f).read())
        for ln, line in enumerate(src.split("\n"), 1):
            if HYGIENE_RE.search(line):
                hits.append(f"{os.path.relpath(f, LEAN_DIR)}:{ln}: {line.strip()[:120]}")
    return hits


THEOREM_RE = re.compile(r"^(?:private\s+|protected\s+)?(?:theorem|lemma)\s+([A-Za-z_][\w'.]*)", re.M)
NAMESPACE_RE = re.compile(r"^namespace\s+([\w.]+)", re.M)


def prop_theorems(prop):
    path = os.path.join(LEAN_DIR, "PymotoVerif", "Props", f"{prop}.lean")
    src = _strip_comments(open(path).read())
    ns = NAMESPACE_RE.search(src)
    ns = ns.group(1) if ns else ""
    names = []
    for m in re.finditer(r"^(private\s+)?(?:theorem|lemma)\s+([A-Za-z_][\w'.]*)", src, re.M):
        if m.group(1):
            continue
        names.append(f"{ns}.{m.group(2)}" if ns else m.group(2))
    return names


def lean_obligations(prop, extra_modules=(), extra_theorems=()):
    """build Props/<prop> (+ the driver handlers), hygiene grep, axiom audit.
    Returns dict(ok, build_ok, theorems, axioms, bad_axioms, hygiene, log)."""
    res = {"ok": False, "build_ok": False, "theorems": [], "axioms": {}, "bad_axioms": {}, "hygiene": [], "log": ""}
    targets = [f"PymotoVerif.Props.{prop}", "PymotoVerif.Drv.All"] + list(extra_modules)
    t0 = time.time()
    try:
        p = subprocess.run(["lake", "build"] + targets, cwd=LEAN_DIR, capture_output=True, text=True, timeout=3000)
    except subprocess.TimeoutExpired:
        raise InfraError("lake build timed out")
    res["build_s"] = round(time.time() - t0, 2)
    res["log"] = (p.stdout + p.stderr)[-6000:]
    res["build_ok"] = p.returncode == 0
    res["hygiene"] = hygiene()
    if not res["build_ok"]:
        return res
    names = prop_theorems(prop) + [t for t in extra_theorems]
    res["theorems"] = names
    audit = os.path.join(LEAN_DIR, ".lake", f"audit_{prop}.lean")
    os.makedirs(os.path.dirname(audit), exist_ok=True)
    with open(audit, "w") as f:
        f.write(f"import PymotoVerif.Props.{prop}\n")
        for m in extra_modules:
            f.write(f"import {m}\n")
        for n in names:
            f.write(f"#print axioms {n}\n")
    p = subprocess.run(["lake", "env", "lean", audit], cwd=LEAN_DIR, capture_output=True, text=True, timeout=3000)
    out = p.stdout + p.stderr
    res["audit_rc"] = p.returncode
    # parse: "'name' depends on axioms: [a, b]" or "'name' does not depend on any axioms"
    for m in re.finditer(r"'([^']+)' depends on axioms: \[([^\]]*)\]", out.replace("\n", " ")):
        res["axioms"][m.group(1)] = [a.strip() for a in m.group(2).split(",") if a.strip()]
    for m in re.finditer(r"'([^']+)' does not depend on any axioms", out):
        res["axioms"][m.group(1)] = []
    for n, ax in res["axioms"].items():
        bad = [a for a in ax if a not in ALLOWED_AXIOMS]
        if bad:
            res["bad_axioms"][n] = bad
    missing = [n for n in names if n not in res["axioms"]]
    res["audit_missing"] = missing
    if p.returncode != 0:
        res["log"] += "\nAUDIT:\n" + out[-3000:]
    res["ok"] = (res["build_ok"] and not res["hygiene"] and not res["bad_axioms"] and not missing
                 and p.returncode == 0 and len(names) > 0)
    return res


def leanchecker(prop):
    """thorough tier: independent re-check of the compiled property module"""
    t0 = time.time()
    try:
        p = subprocess.run(["lake", "env", "leanchecker", f"PymotoVerif.Props.{prop}"], cwd=LEAN_DIR,
                           capture_output=True, text=True, timeout=3000)
    except subprocess.TimeoutExpired:
        raise InfraError("leanchecker timed out")
    return {"rc": p.returncode, "s": round(time.time() - t0, 1), "out": (p.stdout + p.stderr)[-1500:]}


# ----------------------------------------------------------------------------------------------
# known findings
# ----------------------------------------------------------------------------------------------
def known_findings(prop):
    """open findings of KNOWN_FINDINGS.txt for this property: list of dict(key, text, witness)"""
    path = os.path.join(VERIF, "KNOWN_FINDINGS.txt")
    out = []
    if not os.path.exists(path):
        return out
    for line in open(path):
        line = line.strip()
        if not line.startswith("finding:"):
            continue
        m = re.match(r"finding:\s+property=(\S+)\s+key=(\S+)\s+(.*)", line)
        if not m or m.group(1) != prop:
            continue
        text = m.group(3)
        w = re.search(r"witness=(\S+)", text)
        out.append({"key": m.group(2), "text": re.sub(r"\s*witness=\S+", "", text), "witness": w.group(1) if w else None})
    return out


# ----------------------------------------------------------------------------------------------
# evidence
# ----------------------------------------------------------------------------------------------
BASE_TRUSTED = [
    "Lean 4.33.0 kernel and Mathlib v4.33.0 as compiled on the image",
    "axioms allowed: propext, Classical.choice, Quot.sound (audited by #print axioms on every property theorem)",
    "hand-written Lean model, validated (not verified) against /repo by the correspondence run of this check",
    "Lean driver + JSON encoding + Python harness (generators, comparison, oracles)",
    "CPython / numpy / scipy semantics; IEEE-754 rounding replaced by exact arithmetic + tolerance",
]


def write_evidence(ctx, lean, violations, extra=None, assumptions=None, level="proof"):
    evdir = os.environ.get("VERIF_EVIDENCE_DIR", os.path.join(VERIF, "evidence"))  # (tools/eval_seeded.py redirects it)
    os.makedirs(evdir, exist_ok=True)
    nthm = len(lean.get("theorems", []))
    discharged = len([n for n in lean.get("theorems", []) if n in lean.get("axioms", {}) and n not in lean.get("bad_axioms", {})]) if lean.get("ok") else 0
    axioms_used = sorted({a for ax in lean.get("axioms", {}).values() for a in ax})
    cov = {
        "obligations": max(nthm, 1),
        "discharged": discharged,
        "checker_cmd": f"cd lean && lake build PymotoVerif.Props.{ctx.prop} && lake env lean .lake/audit_{ctx.prop}.lean  (#print axioms of every theorem; hygiene grep)",
        "trusted_base": BASE_TRUSTED + [f"axioms actually used by the theorems of Props/{ctx.prop}.lean: {axioms_used}"],
        "theorems": lean.get("theorems", []),
        "evaluations": ctx.evaluations,
        "distinct_nontrivial": len(ctx.distinct),
        "rule": getattr(ctx, "rule", "generated correspondence cases (model vs implementation); distinct = distinct case keys whose result is not the trivial/empty one"),
        "samples": ctx.samples if ctx.samples else ["(no sample recorded)"],
        "branches": ctx.branches,
        "comparison_modes": ctx.modes,
        "boundary_skipped": ctx.skipped_boundary,
        "correspondence_disagreements": len(ctx.disagreements),
        "oracle_failures": len(ctx.oracle_failures),
        "lean_build_ok": lean.get("build_ok", False),
        "lean_hygiene_hits": lean.get("hygiene", []),
        "lean_bad_axioms": lean.get("bad_axioms", {}),
        "notes": ctx.notes,
    }
    if extra:
        cov.update(extra)
    ev = {
        "property_id": ctx.prop,
        "tier": ctx.tier,
        "seed": int(ctx.seed),
        "level": level,
        "coverage": cov,
        "assumptions": assumptions or [],
        "wall_s": round(ctx.elapsed(), 2),
        "violations": int(violations),
    }
    path = os.path.join(evdir, f"{ctx.prop}.json")
    with open(path, "w") as f:
        json.dump(ev, f, indent=1, default=str)
    return path


def write_replay(ctx, payload, tag="w"):
    os.makedirs(os.path.join(VERIF, "replays"), exist_ok=True)
    path = os.path.join(VERIF, "replays", f"{ctx.prop}-{ctx.seed}-{tag}.json")
    with open(path, "w") as f:
        json.dump(payload, f, indent=1, default=str)
    return os.path.relpath(path, VERIF)


# ----------------------------------------------------------------------------------------------
# regression corpus of repaired defects: corpus/defects/<cxx>_*.py exit 0 when the defect is absent
# ----------------------------------------------------------------------------------------------
def run_defect_corpus(ctx):
    import glob
    files = sorted(glob.glob(os.path.join(VERIF, "corpus", "defects", f"{ctx.prop.lower()}_*.py")))
    for f in files:
        try:
            p = subprocess.run([sys.executable, f], capture_output=True, text=True, timeout=300)
        except subprocess.TimeoutExpired:
            ctx.oracle_fail(f"regression witness {os.path.basename(f)} timed out", {"script": os.path.relpath(f, VERIF)})
            continue
        ctx.evaluations += 1
        ctx.branch("defect_corpus")
        if p.returncode != 0:
            ctx.oracle_fail(f"repaired defect is back: {os.path.basename(f)}: {(p.stdout + p.stderr)[-600:]}",
                            {"script": os.path.relpath(f, VERIF), "doc": open(f).read().split('\"\"\"')[1] if '\"\"\"' in open(f).read() else ""})
