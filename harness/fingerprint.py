"""Static tie between the hand-written models and the source text they were written from.

For every property the files named in its `anchors.files` (properties.jsonl) are parsed; every top-level function and every
method is reduced to a hash of its AST (doc-strings and comments do not count). `source_fingerprints.json` (committed, written
by tools/gen_fingerprints.py at the revision the models were validated against) holds the hashes. A unit whose hash differs
from the recorded one is "modelled source that changed since the model was validated": that is NOT a violation (a harmless
rewrite changes it too) — the check reacts by running extra rounds of the differential correspondence with fresh random
streams, and names the changed units in the evidence file and in replay files.
"""
import ast
import hashlib
import json
import os

from . import common

BASELINE = os.path.join(common.VERIF, "source_fingerprints.json")


def _strip_doc(node):
    for n in ast.walk(node):
        body = getattr(n, "body", None)
        if isinstance(body, list) and body and isinstance(body[0], ast.Expr) and isinstance(getattr(body[0], "value", None), ast.Constant) \
                and isinstance(body[0].value.value, str) and isinstance(n, (ast.FunctionDef, ast.AsyncFunctionDef, ast.ClassDef, ast.Module)):
            n.body = body[1:] or [ast.Pass()]
    return node


def units_of(path):
    """{qualified name: hash} for the functions / methods / class bodies of one file"""
    try:
        tree = ast.parse(open(path, encoding="utf-8").read())
    except (OSError, SyntaxError) as e:
        return {"<file>": "unreadable: " + type(e).__name__}
    _strip_doc(tree)
    out = {}

    def h(node):
        return hashlib.sha256(ast.dump(node, include_attributes=False).encode()).hexdigest()[:16]

    def visit(node, prefix):
        rest = []
        for ch in node.body:
            if isinstance(ch, (ast.FunctionDef, ast.AsyncFunctionDef)):
                out[prefix + ch.name] = h(ch)
            elif isinstance(ch, ast.ClassDef):
                visit(ch, prefix + ch.name + ".")
            else:
                rest.append(ch)
        out[prefix + "<body>"] = hashlib.sha256("".join(ast.dump(r, include_attributes=False) for r in rest).encode()).hexdigest()[:16]

    visit(tree, "")
    return out


# properties whose oracle runs over EVERY module family (harness/zoo.py): all module / solver sources are modelled source for them
ALL_MODULE_FILES = ["pymoto/core_objects.py", "pymoto/utils.py", "pymoto/common/dyadcarrier.py", "pymoto/common/domain.py",
                    "pymoto/modules/aggregation.py", "pymoto/modules/assembly.py", "pymoto/modules/complex.py",
                    "pymoto/modules/filter.py", "pymoto/modules/generic.py", "pymoto/modules/linalg.py", "pymoto/modules/scaling.py",
                    "pymoto/solvers/solvers.py", "pymoto/solvers/auto_determine.py", "pymoto/solvers/dense.py",
                    "pymoto/solvers/sparse.py", "pymoto/solvers/iterative.py", "pymoto/solvers/matrix_checks.py"]
EXTRA_FILES = {"C01": ALL_MODULE_FILES, "C03": ALL_MODULE_FILES, "C04": ALL_MODULE_FILES,
               "C07": ["pymoto/solvers/dense.py", "pymoto/solvers/sparse.py", "pymoto/solvers/matrix_checks.py"],
               "C11": ["pymoto/solvers/solvers.py", "pymoto/solvers/auto_determine.py"],
               "C12": ["pymoto/modules/generic.py"], "C19": ["pymoto/core_objects.py", "pymoto/utils.py"],
               "C10": ["pymoto/core_objects.py"], "C17": ["pymoto/core_objects.py"]}


def files_of(prop):
    out = []
    for line in open(os.path.join(common.VERIF, "properties.jsonl")):
        p = json.loads(line)
        if p["id"] == prop:
            out = list(p.get("anchors", {}).get("files", []))
    for f in EXTRA_FILES.get(prop, []):
        if f not in out:
            out.append(f)
    return out


def current(files):
    return {f: units_of(os.path.join(common.REPO, f)) for f in files}


def changed_units(prop):
    """list of 'file::unit' whose source differs from the recorded fingerprint (added / removed units included)"""
    try:
        base = json.load(open(BASELINE))["files"]
    except (OSError, ValueError, KeyError):
        return ["<no baseline: source_fingerprints.json missing>"]
    out = []
    for f, units in current(files_of(prop)).items():
        b = base.get(f, {})
        for u in sorted(set(units) | set(b)):
            if units.get(u) != b.get(u):
                out.append(f"{f}::{u}")
    return out
