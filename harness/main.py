"""./check <Cxx> [--tier quick|thorough] [--replay FILE]

Verdict logic (DESIGN.md §2.4):
  obligations := lake build Props.Cxx && hygiene grep && axiom audit
  agreement   := corpus ∪ generated cases: implementation == model
  if both hold and no direct oracle failure: (KNOWN-FINDING lines) exit 0
  else: search the real code for a failing input; known finding → line, continue;
        unknown witness → VIOLATION with replay; none → VIOLATION … no-failing-input-found
"""
import argparse
import importlib
import json
import os
import sys
import traceback

from . import common, fingerprint
from .common import Ctx, InfraError


EXTRA_ROUNDS = 2   # additional quick-tier correspondence rounds when the modelled source text has changed


def load(prop):
    return importlib.import_module(f"harness.props.{prop.lower()}")


def main(argv=None):
    ap = argparse.ArgumentParser()
    ap.add_argument("prop")
    ap.add_argument("--tier", default=os.environ.get("VERIF_TIER", "quick"), choices=["quick", "thorough"])
    ap.add_argument("--replay", default=None)
    ap.add_argument("--no-lean", action="store_true", help="(development only) skip the Lean obligations")
    a = ap.parse_args(argv)
    prop = a.prop.upper()
    try:
        seed = int(os.environ.get("VERIF_SEED", "0") or 0)
    except ValueError:
        seed = 0
    ctx = Ctx(prop, a.tier, seed)
    try:
        mod = load(prop)
    except ModuleNotFoundError as e:
        print(f"no check for {prop}: {e}")
        return 2

    if a.replay:
        data = json.load(open(a.replay))
        w = (data.get("witness") or {}).get("witness") or {}
        if isinstance(w, dict) and w.get("script"):   # a regression witness of a repaired defect: re-run the script
            import subprocess
            p = subprocess.run([sys.executable, os.path.join(common.VERIF, w["script"])], capture_output=True, text=True)
            r = {"still_failing": p.returncode != 0, "what": (p.stdout + p.stderr)[-600:]}
        else:
            r = mod.replay(ctx, data)
        print(json.dumps(r, indent=1, default=str))
        return 1 if r.get("still_failing") else 0

    try:
        # ---- 1. proof obligations ---------------------------------------------------------
        if a.no_lean:
            lean = {"ok": True, "build_ok": True, "theorems": [], "axioms": {}, "bad_axioms": {}, "hygiene": []}
        else:
            lean = common.lean_obligations(prop, getattr(mod, "EXTRA_LEAN_MODULES", ()), getattr(mod, "EXTRA_THEOREMS", ()))
        extra = {}
        if a.tier == "thorough" and not a.no_lean and lean["build_ok"]:
            lc = common.leanchecker(prop)
            extra["leanchecker"] = lc
            if lc["rc"] != 0:
                lean["ok"] = False
                lean["log"] = lean.get("log", "") + "\nleanchecker: " + lc["out"]
        print(f"[{prop}] lean obligations: build={'ok' if lean['build_ok'] else 'FAILED'} "
              f"theorems={len(lean['theorems'])} hygiene_hits={len(lean['hygiene'])} "
              f"bad_axioms={len(lean['bad_axioms'])} -> {'OK' if lean['ok'] else 'BROKEN'}", flush=True)

        # ---- 2. correspondence (model vs implementation) -----------------------------------
        common.run_defect_corpus(ctx)   # regression witnesses of repaired defects run first
        corr_exc = None
        # modelled source that differs from the text the model was validated against: not a violation, but the model is then
        # tied to the code by the differential run alone -> extra rounds with fresh random streams (harness/fingerprint.py)
        changed = fingerprint.changed_units(prop)
        rounds = 1 + (EXTRA_ROUNDS if changed and a.tier == "quick" else 0)
        if changed:
            print(f"[{prop}] modelled source changed since the model was validated ({len(changed)} unit(s): "
                  f"{', '.join(changed[:4])}{' ...' if len(changed) > 4 else ''}) -> {rounds} correspondence round(s)", flush=True)
        extra["modelled_source"] = {"changed_units": changed[:50], "correspondence_rounds": rounds}
        for rnd in range(rounds):
            if rnd:
                ctx.reseed(rnd)
            try:
                mod.correspondence(ctx)
            except InfraError:
                raise
            except Exception as e:  # an exception escaping from the real code counts as a broken correspondence
                corr_exc = traceback.format_exc()
                ctx.disagreements.append({"stream": "exception", "case": None, "impl": common.errname(e),
                                          "model": None, "detail": corr_exc[-3000:]})
            if ctx.disagreements or ctx.oracle_failures:
                break
        ndis = len(ctx.disagreements)
        print(f"[{prop}] correspondence: evaluations={ctx.evaluations} distinct_nontrivial={len(ctx.distinct)} "
              f"disagreements={ndis} oracle_failures={len(ctx.oracle_failures)} "
              f"boundary_skipped={ctx.skipped_boundary}", flush=True)

        # ---- 3. known findings: replay each open one on the implementation -------------------
        kf = common.known_findings(prop)
        probes = getattr(mod, "FINDING_PROBES", {})
        open_keys = set()
        for f in kf:
            open_keys.add(f["key"])
            probe = probes.get(f["key"])
            still = None
            if probe is not None:
                try:
                    still = probe(ctx)
                except Exception as e:  # noqa
                    still = f"probe raised {type(e).__name__}: {e}"
            if still:
                print(f"KNOWN-FINDING: property={prop} {f['key']}: {f['text']} [{still}]")
            else:
                ctx.notes.append(f"known finding {f['key']} no longer reproduces")

        broken = (not lean["ok"]) or ndis > 0 or len(ctx.oracle_failures) > 0
        violations = 0
        rc = 0
        if broken:
            # ---- 4. search for a concrete failing input on the real code ----------------------
            witnesses = [w for w in ctx.oracle_failures]
            if hasattr(mod, "search"):
                try:
                    more = mod.search(ctx, [d for d in ctx.disagreements if d]) or []
                    witnesses.extend(more)
                except InfraError:
                    raise
                except Exception as e:  # noqa
                    ctx.notes.append("search raised: " + traceback.format_exc()[-1500:])
            fresh = [w for w in witnesses if not (w.get("finding_key") and w["finding_key"] in open_keys)]
            suppressed = len(witnesses) - len(fresh)
            if suppressed:
                ctx.notes.append(f"{suppressed} witness(es) matched open known findings")
            reasons = []
            if not lean["ok"]:
                which = ("build of PymotoVerif.Props.%s" % prop if not lean["build_ok"] else
                         "hygiene/axiom audit of Props.%s" % prop)
                reasons.append({"kind": "proof-obligation", "which": which, "hygiene": lean["hygiene"],
                                "bad_axioms": lean["bad_axioms"], "log": lean.get("log", "")[-3000:]})
            if ndis:
                streams = sorted({d["stream"] for d in ctx.disagreements if d})
                reasons.append({"kind": "correspondence", "streams": streams,
                                "first": [d for d in ctx.disagreements if d][:5]})
            if fresh:
                payload = {"property": prop, "seed": seed, "tier": a.tier, "kind": "failing-input",
                           "witness": fresh[0], "more_witnesses": fresh[1:6], "broken": reasons,
                           "modelled_source_changed": changed[:50]}
                path = common.write_replay(ctx, payload)
                print(f"VIOLATION property={prop} replay={path}")
                violations = len(fresh)
                rc = 1
            elif (not lean["ok"]) or ndis > 0:
                payload = {"property": prop, "seed": seed, "tier": a.tier, "kind": "no-failing-input-found",
                           "no_longer_checks": reasons, "modelled_source_changed": changed[:50]}
                path = common.write_replay(ctx, payload, tag="nf")
                print(f"VIOLATION property={prop} replay={path} no-failing-input-found")
                violations = 1
                rc = 1
            else:
                rc = 0  # only oracle failures, all matched known findings
        asm = getattr(mod, "ASSUMPTIONS", [])
        if hasattr(mod, "RULE"):
            ctx.rule = mod.RULE
        if hasattr(mod, "evidence_extra"):
            extra.update(mod.evidence_extra(ctx))
        common.write_evidence(ctx, lean, violations, extra=extra, assumptions=asm)
        print(f"[{prop}] done in {ctx.elapsed():.1f}s rc={rc}", flush=True)
        return rc
    except InfraError as e:
        print(f"[{prop}] INFRASTRUCTURE FAILURE: {e}", file=sys.stderr)
        return 2


if __name__ == "__main__":
    sys.exit(main())
