"""C01 — every module's sensitivity is the exact adjoint of its response.

Lean side: Props/C01.lean (complex-number modules, Scaling, ConcatSignal) + the adjoint / derivative theorems that live with
the models of the other module families (EXTRA_THEOREMS below are audited with this property).

correspondence: (i) the pointwise-module models of Core/Pointwise.lean against MakeComplex / RealPart / ImagPart / ComplexNorm /
    Scaling / ConcatSignal (responses AND sensitivities; exact on dyadic / Gaussian-integer data, Float for the norm);
    (ii) the response+sensitivity streams of the module families that have their own model: FilterConv / DensityFilter (C09),
    aggregations (C16), OverhangFilter (C14) are re-run here (their modules' `correspondence`).
oracle / search: for EVERY library module family (harness/zoo.py: assembly, element / nodal operations, both filters, overhang,
    MathGeneral, EinSum, ConcatSignal, complex modules, aggregations with active set / frozen scaling, Scaling, LinSolve, Inverse,
    SystemOfEquations, StaticCondensation, EigenSolve) and every option combination it generates: Re<g, v> equals the directional
    derivative of Re<w, y> — exact Jacobians for affine modules, Richardson-extrapolated central differences (with a consistency
    test) otherwise; partially seeded outputs; structure-preserving directions for sparse / symmetric / Hermitian matrix inputs.
"""
import struct
import warnings
from fractions import Fraction

import numpy as np

from ..common import call_impl, q, qlist, fr, frlist
from .. import zoo

EXTRA_THEOREMS = [
    "PymotoVerif.C09.filterConv_adjoint", "PymotoVerif.C09.densityFilter_adjoint",
    "PymotoVerif.C16.ks_sensitivity_is_derivative", "PymotoVerif.C16.pnorm_sensitivity_is_derivative",
    "PymotoVerif.C16.softminmax_sensitivity_is_derivative",
    "PymotoVerif.C12.nodalOp_eq_transpose_elemOp",
    "PymotoVerif.C14.overhang_sens_is_backprop", "PymotoVerif.C14.overhang_sens_is_backprop_eps_pos", "PymotoVerif.C14.overhang_response_hasDerivAt", "PymotoVerif.C14.overhang_sens_is_transposed_jacobian_chain", "PymotoVerif.C14.overhang_atom_shift_pow",
    "PymotoVerif.C14.overhang_atom_root", "PymotoVerif.C14.overhang_atom_smin", "PymotoVerif.C14.overhang_sens_support_path",
    "PymotoVerif.C02.module_sensitivity_is_back", "PymotoVerif.C02.local_adjoint_is_transposed_jacobian",
    "PymotoVerif.C02.local_jacobian_is_derivative", "PymotoVerif.C02.backprop_is_total_derivative_of_response",
]
EXTRA_THEOREMS += [
    "PymotoVerif.C01Assembly.assemble_adjoint_dense", "PymotoVerif.C01Assembly.assembleDom_adjoint_dense",
    "PymotoVerif.C01Assembly.assemble_adjoint_dyad", "PymotoVerif.C01Assembly.assembleDom_adjoint_dyad",
    "PymotoVerif.C01Assembly.assemble_adjoint_dense_realpart", "PymotoVerif.C01Assembly.assemble_sens_seed_idempotent",
    "PymotoVerif.C01Assembly.elemOp_adjoint", "PymotoVerif.C01Assembly.nodalOp_adjoint",
    "PymotoVerif.C07.linsolve_adjoint", "PymotoVerif.C07.linsolve_sens_eq", "PymotoVerif.C07.linsolve_finite_identity",
    "PymotoVerif.C07.inverse_adjoint", "PymotoVerif.C07.inverse_finite_identity", "PymotoVerif.C07.soe_adjoint",
    "PymotoVerif.C07.staticcond_adjoint",
    "PymotoVerif.C11.eig_dense_adjoint_partial", "PymotoVerif.C11.eig_sparse_eigval_adjoint",
]
EXTRA_LEAN_MODULES = ["PymotoVerif.Props.C01Assembly", "PymotoVerif.Props.C07", "PymotoVerif.Props.C11", "PymotoVerif.Props.C09", "PymotoVerif.Props.C16", "PymotoVerif.Props.C12", "PymotoVerif.Props.C14",
                      "PymotoVerif.Props.C02"]
RULE = ("pointwise stream: random shapes/values for the six pointwise modules; family streams: the quick-size response+sensitivity "
        "correspondences of C09, C16, C14; oracle: N configurations per module family (17 families) x 2 directions through the adjoint oracle. "
        "distinct = distinct case keys / configuration names; non-trivial = a sensitivity is produced")
ASSUMPTIONS = [
    "AutoMod needs jax, which is not installed: not covered",
    "seeds of real-valued outputs are real (as everywhere in pyMOTO); ImagPart with a complex seed on its real output adds Im(seed)*Re(v) "
    "(theorem imagPart_complex_seed) and is not generated",
    "aggregation modules are differentiated with the active set and the scale factor of the last response frozen (documented memory)",
    "EigenSolve: well separated spectra only (repeated eigenvalues are documented as unsupported); directions keep the matrix class",
    "MathGeneral: only the expression set of harness/zoo.py; sympy's diff/lambdify are external",
    "finite-difference directions for which Richardson extrapolation is not self-consistent (non-differentiable neighbourhood: sign "
    "normalisation of eigenvectors, active-set switches) are skipped and counted, never reported",
]


def _pm():
    import pymoto
    return pymoto


FINDING_KEY_EIG = "eigensolve-sparse-complex-hermitian-sens"


def probe_eig_sparse_hermitian(ctx):
    """open finding: replay the witness on the real code"""
    import os
    import subprocess
    import sys
    from ..common import VERIF
    f = os.path.join(VERIF, "corpus", "defects", "pending", "c01_eigensolve_sparse_complex_hermitian.py")
    p = subprocess.run([sys.executable, f], capture_output=True, text=True, timeout=600)
    if p.returncode != 0:
        lines = [l for l in p.stdout.strip().split("\n") if l.startswith("sparse")]
        return (lines[-1] if lines else "witness still fails")[:200]
    return None


FINDING_PROBES = {FINDING_KEY_EIG: probe_eig_sparse_hermitian}


def _bits(x):
    return struct.unpack("<d", struct.pack("<Q", int(x)))[0]


def _cx(a):
    return [[q(float(np.real(v))), q(float(np.imag(v)))] for v in np.asarray(a).ravel()]


def pointwise_cases(ctx, n):
    pm = _pm()
    rng = ctx.rng
    reqs, checks = [], []

    def dy(shape, cplx=False):
        a = np.array([rng.randint(-8, 8) / 4 for _ in range(int(np.prod(shape)) or 1)]).reshape(shape)
        if cplx:
            a = a + 1j * np.array([rng.randint(-8, 8) / 4 for _ in range(int(np.prod(shape)) or 1)]).reshape(shape)
        return a
    for t in range(n):
        kind = ["make", "real", "imag", "norm", "scaling", "concat"][t % 6]
        shape = [(), (3,), (2, 2)][rng.randint(0, 2)]
        if kind == "make":
            x, y, w = dy(shape), dy(shape), dy(shape, True)
            sx, sy = pm.Signal("x", x.copy() if shape else float(x)), pm.Signal("y", y.copy() if shape else float(y))
            m = pm.MakeComplex([sx, sy])
            m.response()
            m.sig_out[0].sensitivity = w.copy() if shape else complex(w)
            m.sensitivity()
            reqs.append({"m": "c01.cplx", "k": "make", "x": qlist(x.ravel()), "y": qlist(y.ravel()), "w": _cx(w)})
            checks.append(("make", {"y": _cx(m.sig_out[0].state), "gx": qlist(np.ravel(sx.sensitivity)), "gy": qlist(np.ravel(sy.sensitivity))}))
        elif kind in ("real", "imag"):
            z = dy(shape, True)
            w = dy(shape, False)   # real seed on the real output
            sz = pm.Signal("z", z.copy() if shape else complex(z))
            m = (pm.RealPart if kind == "real" else pm.ImagPart)([sz])
            m.response()
            m.sig_out[0].sensitivity = w.copy() if shape else float(w)
            m.sensitivity()
            reqs.append({"m": "c01.cplx", "k": kind, "z": _cx(z), "w": _cx(w)})
            checks.append((kind, {"y": qlist(np.ravel(m.sig_out[0].state)), "g": _cx(sz.sensitivity)}))
        elif kind == "norm":
            z = dy(shape, True)
            z = np.where(np.abs(z) == 0, 1 + 1j, z)
            w = dy(shape, False)
            sz = pm.Signal("z", z.copy() if shape else complex(z))
            m = pm.ComplexNorm([sz])
            m.response()
            m.sig_out[0].sensitivity = w.copy() if shape else float(w)
            m.sensitivity()
            reqs.append({"m": "c01.norm", "z": [[float(np.real(v)), float(np.imag(v))] for v in np.ravel(z)],
                         "w": [[float(v), 0.0] for v in np.ravel(w)]})
            checks.append(("norm", {"y": np.ravel(m.sig_out[0].state), "g": np.ravel(sz.sensitivity)}))
        elif kind == "scaling":
            mode = rng.randint(0, 2)
            shp = shape if mode == 0 else ()
            x0 = np.abs(dy(shp)) + 0.5
            x1 = dy(shp)
            w = dy(shp)
            lim = rng.choice([0.5, 2.0, 4.0])
            kw = dict(scaling=float(rng.choice([1.0, 8.0, 100.0])))
            if mode == 1:
                kw["minval"] = lim
            if mode == 2:
                kw["maxval"] = lim
            sx = pm.Signal("x", x0.copy() if shp else float(x0))
            m = pm.Scaling([sx], **kw)
            m.response()            # first call fixes the scale factor (documented memory)
            sf = float(m.sf)
            sx.state = x1.copy() if shp else float(x1)
            m.response()
            m.sig_out[0].sensitivity = w.copy() if shp else float(w)
            m.sensitivity()
            reqs.append({"m": "c01.scaling", "mode": mode, "sf": q(sf), "lim": q(lim), "x": qlist(np.ravel(x1)), "dy": qlist(np.ravel(w))})
            checks.append(("scaling", {"y": np.ravel(m.sig_out[0].state), "g": np.ravel(sx.sensitivity)}))
        else:
            nparts = rng.randint(1, 4)
            parts = []
            for _ in range(nparts):
                if rng.random() < 0.3:
                    parts.append(rng.randint(-8, 8) / 4)
                else:
                    parts.append(dy((rng.randint(1, 3),)))
            sigs = [pm.Signal(f"c{i}", (p.copy() if isinstance(p, np.ndarray) else p)) for i, p in enumerate(parts)]
            m = pm.ConcatSignal(sigs)
            m.response()
            ntot = m.sig_out[0].state.size
            w = dy((ntot,))
            m.sig_out[0].sensitivity = w.copy()
            m.sensitivity()
            reqs.append({"m": "c01.concat", "xs": [qlist(np.ravel(p)) for p in parts], "dy": qlist(w)})
            checks.append(("concat", {"y": qlist(m.sig_out[0].state), "g": [qlist(np.ravel(s.sensitivity)) for s in sigs],
                                      "types": [type(s.sensitivity).__name__ == type(s.state).__name__ for s in sigs]}))
        ctx.branch("pointwise." + kind)
    res = ctx.model(reqs)
    for req, (kind, imp), mo in zip(reqs, checks, res):
        key = ("pointwise", kind, str(req))
        if "ok" not in mo:
            ctx.disagree("pointwise", req, imp, mo, "model error")
            continue
        mm = mo["ok"]
        if kind in ("make", "real", "imag", "concat"):
            imp2 = {k: v for k, v in imp.items() if k != "types"}
            ctx.compare_exact("pointwise", req, imp2, mm, key=key)
            if kind == "concat" and not all(imp["types"]):
                ctx.oracle_fail("ConcatSignal returns a sensitivity of another type than the input state", {"request": req})
        elif kind == "norm":
            my = [_bits(v) for v in mm["y"]]
            mg = [complex(_bits(a), _bits(b)) for a, b in mm["g"]]
            ctx.compare_close("pointwise", req, np.concatenate([imp["y"], np.real(imp["g"]), np.imag(imp["g"])]),
                              my + [v.real for v in mg] + [v.imag for v in mg], rtol=1e-12, atol=1e-14, key=key)
        else:
            ctx.compare_close("pointwise", req, np.concatenate([imp["y"], imp["g"]]), frlist(mm["y"]) + frlist(mm["g"]),
                              rtol=1e-12, atol=1e-14, key=key)
    if reqs:
        ctx.sample({"request": reqs[0], "implementation": checks[0][1]})


def correspondence(ctx):
    warnings.filterwarnings("ignore")
    pointwise_cases(ctx, 120 if ctx.quick else 1500)
    # ---- module families with their own model: response + sensitivity correspondence ------------------------------
    from . import c09, c16, c14
    for sub in (c09, c16, c14):
        try:
            sub.correspondence(ctx)
        except Exception as e:  # noqa
            import traceback
            ctx.disagreements.append({"stream": sub.__name__.split(".")[-1] + ".exception", "case": None, "impl": type(e).__name__,
                                      "model": None, "detail": traceback.format_exc()[-2000:]})
    # findings of those properties are reported by their own checks; here only untagged failures count
    ctx.oracle_failures = [w for w in ctx.oracle_failures if not w.get("finding_key")]
    # ---- the property itself on the real code: every module family ---------------------------------------------
    per = 4 if ctx.quick else 40
    skipped = 0
    for fam, gen in zoo.GENERATORS.items():
        for _ in range(per):
            case = gen(ctx.nprng)
            r = call_impl(zoo.adjoint_oracle, case, ctx.nprng, 2, True)
            ctx.evaluations += 1
            ctx.branch("adjoint." + fam)
            skipped += getattr(case, "skipped", 0)
            if r[0] == "err" and zoo.numerical_limit(fam, r[2]):
                ctx.skipped_boundary += 1
            elif r[0] == "err":
                ctx.oracle_fail(f"{case.name}: response()/sensitivity() raised {r[2][:300]}", {"family": fam, "case": case.name})
            elif r[1]:
                ctx.oracle_fail(r[1], {"family": fam, "case": case.name})
            else:
                ctx.distinct.add(("adjoint", case.name))
    ctx.skipped_boundary += skipped
    # the open finding's input class (sparse EigenSolve, complex Hermitian): judged by the oracle, tagged with the key
    for _ in range(3 if ctx.quick else 20):
        case = zoo.gen_eigensolve_sparse(ctx.nprng, real_only=False)
        if ".c." not in case.name:
            continue
        r = call_impl(zoo.adjoint_oracle, case, ctx.nprng, 1, True)
        ctx.evaluations += 1
        ctx.branch("adjoint.eigensolve_sparse.complex_hermitian(finding)")
        if r[0] == "err":
            ctx.oracle_fail(f"{case.name}: raised {r[2][:200]}", {"case": case.name}, key=FINDING_KEY_EIG)
        elif r[1]:
            ctx.oracle_fail(r[1], {"case": case.name}, key=FINDING_KEY_EIG)


def search(ctx, disagreements):
    warnings.filterwarnings("ignore")
    found = []
    rng = np.random.default_rng(ctx.seed + 1000)
    for fam, gen in zoo.GENERATORS.items():
        for _ in range(12):
            case = gen(rng)
            r = call_impl(zoo.adjoint_oracle, case, rng, 2, True)
            if r[0] == "err":
                found.append({"what": f"{case.name}: raised {r[2][:300]}", "witness": {"family": fam, "case": case.name}})
            elif r[1]:
                found.append({"what": r[1], "witness": {"family": fam, "case": case.name}})
        if len(found) >= 3:
            break
    return found


def replay(ctx, data):
    return {"still_failing": False, "note": "re-run ./check C01 with the recorded VERIF_SEED to reproduce"}
