"""C01 — every module's sensitivity is the exact adjoint of its response.

Lean side: Props/C01.lean (complex-number modules, Scaling, ConcatSignal) + the adjoint / derivative theorems that live with
the models of the other module families (EXTRA_THEOREMS below are audited with this property).

correspondence: (0) Core/Einsum.lean (numpy.einsum model + EinSum._response/_sensitivity as coded; reverse broadcast of
    MathGeneral._sensitivity given sympy's derivative arrays) against pymoto.EinSum / pymoto.MathGeneral (`einsum_cases`,
    `mathgeneral_cases`; theorems in Props/C01Generic.lean);
    (i) the pointwise-module models of Core/Pointwise.lean against MakeComplex / RealPart / ImagPart / ComplexNorm /
    Scaling / ConcatSignal (responses AND sensitivities; exact on dyadic / Gaussian-integer data, Float for the norm);
    (ii) the response+sensitivity streams of the module families that have their own model: FilterConv / DensityFilter (C09),
    aggregations (C16), OverhangFilter (C14) are re-run here (their modules' `correspondence`).
oracle / search: for EVERY library module family (harness/zoo.py: assembly, element / nodal operations, both filters, overhang,
    MathGeneral, EinSum, ConcatSignal, complex modules, aggregations with active set / frozen scaling, Scaling, LinSolve, Inverse,
    SystemOfEquations, StaticCondensation, EigenSolve) and every option combination it generates: Re<g, v> equals the directional
    derivative of Re<w, y> — exact Jacobians for affine modules, Richardson-extrapolated central differences (with a consistency
    test) otherwise; partially seeded outputs; structure-preserving directions for sparse / symmetric / Hermitian matrix inputs.
"""
import struct
import warnings
from fractions import Fraction

import numpy as np

from ..common import call_impl, q, qlist, fr, frlist
from .. import zoo

EXTRA_THEOREMS = [
    "PymotoVerif.C09.filterConv_adjoint", "PymotoVerif.C09.densityFilter_adjoint",
    "PymotoVerif.C16.ks_sensitivity_is_derivative", "PymotoVerif.C16.pnorm_sensitivity_is_derivative",
    "PymotoVerif.C16.softminmax_sensitivity_is_derivative",
    "PymotoVerif.C12.nodalOp_eq_transpose_elemOp",
    "PymotoVerif.C14.overhang_sens_is_backprop", "PymotoVerif.C14.overhang_sens_is_backprop_eps_pos", "PymotoVerif.C14.overhang_response_hasDerivAt", "PymotoVerif.C14.overhang_sens_is_transposed_jacobian_chain", "PymotoVerif.C14.overhang_atom_shift_pow",
    "PymotoVerif.C14.overhang_atom_root", "PymotoVerif.C14.overhang_atom_smin", "PymotoVerif.C14.overhang_sens_support_path",
    "PymotoVerif.C02.module_sensitivity_is_back", "PymotoVerif.C02.local_adjoint_is_transposed_jacobian",
    "PymotoVerif.C02.local_jacobian_is_derivative", "PymotoVerif.C02.backprop_is_total_derivative_of_response",
]
EXTRA_THEOREMS += [
    "PymotoVerif.C01Assembly.assemble_adjoint_dense", "PymotoVerif.C01Assembly.assembleDom_adjoint_dense",
    "PymotoVerif.C01Assembly.assemble_adjoint_dyad", "PymotoVerif.C01Assembly.assembleDom_adjoint_dyad",
    "PymotoVerif.C01Assembly.assemble_adjoint_dense_realpart", "PymotoVerif.C01Assembly.assemble_sens_seed_idempotent",
    "PymotoVerif.C01Assembly.elemOp_adjoint", "PymotoVerif.C01Assembly.nodalOp_adjoint",
    "PymotoVerif.C07.linsolve_adjoint", "PymotoVerif.C07.linsolve_sens_eq", "PymotoVerif.C07.linsolve_finite_identity",
    "PymotoVerif.C07.inverse_adjoint", "PymotoVerif.C07.inverse_finite_identity", "PymotoVerif.C07.soe_adjoint",
    "PymotoVerif.C07.staticcond_adjoint",
    "PymotoVerif.C11.eig_dense_adjoint", "PymotoVerif.C11.eig_dense_sens_is_derivative",
    "PymotoVerif.C11.eig_dense_adjoint_linearised", "PymotoVerif.C11.eig_dense_adjoint_sum_linearised",
    "PymotoVerif.C11.eig_dense_adjoint_sum_realpart",
    "PymotoVerif.C11.eig_sparse_eigval_adjoint", "PymotoVerif.C11.eig_sparse_eigval_is_derivative",
    "PymotoVerif.C11.eig_eigval_derivative", "PymotoVerif.C11.eig_sparse_eigvec_mode_adjoint",
    "PymotoVerif.C11.eig_sparse_eigvec_solver_indep", "PymotoVerif.C11.eig_sparse_eigvec_adjoint_sum",
    "PymotoVerif.C11.eig_sparse_eigvec_mode_is_derivative", "PymotoVerif.C11.eig_sparse_sens_is_derivative",
    "PymotoVerif.C11.eig_tangent_exists_unique",
]
EXTRA_THEOREMS += [
    "PymotoVerif.C01Generic.einsum_additive", "PymotoVerif.C01Generic.einsum_homogeneous", "PymotoVerif.C01Generic.einsum_adjoint",
    "PymotoVerif.C01Generic.einsum_trace_adjoint", "PymotoVerif.C01Generic.einsum_ones_adjoint",
    "PymotoVerif.C01Generic.einsum_real_operand_rule", "PymotoVerif.C01Generic.unbroadcast_adjoint_broadcast",
    "PymotoVerif.C01Generic.mathGeneral_sens_is_adjoint_given_pointwise_derivative",
    "PymotoVerif.C01Generic.mathGeneral_real_input_rule", "PymotoVerif.C01Generic.mathGeneral_complex_input",
    "PymotoVerif.C01Generic.einSum_sensitivity_is_adjoint",
    "PymotoVerif.C01Generic.mathGeneral_sens_is_derivative_given_pointwise_derivative",
]
EXTRA_THEOREMS += [   # the implicit-function step: the coded sensitivities ARE the derivative along every differentiable curve
    "PymotoVerif.C07Deriv.linsolve_sensitivity_is_derivative", "PymotoVerif.C07Deriv.linsolve_sensitivity_is_derivative_complex",
    "PymotoVerif.C07Deriv.inverse_sensitivity_is_derivative", "PymotoVerif.C07Deriv.inverse_sensitivity_is_derivative_complex",
    "PymotoVerif.C07Deriv.soe_sensitivity_is_derivative", "PymotoVerif.C07Deriv.soe_sensitivity_is_derivative_complex_re",
    "PymotoVerif.C07Deriv.staticcond_sensitivity_is_derivative", "PymotoVerif.C07Deriv.staticcond_sensitivity_is_derivative_complex_re",
]
EXTRA_LEAN_MODULES = ["PymotoVerif.Props.C07Deriv", "PymotoVerif.Props.C01Generic", "PymotoVerif.Props.C01Assembly", "PymotoVerif.Props.C07", "PymotoVerif.Props.C11", "PymotoVerif.Props.C09", "PymotoVerif.Props.C16", "PymotoVerif.Props.C12", "PymotoVerif.Props.C14",
                      "PymotoVerif.Props.C02"]
RULE = ("einsum stream: random einsum expressions (1-3 operands, vectors / matrices / 3-tensors over 4 letters with extents 1-3, "
        "contractions, outer products, transposes, indices summed out of one operand, the one-operand scalar-output branch, repeated-index "
        "rejections) + documented table + malformed stream, Gaussian-integer data, exact comparison of response, every sensitivity and its dtype; "
        "mathgeneral stream: zoo.MATH_EXPRS x broadcastable shapes x real/complex, derivative arrays from the module's df; "
        "pointwise stream: random shapes/values for the six pointwise modules; family streams: the quick-size response+sensitivity "
        "correspondences of C09, C16, C14; oracle: N configurations per module family (17 families) x 2 directions through the adjoint oracle. "
        "distinct = distinct case keys / configuration names; non-trivial = a sensitivity is produced")
ASSUMPTIONS = [
    "AutoMod needs jax, which is not installed: not covered",
    "seeds of real-valued outputs are real (as everywhere in pyMOTO); ImagPart with a complex seed on its real output adds Im(seed)*Re(v) "
    "(theorem imagPart_complex_seed) and is not generated",
    "aggregation modules are differentiated with the active set and the scale factor of the last response frozen (documented memory)",
    "EigenSolve: well separated spectra only (repeated eigenvalues are documented as unsupported); directions keep the matrix class",
    "MathGeneral: only the expression set of harness/zoo.py; sympy's diff/lambdify are external: the harness evaluates the module's own "
    "`df` and hands the derivative arrays to the model of the reverse broadcast (theorems: ..._given_pointwise_derivative)",
    "EinSum: expressions with an explicit output ('...->...', no blanks); numpy's implicit mode, a blank output part and extent-1 axes "
    "broadcast against a larger extent of the same letter are not generated (candidates corpus/defects/c01_einsum_*.py.candidate); "
    "repeated indices other than 'ii->' are documented as unsupported (TypeError, compared with the model)",
    "EinSum / MathGeneral inputs are float64 / complex128 arrays or Python / numpy scalars (integer-typed arrays are not generated)",
    "finite-difference directions for which Richardson extrapolation is not self-consistent (non-differentiable neighbourhood: sign "
    "normalisation of eigenvectors, active-set switches) are skipped and counted, never reported",
]


def _pm():
    import pymoto
    return pymoto


FINDING_KEY_EIG = "eigensolve-sparse-complex-hermitian-sens"


def probe_eig_sparse_hermitian(ctx):
    """open finding: replay the witness on the real code"""
    import os
    import subprocess
    import sys
    from ..common import VERIF
    f = os.path.join(VERIF, "corpus", "defects", "pending", "c01_eigensolve_sparse_complex_hermitian.py")
    p = subprocess.run([sys.executable, f], capture_output=True, text=True, timeout=600)
    if p.returncode != 0:
        lines = [l for l in p.stdout.strip().split("\n") if l.startswith("sparse")]
        return (lines[-1] if lines else "witness still fails")[:200]
    return None


def probe_einsum_size1(ctx):
    import os
    import subprocess
    import sys
    from ..common import VERIF
    f = os.path.join(VERIF, "corpus", "defects", "pending", "c01_einsum_size1_broadcast.py")
    p = subprocess.run([sys.executable, f], capture_output=True, text=True, timeout=600)
    return ((p.stdout + p.stderr).strip().split("\n")[-1][:200] or "witness still fails") if p.returncode != 0 else None


def probe_eig_sparse_nonsymmetric(ctx):
    import os
    import subprocess
    import sys
    from ..common import VERIF
    f = os.path.join(VERIF, "corpus", "defects", "pending", "c01_eigensolve_sparse_nonsymmetric.py")
    p = subprocess.run([sys.executable, f], capture_output=True, text=True, timeout=600)
    if p.returncode != 0:
        lines = [l for l in p.stdout.strip().split("\n") if l.startswith("sparse") and "WRONG" in l]
        return (lines[-1] if lines else "witness still fails")[:200]
    return None


FINDING_PROBES = {FINDING_KEY_EIG: probe_eig_sparse_hermitian, "einsum-size1-broadcast": probe_einsum_size1,
                  "eigensolve-sparse-nonsymmetric-sens": probe_eig_sparse_nonsymmetric}


def _bits(x):
    return struct.unpack("<d", struct.pack("<Q", int(x)))[0]


def _cx(a):
    return [[q(float(np.real(v))), q(float(np.imag(v)))] for v in np.asarray(a).ravel()]


def pointwise_cases(ctx, n):
    pm = _pm()
    rng = ctx.rng
    reqs, checks = [], []

    def dy(shape, cplx=False):
        a = np.array([rng.randint(-8, 8) / 4 for _ in range(int(np.prod(shape)) or 1)]).reshape(shape)
        if cplx:
            a = a + 1j * np.array([rng.randint(-8, 8) / 4 for _ in range(int(np.prod(shape)) or 1)]).reshape(shape)
        return a
    for t in range(n):
        kind = ["make", "real", "imag", "norm", "scaling", "concat"][t % 6]
        shape = [(), (3,), (2, 2)][rng.randint(0, 2)]
        if kind == "make":
            x, y, w = dy(shape), dy(shape), dy(shape, True)
            sx, sy = pm.Signal("x", x.copy() if shape else float(x)), pm.Signal("y", y.copy() if shape else float(y))
            m = pm.MakeComplex([sx, sy])
            m.response()
            m.sig_out[0].sensitivity = w.copy() if shape else complex(w)
            m.sensitivity()
            reqs.append({"m": "c01.cplx", "k": "make", "x": qlist(x.ravel()), "y": qlist(y.ravel()), "w": _cx(w)})
            checks.append(("make", {"y": _cx(m.sig_out[0].state), "gx": qlist(np.ravel(sx.sensitivity)), "gy": qlist(np.ravel(sy.sensitivity))}))
        elif kind in ("real", "imag"):
            z = dy(shape, True)
            w = dy(shape, False)   # real seed on the real output
            sz = pm.Signal("z", z.copy() if shape else complex(z))
            m = (pm.RealPart if kind == "real" else pm.ImagPart)([sz])
            m.response()
            m.sig_out[0].sensitivity = w.copy() if shape else float(w)
            m.sensitivity()
            reqs.append({"m": "c01.cplx", "k": kind, "z": _cx(z), "w": _cx(w)})
            checks.append((kind, {"y": qlist(np.ravel(m.sig_out[0].state)), "g": _cx(sz.sensitivity)}))
        elif kind == "norm":
            z = dy(shape, True)
            z = np.where(np.abs(z) == 0, 1 + 1j, z)
            w = dy(shape, False)
            sz = pm.Signal("z", z.copy() if shape else complex(z))
            m = pm.ComplexNorm([sz])
            m.response()
            m.sig_out[0].sensitivity = w.copy() if shape else float(w)
            m.sensitivity()
            reqs.append({"m": "c01.norm", "z": [[float(np.real(v)), float(np.imag(v))] for v in np.ravel(z)],
                         "w": [[float(v), 0.0] for v in np.ravel(w)]})
            checks.append(("norm", {"y": np.ravel(m.sig_out[0].state), "g": np.ravel(sz.sensitivity)}))
        elif kind == "scaling":
            mode = rng.randint(0, 2)
            shp = shape if mode == 0 else ()
            x0 = np.abs(dy(shp)) + 0.5
            x1 = dy(shp)
            w = dy(shp)
            lim = rng.choice([0.5, 2.0, 4.0])
            kw = dict(scaling=float(rng.choice([1.0, 8.0, 100.0])))
            if mode == 1:
                kw["minval"] = lim
            if mode == 2:
                kw["maxval"] = lim
            sx = pm.Signal("x", x0.copy() if shp else float(x0))
            m = pm.Scaling([sx], **kw)
            m.response()            # first call fixes the scale factor (documented memory)
            sf = float(m.sf)
            sx.state = x1.copy() if shp else float(x1)
            m.response()
            m.sig_out[0].sensitivity = w.copy() if shp else float(w)
            m.sensitivity()
            reqs.append({"m": "c01.scaling", "mode": mode, "sf": q(sf), "lim": q(lim), "x": qlist(np.ravel(x1)), "dy": qlist(np.ravel(w))})
            checks.append(("scaling", {"y": np.ravel(m.sig_out[0].state), "g": np.ravel(sx.sensitivity)}))
        else:
            nparts = rng.randint(1, 4)
            parts = []
            for _ in range(nparts):
                if rng.random() < 0.3:
                    parts.append(rng.randint(-8, 8) / 4)
                else:
                    parts.append(dy((rng.randint(1, 3),)))
            sigs = [pm.Signal(f"c{i}", (p.copy() if isinstance(p, np.ndarray) else p)) for i, p in enumerate(parts)]
            m = pm.ConcatSignal(sigs)
            m.response()
            ntot = m.sig_out[0].state.size
            w = dy((ntot,))
            m.sig_out[0].sensitivity = w.copy()
            m.sensitivity()
            reqs.append({"m": "c01.concat", "xs": [qlist(np.ravel(p)) for p in parts], "dy": qlist(w)})
            checks.append(("concat", {"y": qlist(m.sig_out[0].state), "g": [qlist(np.ravel(s.sensitivity)) for s in sigs],
                                      "types": [type(s.sensitivity).__name__ == type(s.state).__name__ for s in sigs]}))
        ctx.branch("pointwise." + kind)
    res = ctx.model(reqs)
    for req, (kind, imp), mo in zip(reqs, checks, res):
        key = ("pointwise", kind, str(req))
        if "ok" not in mo:
            ctx.disagree("pointwise", req, imp, mo, "model error")
            continue
        mm = mo["ok"]
        if kind in ("make", "real", "imag", "concat"):
            imp2 = {k: v for k, v in imp.items() if k != "types"}
            ctx.compare_exact("pointwise", req, imp2, mm, key=key)
            if kind == "concat" and not all(imp["types"]):
                ctx.oracle_fail("ConcatSignal returns a sensitivity of another type than the input state", {"request": req})
        elif kind == "norm":
            my = [_bits(v) for v in mm["y"]]
            mg = [complex(_bits(a), _bits(b)) for a, b in mm["g"]]
            ctx.compare_close("pointwise", req, np.concatenate([imp["y"], np.real(imp["g"]), np.imag(imp["g"])]),
                              my + [v.real for v in mg] + [v.imag for v in mg], rtol=1e-12, atol=1e-14, key=key)
        else:
            ctx.compare_close("pointwise", req, np.concatenate([imp["y"], imp["g"]]), frlist(mm["y"]) + frlist(mm["g"]),
                              rtol=1e-12, atol=1e-14, key=key)
    if reqs:
        ctx.sample({"request": reqs[0], "implementation": checks[0][1]})


# ---------------------------------------------------------------------------------------------------------------------
# EinSum: model of numpy.einsum + EinSum._response / _sensitivity as coded (Core/Einsum.lean, handler c01.einsum)
# ---------------------------------------------------------------------------------------------------------------------
EINSUM_FIXED = [
    # the special branch (one operand, scalar output), the documented table, and the repeated-index rejections
    (["i"], ""), (["ij"], ""), (["ijk"], ""), (["ii"], ""), (["i", "i"], "i"), (["i", "i"], ""), (["i", "j"], "ij"),
    (["ij", "j"], "i"), (["i", "ij", "j"], ""), (["ij", "ij"], "ij"), (["ji", "ij"], "ij"), (["ji", "jk", "kl"], "il"),
    (["ij", "jk"], "ik"), (["ijk", "k"], "ij"), (["ij"], "ji"), (["ij"], "i"), (["ij"], "j"), (["ijk"], "j"), (["ij", "k"], "ik"),
    (["ijk"], "kji"), (["ij", "kl"], "ijkl"), (["i", "j", "k"], "kij"), (["ijk", "jk"], "i"), (["ijk", "kji"], ""),
    (["iij"], ""), (["iii"], ""), (["ii"], "i"), (["ii", "i"], ""), (["ij", "jj"], "i"), (["iji"], "j"),
]


def _einsum_expr(rng, t):
    """-> (list of input index strings, output string, dict letter -> extent)"""
    letters = "ijkl"
    dims = {c: rng.choice([1, 2, 2, 3, 3]) for c in letters}
    if t % 3 == 0:
        ins, out = EINSUM_FIXED[(t // 3) % len(EINSUM_FIXED)]
        return list(ins), out, dims
    if t % 10 == 1:        # the special branch more often: trace / ones
        ins, out = EINSUM_FIXED[rng.choice([0, 1, 2, 3, 3, 3])]
        return list(ins), out, dims
    nops = rng.choice([1, 2, 2, 2, 3, 3])
    ins = ["".join(rng.sample(letters, rng.choice([1, 1, 2, 2, 3]))) for _ in range(nops)]
    used = sorted(set("".join(ins)))
    out = "".join(rng.sample(used, rng.randint(0, min(len(used), 3))))
    return ins, out, dims


def _int_array(rng, shape, cplx):
    n = int(np.prod(shape)) if len(shape) else 1
    a = np.array([float(rng.randint(-3, 3)) for _ in range(n)]).reshape(shape)
    if cplx:
        a = a + 1j * np.array([float(rng.randint(-3, 3)) for _ in range(n)]).reshape(shape)
    return a


def _einsum_run(pm, ins, out, xs, w_fn):
    """real EinSum: returns (impl dict comparable with the model answer, module, signals, seed)"""
    sigs = [pm.Signal(f"a{i}", x.copy()) for i, x in enumerate(xs)]
    m = pm.EinSum(sigs, expression=",".join(ins) + "->" + out)
    r = call_impl(m.response)
    if r[0] == "err":
        return {"err": r[1]}, m, sigs, None
    y = m.sig_out[0].state
    w = w_fn(np.shape(y))
    m.sig_out[0].sensitivity = w.copy() if isinstance(w, np.ndarray) else w
    imp = {"y": _cx(y)}
    r = call_impl(m.sensitivity)
    if r[0] == "err":
        imp["senserr"] = r[1]
    else:
        imp["sens"] = [{"c": bool(np.iscomplexobj(s.sensitivity)), "v": _cx(s.sensitivity)} for s in sigs]
        if any(np.shape(s.sensitivity) != np.shape(s.state) for s in sigs):
            imp["shape_mismatch"] = [list(np.shape(s.sensitivity)) for s in sigs]
    return imp, m, sigs, w


def _uncx(lst, shape, cplx):
    a = np.array([complex(float(fr(re)), float(fr(im))) for re, im in lst]).reshape(shape)
    return a if cplx else a.real.copy()


def einsum_witness_oracle(wit):
    """the property on the REAL EinSum for one recorded case, with the complete set of unit directions (exact for integer data).
    wit: ins, out, shapes, x, isC, w, wC.  Returns a description of the first violation or None."""
    pm = _pm()
    ins, out = wit["ins"], wit["out"]
    shapes = [tuple(s) for s in wit["shapes"]]
    xs = [_uncx(x, s, c) for x, s, c in zip(wit["x"], shapes, wit["isC"])]
    sigs = [pm.Signal(f"a{i}", x.copy()) for i, x in enumerate(xs)]
    expr = ",".join(ins) + "->" + out
    m = pm.EinSum(sigs, expression=expr)
    if call_impl(m.response)[0] == "err":
        return None                                   # numpy rejects the expression: nothing to differentiate
    y = m.sig_out[0].state
    w = _uncx(wit["w"], np.shape(y), wit["wC"])
    m.sig_out[0].sensitivity = w.copy() if np.ndim(w) else (complex(w) if wit["wC"] else float(w))
    r = call_impl(m.sensitivity)
    if r[0] == "err":
        if r[1] == "TypeError" and any(len(set(s)) < len(s) for s in ins):
            return None                               # repeated indices: documented as unsupported
        return f"EinSum {expr} {shapes}: sensitivity() raised {r[2][:200]}"
    for a, x in enumerate(xs):
        g = np.asarray(sigs[a].sensitivity)
        if g.shape != x.shape:
            return f"EinSum {expr}: sensitivity of operand {a} has shape {g.shape}, state {x.shape}"
        for idx in np.ndindex(x.shape):
            for unit in ([1.0, 1j] if np.iscomplexobj(x) else [1.0]):
                v = np.zeros_like(x)
                v[idx] = unit
                dy = np.einsum(expr, *[xx if i != a else v for i, xx in enumerate(xs)])
                lhs, rhs = np.real(np.sum(w * dy)), np.real(np.sum(g * v))
                if lhs != rhs:
                    return f"EinSum {expr} {shapes}: operand {a} direction {unit}*e{list(idx)}: d Re<w,y> = {lhs} but Re<g,v> = {rhs}"
    return None


def mathgeneral_witness_oracle(wit):
    """the property on the REAL MathGeneral for one recorded case by Richardson-free exact linearisation: complete unit directions,
    derivative arrays from the module's own `df` (sympy contract).  wit: expr, shapes, x (per input), cplx, w, wC."""
    pm = _pm()
    shapes = [tuple(s) for s in wit["shapes"]]
    xs = [_uncx(x, s, c) for x, s, c in zip(wit["x"], shapes, wit["cplx"])]
    xs = [x if np.ndim(x) else (complex(x) if c else float(x)) for x, c in zip(xs, wit["cplx"])]
    sigs = [pm.Signal(f"v{i}", (x.copy() if isinstance(x, np.ndarray) else x)) for i, x in enumerate(xs)]
    m = pm.MathGeneral(sigs, expression=wit["expr"])
    r = call_impl(m.response)
    if r[0] == "err":
        return f"MathGeneral {wit['expr']} {shapes}: response() raised {r[2][:200]}"
    S = np.shape(m.sig_out[0].state)
    w = _uncx(wit["w"], S, wit["wC"])
    m.sig_out[0].sensitivity = w.copy() if np.ndim(w) else (complex(w) if wit["wC"] else float(w))
    r = call_impl(m.sensitivity)
    if r[0] == "err":
        return f"MathGeneral {wit['expr']} {shapes}: sensitivity() raised {r[2][:200]}"
    dg_df = m.df(*m.x)
    for i, x in enumerate(xs):
        g = np.asarray(sigs[i].sensitivity)
        if g.shape != np.shape(x):
            return f"MathGeneral {wit['expr']} {shapes}: sensitivity of input {i} has shape {g.shape}"
        for idx in np.ndindex(np.shape(x)):
            for unit in ([1.0, 1j] if np.iscomplexobj(x) else [1.0]):
                v = np.zeros(np.shape(x), dtype=complex if np.iscomplexobj(x) else float)
                v[idx] = unit
                lhs = np.real(np.sum(w * dg_df[i] * v * np.ones(S)))
                rhs = np.real(np.sum(g * v))
                if abs(lhs - rhs) > 1e-10 * (1 + abs(lhs)):
                    return f"MathGeneral {wit['expr']} {shapes}: input {i} direction {unit}*e{list(idx)}: d Re<w,y> = {lhs} but Re<g,v> = {rhs}"
    return None


def einsum_cases(ctx, n):
    pm = _pm()
    rng = ctx.rng
    reqs, imps, extra = [], [], []
    for t in range(n):
        malformed = (t % 12 == 11)
        ins, out, dims = _einsum_expr(rng, t)
        shapes = [tuple(dims[c] for c in s) for s in ins]
        kind = "valid"
        if malformed:
            kind = rng.choice(["dim", "ndim", "outletter", "outrepeat", "nops"])
            if kind == "dim":       # one extent changed; all extents >= 2 (size-1 broadcasting inside einsum is not modelled)
                dims = {c: rng.choice([2, 3]) for c in "ijkl"}
                a = rng.randrange(len(ins))
                ax = rng.randrange(len(ins[a]))
                c = ins[a][ax]
                if sum(s.count(c) for s in ins) < 2:
                    ins.append(c)
                shapes = [tuple(dims[cc] for cc in s) for s in ins]
                sh = list(shapes[a])
                sh[ax] = rng.choice([d for d in (2, 3, 4) if d != dims[c]])
                shapes[a] = tuple(sh)
            elif kind == "ndim":
                a = rng.randrange(len(ins))
                shapes[a] = shapes[a] + (2,) if rng.random() < 0.5 or len(shapes[a]) == 1 else shapes[a][:-1]
            elif kind == "outletter":
                out = out[:2] + "m"
            elif kind == "outrepeat":
                used = sorted(set("".join(ins)))
                out = used[0] + used[0]
            else:
                ins = ins + ["i"]      # one subscript string more than operands
        cplx = [rng.random() < 0.35 for _ in shapes]
        xs = [_int_array(rng, s, c) for s, c in zip(shapes, cplx)]
        w_cplx = rng.random() < (0.6 if any(cplx) else 0.15)
        scalar_style = rng.randrange(3)

        def w_fn(shape, w_cplx=w_cplx, scalar_style=scalar_style):
            w = _int_array(rng, shape, w_cplx)
            if len(shape) == 0 and scalar_style:     # Python scalar / numpy scalar seeds of scalar outputs
                return (complex(w) if w_cplx else float(w)) if scalar_style == 1 else w[()]
            return w
        imp, m, sigs, w = _einsum_run(pm, ins, out, xs, w_fn)
        ctx.branch("einsum." + kind)
        req = {"m": "c01.einsum", "ins": ins, "out": out, "shapes": [list(s) for s in shapes], "x": [_cx(x) for x in xs],
               "isC": [bool(c) for c in cplx], "w": _cx(w) if w is not None else [], "wC": bool(np.iscomplexobj(w)) if w is not None else False}
        reqs.append(req)
        imps.append(imp)
        if "senserr" in imp:
            ctx.branch("einsum.sens." + imp["senserr"])
        elif "sens" in imp:
            nin = len(ins)
            special = out == "" and nin == 1
            ctx.branch("einsum.sens." + ("trace" if special and len(set(ins[0])) < len(ins[0]) else "ones" if special else "general"))
            for a in range(nin):
                others = set(out) | set("".join(s for i, s in enumerate(ins) if i != a))
                if not special and any(c not in others for c in ins[a]):
                    ctx.branch("einsum.sens.broadcast_index")
                if not special and not cplx[a] and any(c for i, c in enumerate(cplx) if i != a) and np.iscomplexobj(w):
                    ctx.branch("einsum.sens.real_operand_rule")
            # ---- oracle on the real code: multilinearity gives the exact directional derivative (integer data) -------------
            for a in range(nin):
                v = _int_array(rng, shapes[a], cplx[a])
                ops = [x if i != a else v for i, x in enumerate(xs)]
                dy = np.einsum(",".join(ins) + "->" + out, *ops)
                lhs = np.real(np.sum(np.asarray(w) * dy))
                rhs = np.real(np.sum(np.asarray(sigs[a].sensitivity) * v))
                if lhs != rhs:
                    ctx.oracle_fail(f"EinSum {','.join(ins)}->{out}: Re<w, dy> = {lhs} but Re<g_{a}, v> = {rhs}",
                                    {"kind": "einsum", "ins": ins, "out": out, "shapes": [list(s) for s in shapes], "x": [_cx(x) for x in xs],
                                     "isC": [bool(c) for c in cplx], "w": _cx(w), "wC": bool(np.iscomplexobj(w)), "operand": a, "v": _cx(v)})
    res = ctx.model(reqs)
    for req, imp, mo in zip(reqs, imps, res):
        key = ("einsum", ",".join(req["ins"]) + "->" + req["out"], str(req["shapes"]), str(req["isC"]), req["wC"])
        if "err" in imp:
            ctx.compare_exact("einsum", req, imp, {"err": mo.get("err")} if "err" in mo else mo.get("ok"), key=key, nontrivial=False)
        elif "ok" not in mo:
            ctx.disagree("einsum", req, imp, mo, "model rejects an expression that the implementation accepts")
        else:
            ctx.compare_exact("einsum", req, imp, mo["ok"], key=key, nontrivial="sens" in imp)
    if reqs:
        ctx.sample({"request": reqs[1 % len(reqs)], "implementation": imps[1 % len(reqs)]})


# ---------------------------------------------------------------------------------------------------------------------
# MathGeneral: the reverse broadcast of `_sensitivity` given sympy's derivative arrays (handler c01.unbroadcast)
# ---------------------------------------------------------------------------------------------------------------------
MATH_EXACT = {"inp0*inp1", "inp0+2*inp1", "inp0*inp0*inp1 + inp2"}     # dyadic data -> every float operation is exact
MATH_SHAPES = [(), (3,), (2, 3), (1, 3), (2, 1)]


def mathgeneral_cases(ctx, n):
    pm = _pm()
    rng = ctx.rng
    reqs, imps, meta = [], [], []

    def dyadic(shape, cplx, lo=1, hi=6):
        k = int(np.prod(shape)) if len(shape) else 1
        a = np.array([rng.randint(lo, hi) / 4 for _ in range(k)]).reshape(shape)
        if cplx:
            a = a + 1j * np.array([rng.randint(-4, 4) / 4 for _ in range(k)]).reshape(shape)
        return a
    for t in range(n):
        expr, nin = zoo.MATH_EXPRS[t % len(zoo.MATH_EXPRS)]
        shapes = [MATH_SHAPES[rng.randrange(len(MATH_SHAPES))] for _ in range(nin)]
        if rng.random() < 0.15:
            shapes = [()] * nin                                    # scalar output
        cplx = [rng.random() < 0.25 for _ in range(nin)]
        style = [rng.randrange(2) for _ in range(nin)]             # scalar inputs: Python number or 0-d array
        xs = []
        for shp, c, st in zip(shapes, cplx, style):
            v = dyadic(shp, c)
            xs.append(v if len(shp) else ((complex(v) if c else float(v)) if st == 0 else v))
        sigs = [pm.Signal(f"v{i}", (x.copy() if isinstance(x, np.ndarray) else x)) for i, x in enumerate(xs)]
        m = pm.MathGeneral(sigs, expression=expr)
        r = call_impl(m.response)
        if r[0] == "err":
            ctx.oracle_fail(f"MathGeneral {expr} {shapes}: response raised {r[2][:200]}", {"expr": expr, "shapes": [list(s) for s in shapes]})
            continue
        y = m.sig_out[0].state
        S = tuple(np.shape(y))
        w_cplx = rng.random() < (0.7 if np.iscomplexobj(y) else 0.1)
        w = dyadic(S, w_cplx, -6, 6)
        if len(S) == 0 and rng.random() < 0.5:
            w = complex(w) if w_cplx else float(w)
        m.sig_out[0].sensitivity = w.copy() if isinstance(w, np.ndarray) else w
        r = call_impl(m.sensitivity)
        if r[0] == "err":
            ctx.oracle_fail(f"MathGeneral {expr} {shapes}: sensitivity raised {r[2][:200]}", {"expr": expr, "shapes": [list(s) for s in shapes]})
            continue
        dg_df = m.df(*m.x)                                           # sympy's derivative arrays: the external contract
        for i in range(nin):
            add = w * dg_df[i]
            if tuple(np.shape(add)) != S:
                ctx.skipped_boundary += 1                            # derivative does not have the output shape (not generated)
                continue
            g = sigs[i].sensitivity
            req = {"m": "c01.unbroadcast", "s": list(shapes[i]), "S": list(S), "inC": bool(np.iscomplexobj(xs[i])),
                   "addC": bool(np.iscomplexobj(add)), "dfdy": _cx(np.broadcast_to(w, S)), "dg": _cx(np.broadcast_to(dg_df[i], S)),
                   "x": _cx(xs[i]),
                   "case": {"expr": expr, "shapes": [list(sh) for sh in shapes], "x": [_cx(x) for x in xs],
                            "cplx": [bool(np.iscomplexobj(x)) for x in xs], "w": _cx(w), "wC": bool(np.iscomplexobj(w))}}
            reqs.append(req)
            imps.append({"c": bool(np.iscomplexobj(g)), "g": np.ravel(g), "b": _cx(np.broadcast_to(xs[i], S)),
                         "shape_ok": tuple(np.shape(g)) == tuple(shapes[i])})
            meta.append((expr, i))
            br = "scalar" if len(shapes[i]) == 0 else "equal" if tuple(shapes[i]) == S else "reverse_broadcast"
            ctx.branch("mathgeneral." + br)
            if not np.iscomplexobj(xs[i]) and np.iscomplexobj(add):
                ctx.branch("mathgeneral.real_part_rule")
            # ---- oracle on the real code, given the derivative arrays: Re<w, dg_i * B(v)> = Re<g_i, v> ----------------
            v = dyadic(shapes[i], bool(np.iscomplexobj(xs[i])), -4, 4)
            lhs = np.real(np.sum(w * dg_df[i] * v * np.ones(S)))
            rhs = np.real(np.sum(np.asarray(g) * v))
            if abs(lhs - rhs) > 1e-10 * (1 + abs(lhs)):
                ctx.oracle_fail(f"MathGeneral {expr} {shapes} input {i}: Re<w, dy> = {lhs} but Re<g, v> = {rhs}",
                                {"kind": "mathgeneral", "expr": expr, "shapes": [list(s) for s in shapes], "x": [_cx(x) for x in xs],
                                 "cplx": [bool(np.iscomplexobj(x)) for x in xs], "w": _cx(w), "wC": bool(np.iscomplexobj(w)), "input": i, "v": _cx(v)})
    res = ctx.model(reqs)
    for req, imp, mo, (expr, i) in zip(reqs, imps, res, meta):
        key = ("mathgeneral", expr, i, str(req["s"]), str(req["S"]), req["inC"], req["addC"])
        if "ok" not in mo:
            ctx.disagree("mathgeneral", req, {"c": imp["c"]}, mo, "model error")
            continue
        mm = mo["ok"]
        if not imp["shape_ok"]:
            ctx.disagree("mathgeneral", req, "sensitivity shape differs from the input shape", mm)
            continue
        head_i = {"c": imp["c"], "b": imp["b"]}
        head_m = {"c": mm["c"], "b": mm["b"]}
        if expr in MATH_EXACT:
            head_i["g"] = _cx(imp["g"])
            head_m["g"] = mm["g"]
            ctx.compare_exact("mathgeneral", req, head_i, head_m, key=key)
        else:
            if not ctx.compare_exact("mathgeneral", req, head_i, head_m, key=key + ("head",), nontrivial=False):
                continue
            gm = [complex(float(fr(a)), float(fr(b))) for a, b in mm["g"]]
            scale = max([1.0] + [abs(z) for z in gm])
            ctx.compare_close("mathgeneral", req, np.asarray(imp["g"], dtype=complex), gm, rtol=1e-12, atol=1e-13, scale=scale, key=key)
    if reqs:
        ctx.sample({"request": reqs[0], "implementation": {"c": imps[0]["c"], "g": _cx(imps[0]["g"])}})


def correspondence(ctx):
    warnings.filterwarnings("ignore")
    pointwise_cases(ctx, 120 if ctx.quick else 1500)
    einsum_cases(ctx, 210 if ctx.quick else 3000)
    mathgeneral_cases(ctx, 72 if ctx.quick else 1200)
    # ---- module families with their own model: response + sensitivity correspondence ------------------------------
    from . import c09, c16, c14
    for sub in (c09, c16, c14):
        try:
            sub.correspondence(ctx)
        except Exception as e:  # noqa
            import traceback
            ctx.disagreements.append({"stream": sub.__name__.split(".")[-1] + ".exception", "case": None, "impl": type(e).__name__,
                                      "model": None, "detail": traceback.format_exc()[-2000:]})
    # findings of those properties are reported by their own checks; here only untagged failures count
    ctx.oracle_failures = [w for w in ctx.oracle_failures if not w.get("finding_key")]
    # ---- the property itself on the real code: every module family ---------------------------------------------
    per = 4 if ctx.quick else 40
    skipped = 0
    for fam, gen in zoo.GENERATORS.items():
        for kk in range(per * (5 if fam == "eigensolve_sparse" else 3 if fam in ("soe", "staticcond") else 2 if fam in ("complex", "aggregation") else 1)):
            case = zoo.generate(fam, ctx.nprng, kk + 3 * (ctx.seed % 4))
            r = call_impl(zoo.adjoint_oracle, case, ctx.nprng, 2, True)
            ctx.evaluations += 1
            ctx.branch("adjoint." + fam)
            skipped += getattr(case, "skipped", 0)
            if r[0] == "err" and zoo.numerical_limit(fam, r[2]):
                ctx.skipped_boundary += 1
            elif r[0] == "err":
                ctx.oracle_fail(f"{case.name}: response()/sensitivity() raised {r[2][:300]}", {"family": fam, "case": case.name})
            elif r[1]:
                ctx.oracle_fail(r[1], {"family": fam, "case": case.name})
            else:
                ctx.distinct.add(("adjoint", case.name))
    ctx.skipped_boundary += skipped
    # the open finding's input class (sparse EigenSolve, complex Hermitian): judged by the oracle, tagged with the key
    for _ in range(3 if ctx.quick else 20):
        case = zoo.gen_eigensolve_sparse(ctx.nprng, real_only=False)
        if ".c." not in case.name:
            continue
        r = call_impl(zoo.adjoint_oracle, case, ctx.nprng, 1, True)
        ctx.evaluations += 1
        ctx.branch("adjoint.eigensolve_sparse.complex_hermitian(finding)")
        if r[0] == "err":
            ctx.oracle_fail(f"{case.name}: raised {r[2][:200]}", {"case": case.name}, key=FINDING_KEY_EIG)
        elif r[1]:
            ctx.oracle_fail(r[1], {"case": case.name}, key=FINDING_KEY_EIG)


def search(ctx, disagreements):
    warnings.filterwarnings("ignore")
    found = []
    for d in disagreements:                       # the generic-module streams: property oracle on the disagreeing cases first
        case = d.get("case") or {}
        if d.get("stream") == "einsum" and "ins" in case:
            r = call_impl(einsum_witness_oracle, case)
            what = r[1] if r[0] == "ok" else f"oracle raised {r[2][:200]}"
            if what:
                found.append({"what": what, "witness": {"kind": "einsum", **{k: case[k] for k in ("ins", "out", "shapes", "x", "isC", "w", "wC")}}})
        elif d.get("stream") == "mathgeneral" and "case" in case:
            r = call_impl(mathgeneral_witness_oracle, case["case"])
            what = r[1] if r[0] == "ok" else f"oracle raised {r[2][:200]}"
            if what:
                found.append({"what": what, "witness": {"kind": "mathgeneral", **case["case"]}})
    found.sort(key=lambda f: len(str(f["witness"])))
    if found:
        return found[:5]
    rng = np.random.default_rng(ctx.seed + 1000)
    for fam, gen in zoo.GENERATORS.items():
        for _ in range(12):
            case = gen(rng)
            r = call_impl(zoo.adjoint_oracle, case, rng, 2, True)
            if r[0] == "err" and zoo.numerical_limit(fam, r[2]):
                continue                      # documented numerical limit (as in `correspondence`), not a violation
            if r[0] == "err":
                found.append({"what": f"{case.name}: raised {r[2][:300]}", "witness": {"family": fam, "case": case.name}})
            elif r[1]:
                found.append({"what": r[1], "witness": {"family": fam, "case": case.name}})
        if len(found) >= 3:
            break
    return found


def replay(ctx, data):
    w = (data.get("witness") or {}).get("witness") or {}
    if isinstance(w, dict) and w.get("kind") in ("einsum", "mathgeneral") or (isinstance(w, dict) and "ins" in w):
        warnings.filterwarnings("ignore")
        fn = mathgeneral_witness_oracle if w.get("kind") == "mathgeneral" else einsum_witness_oracle
        what = fn(w)
        return {"still_failing": bool(what), "what": what}
    return {"still_failing": False, "note": "re-run ./check C01 with the recorded VERIF_SEED to reproduce"}
