"""C02 — Network back-propagation yields the total derivative of any module graph
(pymoto/core_objects.py: Module.response / sensitivity / reset, Network, Signal.add_sensitivity, SignalSlice).

correspondence: random acyclic programs of harness-defined `pymoto.Module` subclasses (`GenMod`, int64 data) wired into
    real `pymoto.Network`s (fan-out, repeated inputs, SignalSlice inputs/outputs, nesting, random seed subsets)
    vs the Lean model `Core/Network.lean` (driver op c02.run); every signal state and sensitivity (with None-ness)
    is compared after every operation (response / seed / set / sensitivity / reset) — exact.
oracle / search: on the REAL network, the derivative of the seeded combination of outputs w.r.t. every source entry,
    computed exactly by forward differences (Newton series of the order of the polynomial degree, python-int data)
    and by forward-mode dual numbers, must equal the back-propagated sensitivity; the nested network must behave as
    its flattening.
"""
import copy
import json
import warnings
from fractions import Fraction

import numpy as np

from ..common import call_impl

RULE = ("random acyclic programs (3-12 primitive modules quick, up to 40 thorough; kinds lin/mul/dot/sq/fan/cat(concat,split)/sink; "
        "1-D and 2-D base arrays; plain, basic-slice, ndarray-index, python-list-index, tuple (of slices / ndarrays / lists, one per axis) "
        "and nested-slice signals on inputs and outputs; nesting depth <= 3; seeds on random subsets of terminal/intermediate/source "
        "signals incl. none; one or two response/seed/sensitivity/reset rounds), a 'late' stream (networks put together by append() "
        "calls in which nested networks of depth 1-3 receive modules after they were nested; 2-3 complete rounds; sig_in/sig_out of "
        "every network compared as recorded at append time) plus a malformed stream (missing states, arity mismatch, double writes, "
        "read-before-write). distinct = distinct program specs; a case is non-trivial when at least one sensitivity is produced or "
        "an error class is compared")
ASSUMPTIONS = [
    "module semantics are those of the harness-defined GenMod kinds (each an exact polynomial map with its coded adjoint); "
    "programs whose array sizes are inconsistent are outside the model (refused as IllSized) and are not generated",
    "integer index arrays with repeated indices, boolean masks and scalar integer indices of SignalSlice are not generated (C18)",
    "nested SignalSlices are generated only over basic slices (views)",
    "cases in which any modelled value reaches 2^28 are skipped (int64 products must stay exact)",
]

LIMIT = 2 ** 28
DEG_CAP = 5


def _pm():
    import pymoto
    return pymoto


# ------------------------------------------------------------------------------------------------------------------
# the harness-defined module class (mirrored by Kind.f / Kind.adj / Prim.response / Prim.sensitivity of the model)
# ------------------------------------------------------------------------------------------------------------------
_GENMOD = None


def genmod_class():
    global _GENMOD
    if _GENMOD is not None:
        return _GENMOD
    pm = _pm()

    class GenMod(pm.Module):
        def _prepare(self, kind, out_sizes, A=None, n=None, dtype=np.int64, out_shapes=None):
            self.kind = kind
            self.out_sizes = list(out_sizes)
            self.out_shapes = out_shapes
            self.rows = 0 if A is None else len(A)
            self.A = None if not self.rows else np.array(A, dtype=np.int64).reshape(self.rows, -1)
            self.k = n
            self.dtype = dtype

        def _cat(self, arrs):
            arrs = [np.asarray(a).ravel() for a in arrs]
            if not arrs:
                return np.zeros(0, dtype=self.dtype)
            return np.concatenate(arrs)

        def _response(self, *inp):
            if any(a is None for a in inp):
                raise TypeError("GenMod: input state is None")
            x = self._cat(inp)
            n = x.size
            h = n // 2
            k = self.kind
            if k == "lin":
                y = np.zeros(self.rows, dtype=x.dtype) if n == 0 or self.rows == 0 else self.A.astype(x.dtype) @ x
            elif k == "mul":
                y = x[:h] * x[h:]
            elif k == "dot":
                y = np.zeros(1, dtype=x.dtype)
                y[0] = np.dot(x[:h], x[h:]) if h > 0 else 0
            elif k == "sq":
                y = x * x
            elif k == "fan":
                y = np.tile(x, self.k)
            elif k == "cat":
                y = x.copy()
            elif k == "sink":
                y = np.zeros(0, dtype=x.dtype)
            else:
                raise RuntimeError(k)
            c = np.concatenate([[0], np.cumsum(self.out_sizes)]).astype(int)
            out = [y[c[i]:c[i + 1]] for i in range(len(self.out_sizes))]
            if self.out_shapes is not None:   # every output gets the shape of the signal it is written to
                out = [o.reshape(sh) if int(np.prod(sh)) == o.size else o for o, sh in zip(out, self.out_shapes)] + out[len(self.out_shapes):]
            return out

        def _sensitivity(self, *dy):
            inp = [s.state for s in self.sig_in]
            if any(a is None for a in inp):
                raise TypeError("GenMod: input state is None")
            x = self._cat(inp)
            n = x.size
            h = n // 2
            w = self._cat([np.zeros(z, dtype=x.dtype) if d is None else d for d, z in zip(dy, self.out_sizes)])
            k = self.kind
            if k == "lin":
                ds = np.zeros(n, dtype=x.dtype) if n == 0 or self.rows == 0 else self.A.T.astype(w.dtype) @ w
            elif k == "mul":
                ds = np.concatenate([x[h:] * w, x[:h] * w])
            elif k == "dot":
                ds = np.concatenate([x[h:] * w[0], x[:h] * w[0]])
            elif k == "sq":
                ds = 2 * x * w
            elif k == "fan":
                ds = w.reshape(self.k, n).sum(axis=0) if self.k > 0 else np.zeros(n, dtype=x.dtype)
            elif k == "cat":
                ds = w.copy()
            elif k == "sink":
                ds = np.zeros(n, dtype=x.dtype)
            else:
                raise RuntimeError(k)
            sizes = [np.asarray(a).size for a in inp]
            c = np.concatenate([[0], np.cumsum(sizes)]).astype(int)
            return [ds[c[i]:c[i + 1]].reshape(np.shape(inp[i])) for i in range(len(sizes))]   # shape of the input state

    _GENMOD = GenMod
    return GenMod


# ------------------------------------------------------------------------------------------------------------------
# slices
# ------------------------------------------------------------------------------------------------------------------
def _comp(c):
    if c[0] == "slice":
        return slice(c[1], c[2], c[3])
    if c[0] == "arr":
        return np.array(c[1], dtype=np.int64)
    if c[0] == "list":
        return [int(v) for v in c[1]]
    raise ValueError(c[0])


def sl_obj(desc):
    """python indexing object(s) from a JSON-able description; returns a list of successive index objects.
    slice / tup=(slice,) : basic (views);  arr = ndarray index, list = python list index, t = tuple of components
    (slices, ndarrays, python lists; one per axis) : advanced (copies);  nest = slice of a slice (basic only)."""
    t = desc[0]
    if t == "slice":
        return [slice(desc[1], desc[2], desc[3])]
    if t == "tup":
        return [(slice(desc[1], desc[2], desc[3]),)]
    if t == "arr":
        return [np.array(desc[1], dtype=np.int64)]
    if t == "list":
        return [[int(v) for v in desc[1]]]
    if t == "t":
        return [tuple(_comp(c) for c in desc[1:])]
    if t == "nest":
        return sl_obj(desc[1]) + sl_obj(desc[2])
    raise ValueError(t)


def _shape(n):
    return [int(n)] if isinstance(n, (int, np.integer)) else [int(v) for v in n]


def sl_apply(desc, a):
    for o in sl_obj(desc):
        a = a[o]
    return a


def sl_idx(desc, n):
    """flat (C-order) entries of the base selected by the slice, in the order of the sliced array"""
    shp = _shape(n)
    a = sl_apply(desc, np.arange(int(np.prod(shp))).reshape(shp))
    return [int(v) for v in np.asarray(a).ravel()]


def sl_shape(desc, n):
    shp = _shape(n)
    if desc is None:
        return tuple(shp)
    return tuple(np.shape(sl_apply(desc, np.zeros(shp, dtype=np.int8))))


def slice_kind(desc):
    if desc is None:
        return "plain"
    if desc[0] == "t":
        return "t(" + ",".join(c[0] for c in desc[1:]) + ")"
    return desc[0]


def _rand_basic(rng, n):
    step = rng.choice([1, 1, 1, 2, -1, -2, 3])
    start = rng.choice([None, rng.randint(-n, n - 1)])
    stop = rng.choice([None, rng.randint(-n, n)])
    return ["slice", start, stop, step]


def _rand_adv(rng, n, m=None):
    m = m if m is not None else rng.randint(1, n)
    l = rng.sample(range(n), m)
    if rng.random() < 0.3:   # negative indices
        l = [i - n if rng.random() < 0.5 else i for i in l]
    return [rng.choice(["arr", "list"]), l]


def exact_desc(rng, n, ents):
    """an advanced index selecting exactly the flat entries `ents` (in this order)"""
    shp = _shape(n)
    if len(shp) == 1:
        d = [rng.choice(["arr", "list"]), list(ents)]
        return ["t", d] if rng.random() < 0.25 else d
    rows = [e // shp[1] for e in ents]
    cols = [e % shp[1] for e in ents]
    return ["t", [rng.choice(["arr", "list"]), rows], [rng.choice(["arr", "list"]), cols]]


def rand_slice(rng, n, length=None, allow_nest=True):
    """a random slice description of a base of shape n (int or [r, c]): non-empty, no repeated entries; exact number of
    entries if requested"""
    shp = _shape(n)
    tot = int(np.prod(shp))
    for _ in range(30):
        r = rng.random()
        if len(shp) == 2:
            if r < 0.25:      # row selection only
                d = rng.choice([_rand_basic(rng, shp[0]), _rand_adv(rng, shp[0])])
                if d[0] == "slice" and rng.random() < 0.3:
                    d = ["tup"] + d[1:]
            else:
                cs = []
                for ax in range(2):
                    cs.append(_rand_basic(rng, shp[ax]) if rng.random() < 0.45 else _rand_adv(rng, shp[ax]))
                if cs[0][0] != "slice" and cs[1][0] != "slice":   # two index arrays are paired: equal lengths
                    m = min(len(cs[0][1]), len(cs[1][1]))
                    cs[0][1], cs[1][1] = cs[0][1][:m], cs[1][1][:m]
                d = ["t"] + cs
        elif r < 0.35:
            d = _rand_basic(rng, tot)
            if rng.random() < 0.3:
                d = ["tup"] + d[1:]
        elif r < 0.8 or not allow_nest:
            if length is not None and length > tot:
                continue
            d = _rand_adv(rng, tot, length)
            if rng.random() < 0.25:
                d = ["t", d]
        else:
            d1 = rand_slice(rng, tot, None, allow_nest=False)
            if d1[0] not in ("slice", "tup"):
                continue
            n1 = len(sl_idx(d1, tot))
            d2 = rand_slice(rng, n1, None, allow_nest=False)
            if d2[0] not in ("slice", "tup"):
                continue
            d = ["nest", d1, d2]
        try:
            idx = sl_idx(d, shp)
        except (IndexError, ValueError):
            continue
        if len(idx) == 0 or len(set(idx)) != len(idx):
            continue
        if length is not None and len(idx) != length:
            continue
        return d
    if length is not None and length <= tot:
        if len(shp) == 2 or rng.random() < 0.5:
            return exact_desc(rng, shp, rng.sample(range(tot), length))
        s0 = rng.randint(0, tot - length)
        return ["slice", s0, s0 + length, 1]
    return ["slice", None, None, 1]


def rand_shape(rng, n):
    """shape of a base with n entries: 1-D, or 2-D (r, c) with r*c = n"""
    if n >= 1 and rng.random() < 0.35:
        r = rng.choice([d for d in range(1, n + 1) if n % d == 0])
        return [r, n // r]
    return [n]


def base_shape(bd):
    return bd.get("shape") or [bd["len"]]


# ------------------------------------------------------------------------------------------------------------------
# program generator
# ------------------------------------------------------------------------------------------------------------------
class Gen:
    def __init__(self, rng, nmods, degmax, vbmax=2 ** 10):
        self.rng = rng
        self.bases = []      # dict(len, keep, state, sens)
        self.sigs = []       # dict(base, idx, sl)
        self.mods = []       # flat primitive modules
        self.readable = []   # base ids that hold a value now
        self.written = {}    # base -> set(entries written by a module)
        self.readset = {}    # base -> set(entries read by a module)
        self.deg = {}        # base -> polynomial degree bound w.r.t. the sources
        self.vb = {}         # base -> bound on |value|
        self.consumed = set()  # bases read by some module
        self.degmax = degmax
        self.vbmax = vbmax
        self.nmods = nmods

    # -- bases and signals ---------------------------------------------------------------------
    def new_base(self, n, state, sens=None, shape=None):
        self.bases.append({"len": n, "keep": sens is not None, "state": state, "sens": sens,
                           "shape": shape if shape is not None else rand_shape(self.rng, n)})
        b = len(self.bases) - 1
        self.written[b] = set()
        self.readset[b] = set()
        return b

    def sig(self, b, desc=None, reuse=True):
        idx = None if desc is None else sl_idx(desc, base_shape(self.bases[b]))
        if reuse:
            for i, s in enumerate(self.sigs):
                if s["base"] == b and s["sl"] == desc:
                    return i
        self.sigs.append({"base": b, "idx": idx, "sl": desc})
        return len(self.sigs) - 1

    def sig_len(self, sid):
        s = self.sigs[sid]
        return self.bases[s["base"]]["len"] if s["idx"] is None else len(s["idx"])

    def sig_ents(self, sid):
        s = self.sigs[sid]
        return list(range(self.bases[s["base"]]["len"])) if s["idx"] is None else s["idx"]

    def source(self, n=None):
        rng = self.rng
        n = n or rng.randint(1, 4)
        st = [rng.randint(-3, 3) for _ in range(n)]
        sens = None
        if rng.random() < 0.1:   # constructed with a sensitivity => keep_alloc
            sens = [rng.randint(-2, 2) for _ in range(n)]
        b = self.new_base(n, st, sens)
        self.readable.append(b)
        self.deg[b] = 1
        self.vb[b] = 3
        return b

    # -- picking inputs --------------------------------------------------------------------------
    def pick_in(self, length=None, maxdeg=None, maxvb=None):
        """a signal id to read: plain or sliced view of a readable base"""
        rng = self.rng
        cands = [b for b in self.readable
                 if (length is None or self.bases[b]["len"] >= length)
                 and (maxdeg is None or self.deg[b] <= maxdeg) and (maxvb is None or self.vb[b] <= maxvb)]
        if not cands or rng.random() < 0.12:
            b = self.source(length if length is not None and rng.random() < 0.5 else max(length or 1, rng.randint(1, 4)))
        else:
            # prefer recently produced bases and bases not yet consumed, to get depth
            fresh = [b for b in cands if b not in self.consumed]
            b = rng.choice(fresh) if fresh and rng.random() < 0.6 else rng.choice(cands)
        n = self.bases[b]["len"]
        if (length is None or length == n) and rng.random() < 0.6:
            sid = self.sig(b, None)
        else:
            sid = self.sig(b, rand_slice(rng, base_shape(self.bases[b]), length), reuse=rng.random() < 0.5)
        self.consumed.add(b)
        self.readset[b].update(self.sig_ents(sid))
        return sid

    # -- picking outputs ---------------------------------------------------------------------------
    def pick_out(self, z, taken):
        """a signal id of length z to write; `taken` = (base, entry) pairs already used by this module's outputs"""
        rng = self.rng
        r = rng.random()
        if r < 0.6:
            st = None if rng.random() < 0.8 else [rng.randint(-3, 3) for _ in range(rng.randint(1, 4))]   # stale state is overwritten
            if st is not None and len(st) != z:
                st = None
            b = self.new_base(z, st)
            sid = self.sig(b, None)
            self.written[b].update(range(z))
            return sid, b
        # slice of a container: an existing one with enough free (unwritten, unread) entries, or a new one
        cands = []
        for b, bd in enumerate(self.bases):
            if bd["state"] is None:
                continue
            free = [e for e in range(bd["len"]) if e not in self.written[b] and e not in self.readset[b]
                    and (b, e) not in taken]
            if len(free) >= z and self.written[b]:
                cands.append((b, free))
        if cands and rng.random() < 0.5:
            b, free = rng.choice(cands)
            bd = self.bases[b]
            ents = rng.sample(free, z)
            if rng.random() < 0.5:
                ents.sort()
            desc = exact_desc(rng, base_shape(bd), ents)
        else:
            n = z + rng.randint(0, 3)
            b = self.new_base(n, [rng.randint(-3, 3) for _ in range(n)],
                              [rng.randint(-2, 2) for _ in range(n)] if rng.random() < 0.08 else None)
            desc = rand_slice(rng, base_shape(self.bases[b]), z)
        sid = self.sig(b, desc, reuse=False)
        self.written[b].update(self.sig_ents(sid))
        return sid, b

    # -- one module --------------------------------------------------------------------------------
    def add_module(self):
        rng = self.rng
        kinds = ["lin", "lin", "mul", "dot", "sq", "fan", "cat", "cat", "sink"]
        kind = rng.choice(kinds)
        if kind == "sink" and rng.random() < 0.6:
            kind = "lin"
        half = self.degmax // 2
        m = {"k": kind}
        if kind in ("mul", "dot"):
            a = self.pick_in(None, maxdeg=max(1, half), maxvb=self.vbmax)
            la = self.sig_len(a)
            if rng.random() < 0.25:
                b = a                                   # the same signal used twice by one module
            else:
                b = self.pick_in(la, maxdeg=max(1, self.degmax - self.deg[self.sigs[a]["base"]]), maxvb=self.vbmax)
            ins = [a, b]
            ba, bb = self.sigs[a]["base"], self.sigs[b]["base"]
            dg = self.deg[ba] + self.deg[bb]
            if dg > self.degmax:
                return self.add_module()
            vb = self.vb[ba] * self.vb[bb] * (la if kind == "dot" else 1)
            nout = la if kind == "mul" else 1
        elif kind == "sq":
            a = self.pick_in(None, maxdeg=max(1, half), maxvb=self.vbmax)
            ins = [a]
            ba = self.sigs[a]["base"]
            dg = 2 * self.deg[ba]
            if dg > self.degmax:
                return self.add_module()
            vb = self.vb[ba] ** 2
            nout = self.sig_len(a)
        else:
            nin = {"lin": rng.choice([1, 1, 1, 2, 0]), "fan": 1, "cat": rng.choice([1, 2, 2, 3]),
                   "sink": rng.choice([0, 1, 2])}[kind]
            ins = []
            for _ in range(nin):
                if ins and rng.random() < 0.15:
                    ins.append(rng.choice(ins))         # repeated input
                else:
                    ins.append(self.pick_in(None))
            n = sum(self.sig_len(s) for s in ins)
            dg = max([self.deg[self.sigs[s]["base"]] for s in ins] + [0])
            vbin = max([self.vb[self.sigs[s]["base"]] for s in ins] + [0])
            if kind == "lin":
                rows = rng.randint(1, 4) if rng.random() < 0.95 else 0
                big = vbin > 64
                A = []
                for _ in range(rows):
                    if big:   # selection rows: no growth
                        row = [0] * n
                        if n:
                            row[rng.randrange(n)] = rng.choice([1, -1])
                    else:
                        row = [rng.choice([0, 0, 1, -1, 2, -2, 3]) for _ in range(n)]
                    A.append(row)
                m["A"] = A
                nout = rows
                vb = vbin if big else vbin * 3 * max(n, 1)
            elif kind == "fan":
                m["n"] = rng.choice([1, 2, 2, 3, 0]) if rng.random() < 0.97 else 0
                nout = m["n"] * n
                vb = vbin
            elif kind == "cat":
                nout = n
                vb = vbin
            else:
                nout = 0
                vb = 0
        # outputs: split nout over 1..3 signals (fan: k outputs of n; lin/mul/sq/dot: mostly one)
        if nout == 0:
            sizes = [] if kind in ("sink",) or rng.random() < 0.7 else []
        elif kind == "fan" and rng.random() < 0.8:
            sizes = [nout // m["n"]] * m["n"]
        elif kind == "cat" and len(ins) == 1 and nout >= 2 and rng.random() < 0.8:   # split
            k = rng.randint(2, min(3, nout))
            cuts = sorted(rng.sample(range(1, nout), k - 1))
            sizes = [b - a for a, b in zip([0] + cuts, cuts + [nout])]
        elif nout >= 2 and rng.random() < 0.2:
            c = rng.randint(1, nout - 1)
            sizes = [c, nout - c]
        else:
            sizes = [nout]
        outs, obases, taken = [], [], set()
        for z in sizes:
            sid, b = self.pick_out(z, taken)
            outs.append(sid)
            obases.append(b)
            taken.update((b, e) for e in self.sig_ents(sid))
        m.update({"ins": ins, "outs": outs, "osz": sizes})
        self.mods.append(m)
        for b in obases:
            self.deg[b] = max(self.deg.get(b, 1), dg, 1)
            self.vb[b] = max(self.vb.get(b, 3), vb, 3)
            if b not in self.readable:
                self.readable.append(b)
        return m

    # -- nesting -------------------------------------------------------------------------------------
    def nest(self, items, depth):
        rng = self.rng
        if depth <= 0 or len(items) == 0:
            return items
        out = []
        i = 0
        while i < len(items):
            if rng.random() < 0.3:
                ln = rng.randint(0, min(4, len(items) - i))
                out.append({"net": self.nest(items[i:i + ln], depth - 1)})
                i += ln
            else:
                out.append(items[i])
                i += 1
        return out

    def spec(self, depth):
        for _ in range(self.rng.randint(1, 3)):
            self.source()
        for _ in range(self.nmods):
            self.add_module()
        prog = self.nest(list(self.mods), depth)
        return {"m": "c02.run", "bases": self.bases, "sigs": self.sigs, "prog": prog}


def flat_mods(prog):
    out = []
    for it in prog:
        if "net" in it:
            out.extend(flat_mods(it["net"]))
        else:
            out.append(it)
    return out


def depth_of(prog):
    return 1 + max([depth_of(it["net"]) for it in prog if "net" in it] + [0])


def gen_ops(rng, g, spec, rounds=0):
    """response / seeds / sensitivity / reset rounds (rounds > 0: exactly that many complete rounds, each ended by reset)"""
    mods = flat_mods(spec["prog"])
    written_b = {g.sigs[s]["base"] for m in mods for s in m["outs"]}
    terminals = [b for b in written_b if b not in g.consumed]
    inter = [b for b in written_b if b in g.consumed]
    srcs = [b for b in range(len(g.bases)) if b not in written_b and g.bases[b]["state"] is not None]

    def seeds():
        ops = []
        r = rng.random()
        if r < 0.08:
            chosen = []                       # nothing seeded
        else:
            chosen = [b for b in terminals if rng.random() < 0.6]
            if rng.random() < 0.3 and inter:
                chosen.append(rng.choice(inter))
            if rng.random() < 0.1 and srcs:
                chosen.append(rng.choice(srcs))
            if not chosen and terminals and r > 0.16:
                chosen = [rng.choice(terminals)]
        for b in chosen:
            n = g.bases[b]["len"]
            if rng.random() < 0.7:
                sid = g.sig(b, None)
            else:
                sid = g.sig(b, rand_slice(rng, base_shape(g.bases[b])), reuse=rng.random() < 0.5)
            if rng.random() < 0.05:
                ops.append(["seed", sid, None])
            else:
                ops.append(["seed", sid, [rng.randint(-3, 3) for _ in range(g.sig_len(sid))]])
        return ops

    def sets():
        ops = []
        for b in srcs:
            if rng.random() < 0.5:
                sid = g.sig(b, None) if rng.random() < 0.7 else g.sig(b, rand_slice(rng, base_shape(g.bases[b])), reuse=False)
                ops.append(["set", sid, [rng.randint(-3, 3) for _ in range(g.sig_len(sid))]])
        return ops

    if rounds:
        ops = []
        for r in range(rounds):
            if r and rng.random() < 0.6:
                ops += sets()
            ops += [["resp"]] + seeds() + [["sens"]]
            if r < rounds - 1 or rng.random() < 0.8:
                ops.append(["reset"])
        return ops
    ops = [["resp"]] + seeds() + [["sens"]]
    if rng.random() < 0.1:
        ops.append(["sens"])                   # second sweep accumulates
    if rng.random() < 0.85:
        ops.append(["reset"])
    if rng.random() < 0.5:
        for b in srcs:
            if rng.random() < 0.5:
                n = g.bases[b]["len"]
                sid = g.sig(b, None) if rng.random() < 0.7 else g.sig(b, rand_slice(rng, base_shape(g.bases[b])), reuse=False)
                ops.append(["set", sid, [rng.randint(-3, 3) for _ in range(g.sig_len(sid))]])
        ops += [["resp"]] + seeds() + [["sens"]]
        if rng.random() < 0.7:
            ops.append(["reset"])
            if rng.random() < 0.3:
                ops.append(["reset"])
    return ops


def make_case(rng, quick, small=False):
    if small:
        nm = rng.randint(1, 4)
    elif quick:
        nm = rng.randint(3, 12)
    else:
        nm = rng.randint(3, 40) if rng.random() < 0.6 else rng.randint(3, 12)
    degmax = rng.choice([2, 4, 4, 6, 8]) if nm <= 12 else rng.choice([2, 4, 6])
    g = Gen(rng, nm, degmax)
    spec = g.spec(depth=rng.choice([0, 1, 2, 2]))
    spec["ops"] = gen_ops(rng, g, spec)
    spec["sigs"] = g.sigs     # gen_ops may add seed signals
    spec["deg"] = max(list(g.deg.values()) + [1])
    return spec


# ------------------------------------------------------------------------------------------------------------------
# networks put together by append(): nested networks that are extended AFTER they were nested
# ------------------------------------------------------------------------------------------------------------------
def make_build(rng, prog):
    """the nested program as a sequence of `Network.append` calls on initially empty networks (0 = outermost).  The items
    of every network are appended in order, in 1-3 calls; the calls of different networks are interleaved, so that a nested
    network receives modules after it was appended to its parent (and the parent to ITS parent)."""
    nets = []

    def walk(items):
        k = len(nets)
        nets.append(None)
        nets[k] = [{"ref": walk(it["net"])} if "net" in it else it for it in items]
        return k
    walk(prog)
    queues = []
    for k, lst in enumerate(nets):
        chunks, i = [], 0
        while i < len(lst):
            ln = rng.randint(1, len(lst) - i) if rng.random() < 0.6 else 1
            chunks.append(lst[i:i + ln])
            i += ln
        if rng.random() < 0.1:
            chunks.insert(rng.randint(0, len(chunks)), [])      # append() of nothing returns early
        queues.append(chunks)
    events = []
    mode = rng.choice(["outer_first", "outer_first", "random", "random", "inner_first"])
    if mode == "outer_first":        # every nested network is still empty when it is nested and is filled afterwards
        for k, ch in enumerate(queues):
            events += [[k, c] for c in ch]
    elif mode == "inner_first":      # the classical way: complete networks are nested
        for k in reversed(range(len(queues))):
            events += [[k, c] for c in queues[k]]
    else:
        left = [k for k, ch in enumerate(queues) if ch]
        while left:
            k = rng.choice(left)
            events.append([k, queues[k].pop(0)])
            if not queues[k]:
                left.remove(k)
    return {"nnets": len(nets), "events": events, "mode": mode}


def make_late_case(rng, quick):
    nm = rng.randint(2, 9) if quick else rng.randint(2, 16)
    g = Gen(rng, nm, rng.choice([2, 4, 4, 6]))
    spec = g.spec(depth=rng.choice([1, 2, 3]))
    prog = spec["prog"]
    if depth_of(prog) == 1:           # make sure something is nested: a suffix of the module list becomes a sub-network
        k = rng.randint(0, len(prog) - 1)
        prog = prog[:k] + [{"net": prog[k:]}]
        if rng.random() < 0.4 and len(prog[-1]["net"]) >= 2:
            j = rng.randint(1, len(prog[-1]["net"]) - 1)
            prog[-1]["net"] = prog[-1]["net"][:j] + [{"net": prog[-1]["net"][j:]}]
        spec["prog"] = prog
    spec["build"] = make_build(rng, spec["prog"])
    spec["ops"] = gen_ops(rng, g, spec, rounds=rng.choice([2, 2, 3]))
    if spec["ops"] and spec["ops"][0][0] == "resp" and len(spec["build"]["events"]) >= 2 and rng.random() < 0.5:
        # half of the late cases: the incomplete networks are used once before one of the later append() calls
        spec["build"]["warm"] = rng.randint(1, len(spec["build"]["events"]) - 1)
    spec["sigs"] = g.sigs
    spec["deg"] = max(list(g.deg.values()) + [1])
    return spec


# ------------------------------------------------------------------------------------------------------------------
# malformed stream
# ------------------------------------------------------------------------------------------------------------------
def make_malformed(rng):
    g = Gen(rng, rng.randint(1, 4), 4)
    spec = g.spec(depth=rng.choice([0, 1]))
    mods = flat_mods(spec["prog"])
    kind = rng.choice(["nostate", "slice_out_nostate", "arity", "seed_slice_nostate", "double_write", "read_before_write",
                       "sens_first"])
    ops = None
    if kind == "nostate":
        srcs = [b for b in g.consumed if not g.written[b]]
        if srcs:
            g.bases[rng.choice(srcs)]["state"] = None
    elif kind == "slice_out_nostate":
        cont = [g.sigs[s]["base"] for m in mods for s in m["outs"] if g.sigs[s]["idx"] is not None]
        if cont:
            g.bases[rng.choice(cont)]["state"] = None
    elif kind == "arity":
        m = rng.choice(mods)
        if rng.random() < 0.5 and m["osz"]:
            m["osz"] = m["osz"][:-1]
        else:
            m["osz"] = m["osz"] + [0]
    elif kind == "seed_slice_nostate":
        b = g.new_base(3, None, shape=[3])
        sid = g.sig(b, ["slice", 0, 2, 1])
        ops = [["resp"], ["seed", sid, [1, 2]], ["sens"]]
    elif kind == "double_write":
        cands = [m for m in mods if m["outs"]]
        if cands:
            m = copy.deepcopy(rng.choice(cands))
            pos = rng.randint(0, len(spec["prog"]))
            spec["prog"].insert(pos, m)
    elif kind == "read_before_write":
        if len(spec["prog"]) >= 2:
            rng.shuffle(spec["prog"])
    elif kind == "sens_first":
        ops = None
    spec["kind"] = kind
    if ops is None:
        ops = gen_ops(rng, g, spec)
        if kind == "sens_first":
            ops = [o for o in ops if o[0] != "resp"]
    spec["ops"] = ops
    spec["sigs"] = g.sigs
    spec["deg"] = 0
    return spec


# ------------------------------------------------------------------------------------------------------------------
# the real implementation
# ------------------------------------------------------------------------------------------------------------------
def build(spec, dtype=np.int64, flatten=False):
    """real signals / modules / network of a spec.  `inspect.stack()` in pymoto's `get_init_loc` (the diagnostic
    "initialized in file:line" string, ~7 ms per object) is stubbed while constructing; it plays no role in the dispatch."""
    import pymoto.core_objects as co
    saved = co.get_init_loc
    co.get_init_loc = lambda: ("N/A", "N/A", "N/A")
    try:
        return _build(spec, dtype, flatten)
    finally:
        co.get_init_loc = saved


def _build(spec, dtype=np.int64, flatten=False):
    pm = _pm()
    GenMod = genmod_class()
    bases = []
    for i, b in enumerate(spec["bases"]):
        shp = base_shape(b)
        st = None if b["state"] is None else np.array(b["state"], dtype=dtype).reshape(shp)
        se = None if b["sens"] is None else np.array(b["sens"], dtype=dtype).reshape(shp)
        bases.append(pm.Signal(f"b{i}", state=st, sensitivity=se))
    sigs = []
    for s in spec["sigs"]:
        o = bases[s["base"]]
        if s["idx"] is not None:
            for ix in sl_obj(s["sl"]):
                o = o[ix]
        sigs.append(o)

    def mkmod(it):
        kw = {"dtype": dtype, "out_shapes": [sig_shape(spec, i) for i in it["outs"]]}
        if it["k"] == "lin":
            kw["A"] = it["A"]
        if it["k"] == "fan":
            kw["n"] = it["n"]
        return GenMod([sigs[i] for i in it["ins"]], [sigs[i] for i in it["outs"]], it["k"], it["osz"], **kw)

    def mk(items):
        return [pm.Network(mk(it["net"])) if "net" in it else mkmod(it) for it in items]
    if spec.get("build") and not flatten:
        # networks put together by append() calls in the given order; a nested network may be extended after it was nested
        nets = [pm.Network() for _ in range(spec["build"]["nnets"])]
        warm = spec["build"].get("warm")
        for ev, (k, items) in enumerate(spec["build"]["events"]):
            if warm is not None and ev == warm and ev > 0:
                # the network is USED (response, seed, sensitivity, reset) while it is still incomplete and extended afterwards:
                # whatever a network derives from its module list at first use must follow later append() calls.  All signals
                # are put back to their initial data, so the recorded operations see exactly what the model sees.
                import contextlib, io
                for nk in nets:
                    try:
                        with contextlib.redirect_stdout(io.StringIO()):
                            nk.response()
                            for sg_ in nk.sig_out:
                                if sg_.state is not None:
                                    sg_.sensitivity = np.ones_like(sg_.state)
                            nk.sensitivity()
                            nk.reset()
                    except Exception:
                        pass
                for i, b in enumerate(spec["bases"]):
                    shp = base_shape(b)
                    bases[i].state = None if b["state"] is None else np.array(b["state"], dtype=dtype).reshape(shp)
                    bases[i].sensitivity = None if b["sens"] is None else np.array(b["sens"], dtype=dtype).reshape(shp)
            nets[k].append([nets[it["ref"]] if "ref" in it else mkmod(it) for it in items])
        net = nets[0]
        net._all_nets = nets
    else:
        items = flat_mods(spec["prog"]) if flatten else spec["prog"]
        net = pm.Network(mk(items))
        net._all_nets = []
    # the timing option selects a SECOND implementation of the dispatch loops in Network: it must be the same dispatch
    tsel = spec.get("timing", (len(spec.get("ops") or []) + 3 * len(spec["sigs"])) % 4)
    timing = {0: 1e9, 1: 1e9}.get(tsel, False)   # (a numeric threshold takes the same branch as True, without printing)

    def set_timing(nw):
        nw.print_timing = timing
        for mm in nw.mods:
            if isinstance(mm, pm.Network):
                set_timing(mm)
    set_timing(net)
    for nk in net._all_nets:
        nk.print_timing = timing
    return net, bases, sigs


def sig_shape(spec, sid):
    sg = spec["sigs"][sid]
    return sl_shape(sg["sl"] if sg["idx"] is not None else None, base_shape(spec["bases"][sg["base"]]))


def _tolist(a):
    if a is None:
        return None
    return [int(v) for v in np.asarray(a).ravel().tolist()]


def snapshot(bases):
    return {"st": [_tolist(b.state) for b in bases], "se": [_tolist(b.sensitivity) for b in bases]}


def run_impl(spec, dtype=np.int64, flatten=False):
    with warnings.catch_warnings():
        warnings.simplefilter("ignore")
        net, bases, sigs = build(spec, dtype, flatten)
        ids = {id(s): i for i, s in enumerate(sigs)}
        out = {"snaps": [], "err": None,
               "sigin": sorted(ids[id(s)] for s in net.sig_in), "sigout": sorted(ids[id(s)] for s in net.sig_out),
               "netsig": [[sorted(ids[id(s)] for s in nk.sig_in), sorted(ids[id(s)] for s in nk.sig_out)]
                          for nk in net._all_nets]}
        import contextlib, io
        def silent(fn):
            def g():
                with contextlib.redirect_stdout(io.StringIO()):
                    return fn()
            return g
        for op in spec["ops"]:
            name = op[0]
            if name == "resp":
                r = call_impl(silent(net.response))
            elif name == "sens":
                r = call_impl(silent(net.sensitivity))
            elif name == "reset":
                r = call_impl(silent(net.reset))
            elif name == "seed":
                def f(sid=op[1], v=op[2]):
                    sigs[sid].sensitivity = None if v is None else np.array(v, dtype=dtype).reshape(sig_shape(spec, sid))
                r = call_impl(f)
            elif name == "set":
                def f(sid=op[1], v=op[2]):
                    sigs[sid].state = np.array(v, dtype=dtype).reshape(sig_shape(spec, sid))
                r = call_impl(f)
            else:
                continue
            if r[0] == "err":
                out["err"] = r[1]
                out["msg"] = r[2][:300]
                break
            out["snaps"].append(snapshot(bases))
        return out


def model_req(spec):
    req = {"m": "c02.run", "bases": [{k: b[k] for k in ("len", "keep", "state", "sens")} for b in spec["bases"]],
           "sigs": [{"base": s["base"], "idx": s["idx"]} for s in spec["sigs"]],
           "prog": spec["prog"], "ops": spec["ops"]}
    if spec.get("build"):
        req["build"] = spec["build"]
    return req


# ------------------------------------------------------------------------------------------------------------------
# oracle on the real code: total derivative by exact forward differences and by dual numbers
# ------------------------------------------------------------------------------------------------------------------
class Dual:
    __slots__ = ("a", "b")

    def __init__(self, a, b=0):
        self.a, self.b = a, b

    def __add__(self, o):
        return Dual(self.a + o.a, self.b + o.b) if isinstance(o, Dual) else Dual(self.a + o, self.b)
    __radd__ = __add__

    def __mul__(self, o):
        return Dual(self.a * o.a, self.a * o.b + self.b * o.a) if isinstance(o, Dual) else Dual(self.a * o, self.b * o)
    __rmul__ = __mul__


def _first_round(spec):
    """(seeds of the first round, True) when the ops start with resp, seeds, sens"""
    ops = spec["ops"]
    if not ops or ops[0][0] != "resp":
        return None
    seeds = []
    for op in ops[1:]:
        if op[0] == "seed":
            seeds.append(op)
        elif op[0] == "sens":
            return seeds
        else:
            return None
    return None


def source_entries(spec):
    """(base, entry) pairs that hold a value and are written by no module"""
    written = set()
    for m in flat_mods(spec["prog"]):
        for s in m["outs"]:
            sg = spec["sigs"][s]
            n = spec["bases"][sg["base"]]["len"]
            for e in (range(n) if sg["idx"] is None else sg["idx"]):
                written.add((sg["base"], e))
    return [(b, e) for b, bd in enumerate(spec["bases"]) if bd["state"] is not None
            for e in range(bd["len"]) if (b, e) not in written]


def connected_entries(spec):
    """(base, entry) pairs covered by a signal that is attached to some module"""
    out = set()
    for m in flat_mods(spec["prog"]):
        for sid in list(m["ins"]) + list(m["outs"]):
            sg = spec["sigs"][sid]
            n = spec["bases"][sg["base"]]["len"]
            for e in (range(n) if sg["idx"] is None else sg["idx"]):
                out.add((sg["base"], e))
    return out


def oracle(spec, rng=None, max_fd=4, flat_check=True):
    """returns None or (what, detail).  Only for well-formed programs whose ops start with resp, seeds, sens.
    EVERY sweep that follows a response is checked: the sensitivities it leaves on the source entries must be the
    derivative of the seeded combination of the states.  The seed vector of the first sweep (and of a sweep that follows
    another sweep without reset) is what the signals hold just before it; for a sweep that follows a reset() it is what
    was seeded since that reset (reset() must have cleared every signal attached to a module), so sensitivities that
    survive a reset and are propagated in the next round are a violation."""
    if _first_round(spec) is None:
        return None
    with warnings.catch_warnings():
        warnings.simplefilter("ignore")
        # the real network on python-int data: exact, no overflow
        net, bases, sigs = build(spec, dtype=object)
        srcs = source_entries(spec)
        conn = connected_entries(spec)
        D = int(spec.get("deg", 0))

        def vec():
            return [None if b.sensitivity is None else [int(v) for v in np.asarray(b.sensitivity).ravel()] for b in bases]

        def check(wvec, back, restrict, sweep_no):
            cur = [None if b.state is None else list(np.asarray(b.state).ravel()) for b in bases]

            def g_of():
                tot = 0
                for b, w in enumerate(wvec):
                    if w is None:
                        continue
                    st = np.asarray(bases[b].state).ravel()
                    for e, we in enumerate(w):
                        if we != 0:
                            tot = tot + we * st[e]
                return tot

            def evaluate(pert):
                """response from the current source states with pert = {(b,e): value} replaced"""
                for b, bd in enumerate(spec["bases"]):
                    if cur[b] is None:
                        bases[b].state = None
                    else:
                        a = np.array(cur[b], dtype=object)
                        for (pb, pe), v in pert.items():
                            if pb == b:
                                a[pe] = v
                        bases[b].state = a.reshape(base_shape(bd))
                net.response()
                return g_of()

            probe_all = [be for be in srcs if cur[be[0]] is not None and (not restrict or be in conn)]
            try:
                for (b, e) in probe_all:   # forward-mode dual numbers on every source entry
                    gd = evaluate({(b, e): Dual(cur[b][e], 1)})
                    d = gd.b if isinstance(gd, Dual) else 0
                    got = 0 if back[b] is None else back[b][e]
                    if d != got:
                        return ("back-propagated sensitivity differs from the total derivative (dual numbers)"
                                + (" in a round that follows reset(): sensitivities survived the reset" if restrict else ""),
                                {"sweep": sweep_no, "base": b, "entry": e, "derivative": int(d), "sensitivity": int(got)})
                if 1 <= D <= DEG_CAP and probe_all:   # exact forward differences (Newton series up to the degree)
                    probe = probe_all if rng is None or len(probe_all) <= max_fd else rng.sample(probe_all, max_fd)
                    for (b, e) in probe:
                        vals = [evaluate({(b, e): cur[b][e] + t}) for t in range(D + 1)]
                        diffs = list(vals)
                        deriv = Fraction(0)
                        for k in range(1, D + 1):
                            diffs = [diffs[i + 1] - diffs[i] for i in range(len(diffs) - 1)]
                            deriv += Fraction((-1) ** (k + 1) * diffs[0], k)
                        got = 0 if back[b] is None else back[b][e]
                        if deriv != got:
                            return ("back-propagated sensitivity differs from the total derivative (exact forward differences)",
                                    {"sweep": sweep_no, "base": b, "entry": e, "derivative": str(deriv), "sensitivity": int(got),
                                     "order": D})
            finally:
                evaluate({})
            return None

        expect = None       # expected seed vector of the next sweep when it follows a reset()
        fresh = False       # the states are those of a response() of the current inputs
        sweep_no = 0
        for op in spec["ops"]:
            name = op[0]
            if name == "resp":
                net.response()
                fresh = True
            elif name == "set":
                sigs[op[1]].state = np.array(op[2], dtype=object).reshape(sig_shape(spec, op[1]))
                fresh = False
            elif name == "seed":
                sid, v = op[1], op[2]
                sigs[sid].sensitivity = None if v is None else np.array(v, dtype=object).reshape(sig_shape(spec, sid))
                if expect is not None:
                    sg = spec["sigs"][sid]
                    n = spec["bases"][sg["base"]]["len"]
                    idx = list(range(n)) if sg["idx"] is None else sg["idx"]
                    for j, e in enumerate(idx):
                        expect[sg["base"]][e] = 0 if v is None else int(v[j])
            elif name == "reset":
                net.reset()
                act = vec()
                expect = [[0] * bd["len"] if a is None else list(a) for a, bd in zip(act, spec["bases"])]
                for (b, e) in conn:
                    expect[b][e] = 0
            elif name == "sens":
                wvec = expect if expect is not None else vec()
                restrict = expect is not None
                net.sensitivity()
                if fresh:
                    why = check(wvec, vec(), restrict, sweep_no)
                    if why:
                        return why
                expect = None
                sweep_no += 1
    if flat_check and depth_of(spec["prog"]) > 1:
        a = run_impl(spec)
        f = run_impl(spec, flatten=True)
        if a["snaps"] != f["snaps"] or a["err"] != f["err"]:
            return ("nested network differs from its flattening", {"nested": a["snaps"][-1:], "flat": f["snaps"][-1:]})
    return None


def spec_size(spec):
    return len(json.dumps(spec, default=str))


# ------------------------------------------------------------------------------------------------------------------
# correspondence
# ------------------------------------------------------------------------------------------------------------------
def _maxabs(res):
    m = 0
    for sn in res.get("snaps", []):
        for col in ("st", "se"):
            for l in sn[col]:
                if l:
                    m = max(m, max(abs(v) for v in l))
    return m


def _strip(spec):
    return {k: v for k, v in spec.items() if k not in ("m",)}



# ------------------------------------------------------------------------------------------------------------------
# object-valued (DyadCarrier) sensitivities travelling along several paths: summed, each exactly once
# ------------------------------------------------------------------------------------------------------------------
def dyad_path_cases(ctx, n):
    """networks over MATRIX signals whose sensitivities are DyadCarriers (the sparse-matrix sensitivity type):
    MatVec(A, x) -> y returns dA = dy x^T as a DyadCarrier, MatSum(A, B) -> C returns the SAME object for both
    inputs. Every admissible module order and seed subset must give the dense total derivative."""
    pm = _pm()
    from pymoto import DyadCarrier
    import itertools
    rng = ctx.rng

    class MatVec(pm.Module):
        def _response(self, A, x):
            return A @ x

        def _sensitivity(self, dy):
            A, x = [s.state for s in self.sig_in]
            return DyadCarrier(dy, x), A.T @ dy

    class MatSum(pm.Module):
        def _response(self, A, B):
            return A + B

        def _sensitivity(self, dC):
            return dC, dC

    for t in range(n):
        m, k = rng.randint(1, 3), rng.randint(1, 3)
        A0 = np.array([[rng.randint(-3, 3) for _ in range(k)] for _ in range(m)], dtype=float)
        B0 = np.array([[rng.randint(-3, 3) for _ in range(k)] for _ in range(m)], dtype=float)
        xs = [np.array([rng.randint(-3, 3) for _ in range(k)], dtype=float) for _ in range(3)]
        sA, sB = pm.Signal("A", A0.copy()), pm.Signal("B", B0.copy())
        sx = [pm.Signal(f"x{i}", x.copy()) for i, x in enumerate(xs)]
        sC = pm.Signal("C")
        ya, yb, yc = pm.Signal("ya"), pm.Signal("yb"), pm.Signal("yc")
        mods = {"a": MatVec([sA, sx[0]], [ya]), "b": MatVec([sB, sx[1]], [yb]), "s": MatSum([sA, sB], [sC]),
                "c": MatVec([sC, sx[2]], [yc])}
        use = ["s", "c"] + [q for q in ("a", "b") if rng.random() < 0.7]
        orders = [o for o in itertools.permutations(use) if o.index("s") < o.index("c")]
        order = orders[rng.randrange(len(orders))]
        net = pm.Network([mods[q] for q in order])
        seeds = {}
        for q, sig in (("a", ya), ("b", yb), ("c", yc)):
            if q in use and rng.random() < 0.8:
                seeds[q] = np.array([rng.randint(-3, 3) for _ in range(m)], dtype=float)
        if "c" not in seeds and rng.random() < 0.7:
            seeds["c"] = np.array([rng.randint(-3, 3) for _ in range(m)], dtype=float)
        r = call_impl(net.response)
        if r[0] == "err":
            ctx.oracle_fail(f"matrix network raised {r[2][:200]}", {"stream": "dyad-paths", "order": order})
            continue
        for q, sig in (("a", ya), ("b", yb), ("c", yc)):
            if q in seeds:
                sig.sensitivity = seeds[q].copy()
        r = call_impl(net.sensitivity)
        ctx.evaluations += 1
        ctx.branch("dyad-paths." + "".join(order))
        if r[0] == "err":
            ctx.oracle_fail(f"matrix network sensitivity raised {r[2][:200]}", {"stream": "dyad-paths", "order": order})
            continue
        z = np.zeros((m, k))
        dC = np.outer(seeds["c"], xs[2]) if "c" in seeds else z
        wantA = dC + (np.outer(seeds["a"], xs[0]) if "a" in seeds else z)
        wantB = dC + (np.outer(seeds["b"], xs[1]) if "b" in seeds else z)

        def dense(v):
            return z if v is None else (v.todense() if hasattr(v, "todense") else np.asarray(v))
        gA, gB = dense(sA.sensitivity), dense(sB.sensitivity)
        if not (np.array_equal(gA, wantA) and np.array_equal(gB, wantB)):
            ctx.oracle_fail(f"DyadCarrier sensitivities along two paths are not summed once each: module order {order}, seeds on "
                            f"{sorted(seeds)}: dA = {gA.tolist()} (expected {wantA.tolist()}), dB = {gB.tolist()} (expected {wantB.tolist()})",
                            {"stream": "dyad-paths", "order": list(order), "seeds": {q: v.tolist() for q, v in seeds.items()},
                             "A": A0.tolist(), "B": B0.tolist(), "x": [x.tolist() for x in xs]})
        else:
            ctx.distinct.add(("dyad-paths", order, tuple(sorted(seeds)), m, k))


def correspondence(ctx):
    rng = ctx.rng
    dyad_path_cases(ctx, 80 if ctx.quick else 1500)
    n_main = 450 if ctx.quick else 2500
    n_small = 200 if ctx.quick else 800
    n_bad = 150 if ctx.quick else 600
    specs = []
    import glob
    import os
    from ..common import VERIF
    for f in sorted(glob.glob(os.path.join(VERIF, "corpus", "C02", "*.json"))):   # fixed regression cases run first
        sp = json.load(open(f))
        sp.pop("note", None)
        specs.append(("corpus", sp))
    for i in range(n_main):
        specs.append(("main", make_case(rng, ctx.quick)))
    for i in range(n_small):
        specs.append(("small", make_case(rng, ctx.quick, small=True)))
    for i in range(150 if ctx.quick else 900):
        specs.append(("late", make_late_case(rng, ctx.quick)))
    for i in range(n_bad):
        specs.append(("malformed", make_malformed(rng)))
    res = ctx.model([model_req(s) for _, s in specs])
    n_oracle = 0
    for (stream, spec), m in zip(specs, res):
        if "ok" not in m:
            if m.get("err") == "IllSized":
                ctx.branch("illsized_skipped")
                continue
            ctx.disagree(stream, _strip(spec), None, m, "model error")
            continue
        mo = m["ok"]
        if _maxabs(mo) >= LIMIT:
            ctx.skipped_boundary += 1
            continue
        impl = run_impl(spec)
        CMP = ("snaps", "err", "sigin", "sigout", "netsig")
        impl_cmp = {k: impl[k] for k in CMP}
        mods = flat_mods(spec["prog"])
        nontrivial = impl["err"] is not None or any(any(x is not None for x in sn["se"]) for sn in impl["snaps"])
        ok = ctx.compare_exact(stream, _strip(spec), impl_cmp, {k: mo[k] for k in CMP},
                               key=(stream, json.dumps(_strip(spec), sort_keys=True)), nontrivial=nontrivial)
        # the hypotheses of the chain-rule theorems (`Prog.ssaEntries`, `Prog.rawOrdered`, evaluated by the model on this very
        # program) must hold for every generated well-formed program; the malformed stream shows that they discriminate
        if "ssa" in mo:
            ctx.branch(f"{'malformed' if stream == 'malformed' else 'wellformed'}.ssa={mo['ssa']}.raw={mo['raw']}")
            if stream != "malformed" and not (mo["ssa"] and mo["raw"]):
                ctx.disagree(stream, _strip(spec), "generated as single-assignment and read-after-write ordered",
                             {"ssa": mo["ssa"], "raw": mo["raw"]}, "program outside the hypotheses of backprop_is_total_derivative_of_response")
        # bookkeeping
        ctx.branch(f"{stream}.mods={min(len(mods), 40) // 5 * 5}+")
        ctx.branch(f"{stream}.depth={depth_of(spec['prog'])}")
        for mm in mods:
            ctx.branch("kind." + mm["k"])
            if len(set(mm["ins"])) < len(mm["ins"]):
                ctx.branch("repeated_input")
        for s in spec["sigs"]:
            ctx.branch("sig." + slice_kind(s["sl"]) + (".2d" if len(base_shape(spec["bases"][s["base"]])) == 2 else ""))
        if impl["err"]:
            ctx.branch("err." + impl["err"])
        if stream == "malformed":
            ctx.branch("malformed." + spec.get("kind", "?"))
        if stream == "late":
            ctx.branch("late.order=" + spec["build"]["mode"])
            ctx.branch("late.nets=%d" % min(spec["build"]["nnets"], 5))
            all_out = sorted({sid for mm in mods for sid in mm["outs"]})
            ctx.branch("late.outer_sig_out_" + ("stale" if impl["sigout"] != all_out else "complete"))
            ctx.branch("late.rounds=%d" % sum(1 for o in spec["ops"] if o[0] == "sens"))
        seeds = _first_round(spec)
        if seeds is not None:
            ctx.branch("seeds=%d" % min(len(seeds), 4))
        if len(ctx.samples) < 3 and ok and stream == "main" and len(mods) <= 5 and nontrivial:
            ctx.sample({"spec": _strip(spec), "last_snapshot": impl["snaps"][-2:] if impl["snaps"] else None})
        # the property itself on the real code
        if stream != "malformed" and impl["err"] is None and seeds is not None:
            why = oracle(spec, rng)
            n_oracle += 1
            ctx.branch("oracle.cases")
            if why:
                ctx.oracle_fail(why[0], {"spec": _strip(spec), "detail": why[1]})
    ctx.notes.append(f"oracle (dual numbers on all source entries, forward differences up to order {DEG_CAP} on <= 4) run on {n_oracle} cases")

    # self-test of the comparison: a deliberately wrong input stream must be seen as a disagreement
    if not ctx.quick:
        spec = make_case(rng, True, small=True)
        bad = copy.deepcopy(spec)
        for b in bad["bases"]:
            if b["state"] is not None:
                b["state"] = [v + 1 for v in b["state"]]
                break
        mo = ctx.model([model_req(bad)])[0].get("ok")
        impl = run_impl(spec)
        if mo is not None and mo["snaps"] == impl["snaps"]:
            ctx.notes.append("self-test: perturbed model input was NOT detected")
            ctx.disagree("selftest", _strip(spec), impl["snaps"][:1], mo["snaps"][:1], "self-test failed")
        else:
            ctx.branch("selftest.detected")


# ------------------------------------------------------------------------------------------------------------------
# search / replay
# ------------------------------------------------------------------------------------------------------------------
def search(ctx, disagreements):
    found = []
    seen = set()
    for d in disagreements:
        spec = d.get("case")
        if not isinstance(spec, dict) or "prog" not in spec or d.get("stream") == "malformed":
            continue
        key = json.dumps(spec, sort_keys=True, default=str)
        if key in seen:
            continue
        seen.add(key)
        r = call_impl(oracle, spec, None, 10 ** 6)
        if r[0] == "err":
            found.append({"what": f"network raises {r[2][:300]}", "witness": {"spec": spec}})
        elif r[1]:
            found.append({"what": r[1][0], "witness": {"spec": spec, "detail": r[1][1]}})
        if len(found) >= 3:
            break
    if not found:
        # sweep of fresh small programs with the full oracle
        for i in range(300 if ctx.quick else 3000):
            spec = make_late_case(ctx.rng, True) if i % 3 == 2 else make_case(ctx.rng, True, small=(i % 2 == 0))
            r = call_impl(oracle, spec, None, 10 ** 6)
            if r[0] == "err":
                found.append({"what": f"network raises {r[2][:300]}", "witness": {"spec": _strip(spec)}})
            elif r[1]:
                found.append({"what": r[1][0], "witness": {"spec": _strip(spec), "detail": r[1][1]}})
            if len(found) >= 5:
                break
    found.sort(key=lambda w: spec_size(w["witness"].get("spec", {})))
    return found


def replay(ctx, data):
    w = data.get("witness", {})
    w = w.get("witness", w)
    spec = w.get("spec")
    if not spec:
        return {"still_failing": False, "note": "replay file names no failing input (see no_longer_checks)"}
    r = call_impl(oracle, spec, None, 10 ** 6)
    if r[0] == "err":
        return {"still_failing": True, "what": r[2]}
    return {"still_failing": bool(r[1]), "what": r[1][0] if r[1] else None, "detail": r[1][1] if r[1] else None}
