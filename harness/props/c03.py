"""C03 — results depend only on current inputs and seeds, never on call history.

correspondence: the generic component model (`Core/Component.lean`, driver op c03.history) against the REAL
                Module/Signal dispatch of core_objects.py, through a harness-defined caching pymoto.Module
                with integer data (exact): after every operation of a random protocol-respecting history the
                states, seeds and accumulated sensitivities must be equal.
oracle/search : on the real library modules (module zoo, incl. every caching one) and on small networks:
                after a random history, `reset; set inputs; response; seed; sensitivity` must equal a freshly
                constructed identical module/network evaluated once (documented memories exempt).
"""
import warnings

import numpy as np
import scipy.sparse as sps

from ..common import call_impl
from .. import zoo

RULE = ("toy-module histories: random protocol-respecting op sequences (len 6-20 quick, -60 thorough) over "
        "{set,response,seed,sensitivity,reset}, compared with the Lean component model after every op (exact, int64); "
        "library histories: every zoo module family + LinSolve matrix-class changes + FE networks, final cycle vs fresh "
        "instance. distinct = distinct histories (toy) / distinct module configurations (library)")
ASSUMPTIONS = ["documented memories are exempt: Scaling's first-value scale factor is copied to the fresh instance; "
               "damped AggScaling is not generated",
               "sparse EigenSolve (ARPACK random start vector) is compared to 1e-6 only in the thorough tier"]


def _pm():
    import pymoto
    return pymoto


# ----------------------------------------------------------------------------------------------
# toy module (same definition as `toy a b` in Drv/C03.lean)
# ----------------------------------------------------------------------------------------------
def make_toy(a, b, x0):
    pm = _pm()

    class Toy(pm.Module):
        def _prepare(self):
            self.k = None

        def _response(self, x):
            self.k = x * x
            return a * x + b

        def _sensitivity(self, w):
            return self.k * w + self.sig_in[0].state

    sx = pm.Signal("x", np.array(x0, dtype=np.int64))
    m = Toy([sx])
    return m, sx


def gen_history(rng, n, length):
    ops = []
    fresh, seeded = False, False
    for _ in range(length):
        r = rng.random()
        if r < 0.22:
            ops.append({"op": "set", "x": [rng.randint(-4, 4) for _ in range(n)]})
            fresh = False
        elif r < 0.47:
            ops.append({"op": "response"})
            fresh = True
        elif r < 0.67 and fresh:
            # seeding needs an output state to exist (the property's protocol: seed after a response)
            ops.append({"op": "seed", "w": [rng.randint(-3, 3) for _ in range(n)]})
            seeded = True
        elif r < 0.87:
            if fresh or not seeded:
                ops.append({"op": "sensitivity"})
            else:
                ops.append({"op": "response"})
                fresh = True
        else:
            ops.append({"op": "reset"})
            seeded = False
    return ops


def run_toy(a, b, x0, ops):
    m, sx = make_toy(a, b, x0)
    out = []
    for op in ops:
        k = op["op"]
        if k == "set":
            sx.state = np.array(op["x"], dtype=np.int64)
        elif k == "response":
            m.response()
        elif k == "seed":
            m.sig_out[0].sensitivity = np.array(op["w"], dtype=np.int64)
        elif k == "sensitivity":
            m.sensitivity()
        elif k == "reset":
            m.reset()

        def lst(v):
            return None if v is None else np.asarray(v).tolist()
        out.append({"x": lst(sx.state), "y": lst(m.sig_out[0].state), "w": lst(m.sig_out[0].sensitivity),
                    "g": lst(sx.sensitivity)})
    return out


# ----------------------------------------------------------------------------------------------
# history oracle on library modules
# ----------------------------------------------------------------------------------------------
def _snap(m, sigs):
    return ([zoo.vcopy(s.state) for s in m.sig_out], [zoo.vcopy(s.sensitivity) for s in sigs])


def _cmp(a, b, rtol):
    if a is None or b is None:
        return (a is None and b is None), "None mismatch"
    A, B = zoo.todense(a), zoo.todense(b)
    if A.shape != B.shape:
        return False, f"shape {A.shape} vs {B.shape}"
    sc = max(float(np.max(np.abs(B))) if B.size else 0.0, 1e-300)
    err = float(np.max(np.abs(A - B))) if B.size else 0.0
    return err <= rtol * sc + 1e-13, f"max|diff| = {err:.3e} (scale {sc:.3e})"


def _zero_cols(rng, case, seeds):
    """components with per-mode / per-column caches (sparse EigenSolve): seeds with all-zero columns, differently in every pass"""
    if not getattr(case, "warm_full", False):
        return seeds
    out = []
    for w in seeds:
        if isinstance(w, np.ndarray) and w.ndim == 2 and w.shape[1] > 1 and rng.random() < 0.8:
            w = w.copy()
            keep = rng.random(w.shape[1]) < 0.5
            if keep.all() or not keep.any():
                keep[int(rng.integers(0, w.shape[1]))] ^= True
            w[:, ~keep] = 0
        out.append(w)
    return out


def history_oracle(case, rng, nhist, rtol=1e-6, points=None):
    """returns None or a failure description. `points`: optional list of input-state lists to visit"""
    pm = _pm()
    m, sigs = case.make()
    zoo.vary_layout(rng, sigs)
    if getattr(m, "scaling", None) is not None and hasattr(m.scaling, "damping"):
        m.scaling.damping = 0.0  # damped AggScaling is a documented memory (exempt)
    base = [zoo.vcopy(s.state) for s in sigs]

    visit = [0]

    def point():
        if points is not None:  # visited in order (the generator orders them adversarially), cyclically
            visit[0] += 1
            return [zoo.vcopy(v) for v in points[visit[0] % len(points)]]
        vs = case.dirs(rng, base) if case.dirs else zoo._default_dirs(rng, base)
        t = float(rng.uniform(0.15, 1.0)) * case.hist_scale
        xs = max([zoo.maxabs(x) for x in base] + [1e-3])
        vn = max([zoo.maxabs(v) for v in vs if v is not None] + [1e-12])
        pt = [zoo.axpy(x, t * xs / vn, v) for x, v in zip(base, vs)]
        if case.clip is not None:
            pt[0] = np.clip(pt[0], *case.clip)
        return pt

    fresh_ok = False
    if points is not None:
        # prime: the first matrix / design of the list is fully used (response, seeded sensitivity, reset) before anything else, so
        # that whatever is detected or allocated "at first use" belongs to it
        m.response()
        for so, w in zip(m.sig_out, _zero_cols(rng, case, zoo._make_seeds(rng, m, case, partial=False))):
            if w is not None:
                so.sensitivity = zoo.vcopy(w)
        m.sensitivity()
        m.reset()
    for _ in range(nhist):
        r = rng.random()
        if r < 0.3:
            if points is not None:
                m.reset()  # the visited points change dtype (real/complex): accumulating across them raises in numpy
            zoo._set_states(sigs, point())
            fresh_ok = False
        elif r < 0.6:
            m.response()
            fresh_ok = True
        elif r < 0.8 and fresh_ok:
            seeds = _zero_cols(rng, case, zoo._make_seeds(rng, m, case, partial=True))
            for so, w in zip(m.sig_out, seeds):
                if w is not None:
                    so.sensitivity = zoo.vcopy(w)
            m.sensitivity()
        elif r < 0.9 and fresh_ok:
            m.sensitivity()
        else:
            m.reset()
    # final cycle
    m.reset()
    for s in list(sigs) + list(m.sig_out):
        if s.sensitivity is not None and zoo.maxabs(s.sensitivity) != 0:
            return f"{case.name}: reset() left a sensitivity on '{s.tag}'"
    xf = point()
    zoo._set_states(sigs, xf)
    m.response()
    # sensitivity() without any seed must change nothing
    m.sensitivity()
    for s in sigs:
        if s.sensitivity is not None and zoo.maxabs(s.sensitivity) != 0:
            return f"{case.name}: sensitivity() without a seed produced a sensitivity on '{s.tag}'"
    # several seeded sensitivity passes (independent seeds, reset in between) after ONE response: caches filled by the first
    # pass (LDAS data bases, per-mode adjoint solvers) must not change what the later passes return
    npass = int(rng.integers(1, 4))
    all_seeds, hist = [], []
    for k in range(npass):
        seeds = _zero_cols(rng, case, zoo._make_seeds(rng, m, case, partial=True))
        all_seeds.append(seeds)
        for so, w in zip(m.sig_out, seeds):
            if w is not None:
                so.sensitivity = zoo.vcopy(w)
        m.sensitivity()
        hist.append(_snap(m, sigs))
        if k < npass - 1:
            m.reset()
    # fresh instance, same inputs, same passes
    m2, sigs2 = case.make()
    if getattr(m2, "scaling", None) is not None and hasattr(m2.scaling, "damping"):
        m2.scaling.damping = 0.0
    if isinstance(m2, pm.Scaling) and hasattr(m, "sf"):
        m2.sf = m.sf  # documented memory (exempt)
    zoo._set_states(sigs2, xf)
    m2.response()
    fresh = []
    for k in range(npass):
        for so, w in zip(m2.sig_out, all_seeds[k]):
            if w is not None:
                so.sensitivity = zoo.vcopy(w)
        m2.sensitivity()
        fresh.append(_snap(m2, sigs2))
        if k < npass - 1:
            m2.reset()
    case.debug = dict(xf=xf, hist=hist, fresh=fresh, seeds=all_seeds)
    for k in range(npass):
        (yh, gh), (yf, gf) = hist[k], fresh[k]
        for j, (a, b) in enumerate(zip(yh, yf)):
            ok, why = _cmp(a, b, rtol)
            if not ok:
                return f"{case.name}: output {j} after a history differs from a fresh instance (pass {k}): {why}"
        for i, (a, b) in enumerate(zip(gh, gf)):
            ok, why = _cmp(a, b, rtol * 10)
            if not ok:
                return f"{case.name}: sensitivity of input {i} after a history differs from a fresh instance (seeded pass {k} of {npass}): {why}"
    return None


LINSOLVE_PATTERNS = [["symindef", "general", "general", "spd"], ["general", "general", "general", "general"],
                     ["spd", "csym", "csym", "general"], ["general", "spd", "general", "symindef"],
                     ["csym", "general", "csym", "general"], ["spd", "general", "general", "general"]]


def gen_linsolve_classchange(rng, pattern=None):
    """LinSolve visiting matrices of different classes (SPD -> indefinite -> non-symmetric -> complex)"""
    pm = _pm()
    n = int(rng.integers(2, 6))
    sparse = rng.random() < 0.5
    k = [None, 2][int(rng.integers(0, 2))]
    pts = []
    pool = ["spd", "symindef", "general", "csym"]
    # the first matrix decides what a stale cache would remember: start Hermitian or not, then alternate
    classes = [pool[int(rng.integers(0, 4))] for _ in range(4)]
    if rng.random() < 0.7:
        classes[0] = ["spd", "symindef"][int(rng.integers(0, 2))]
        classes[1] = ["general", "csym"][int(rng.integers(0, 2))]
    if pattern is not None:     # (consecutive DIFFERENT matrices of one class: what is cached per class must follow the matrix)
        classes = list(pattern)
    shp = (n,) if k is None else (n, k)
    varyk = rng.random() < 0.4      # the number of load cases changes between the responses of ONE instance
    # a boundary condition that MOVES: every matrix of the history has one decoupled dof (row and column cleared, unit diagonal),
    # a different one each time, while size and number of stored entries stay the same
    movebc = n >= 3 and rng.random() < 0.4
    dofs = rng.permutation(n)
    for ic, c in enumerate(classes[:4]):
        cplx = c == "csym"
        if varyk:
            kk_ = [None, 1, 2, 3][int(rng.integers(0, 4))]
            shp = (n,) if kk_ is None else (n, kk_)
        A = zoo._rand_matrix(rng, n, c, cplx)
        if movebc:
            d_ = int(dofs[ic % n])
            A = np.array(A)
            A[d_, :] = 0
            A[:, d_] = 0
            A[d_, d_] = 1
        if sparse and not movebc:
            mask = rng.random((n, n)) < 0.7
            mask = mask | mask.T | np.eye(n, dtype=bool)
            A = np.where(mask, A, 0)
        b = rng.standard_normal(shp) + (1j * rng.standard_normal(shp) if cplx else 0)
        pts.append([sps.csc_matrix(A) if sparse else A, b])

    def make():
        sA = pm.Signal("A", zoo.vcopy(pts[0][0]))
        sb = pm.Signal("b", zoo.vcopy(pts[0][1]))
        return pm.LinSolve([sA, sb]), [sA, sb]

    case = zoo.Case(f"LinSolve.classchange.n{n}.{'sp' if sparse else 'de'}.k{k}.{'-'.join(classes[:4])}{'.movebc' if movebc else ''}", make)
    return case, pts


def gen_linsolve_cg_magnitudes(rng):
    """LinSolve with an ITERATIVE solver (CG, which starts from the previous solution): SPD systems whose loads change
    magnitude by 2^20 and back between the responses; the result may depend on the history to solver tolerance only"""
    pm = _pm()
    from pymoto.solvers import CG
    n = int(rng.integers(30, 50))      # (large enough that CG does not terminate finitely before the tolerance matters)
    k = [None, 2][int(rng.integers(0, 2))]
    shp = (n,) if k is None else (n, k)
    Qo, _ = np.linalg.qr(rng.standard_normal((n, n)))
    A0 = Qo @ np.diag(np.logspace(0, 3, n)) @ Qo.T
    A0 = (A0 + A0.T) / 2
    pts = []
    for e in ([20, 0, 20, 0] if rng.random() < 0.5 else [0, -20, 0, -20]):     # (visited cyclically: a drop by 2^20 every other step)
        A = A0 + np.diag(rng.uniform(0.0, 0.5, n))
        pts.append([sps.csc_matrix(A), rng.standard_normal(shp) * 2.0 ** e])

    def make():
        sA = pm.Signal("A", zoo.vcopy(pts[0][0]))
        sb = pm.Signal("b", zoo.vcopy(pts[0][1]))
        return pm.LinSolve([sA, sb], solver=CG(tol=1e-11)), [sA, sb]

    return zoo.Case(f"LinSolve.cg.magnitudes.n{n}.k{k}", make), pts


def gen_classchange(rng, kind, pattern=None):
    """SystemOfEquations / StaticCondensation / EigenSolve / Inverse visiting matrices of different classes on ONE module
    (symmetric first, non-symmetric later, and back): flags or solvers remembered from an earlier matrix must not matter"""
    pm = _pm()
    n = int(rng.integers(3, 7))
    cplx_ok = kind in ("soe", "inverse", "eigensolve")
    pool = ["spd", "symindef", "general"] + (["csym"] if cplx_ok else [])
    classes = [pool[int(rng.integers(0, len(pool)))] for _ in range(4)]
    if rng.random() < 0.7:
        classes[0] = ["spd", "symindef"][int(rng.integers(0, 2))]
        classes[1] = "general"
    if pattern is not None:
        classes = [c if (c != "csym" or cplx_ok) else "general" for c in pattern]
    mats = []
    for c in classes:
        A = zoo._rand_matrix(rng, n, c, c == "csym")
        if kind == "eigensolve":   # keep the spectrum simple and well separated: A = V diag(d) V^-1
            d = np.arange(1, n + 1) * 1.0 + rng.uniform(-0.2, 0.2, n)
            if c in ("spd", "symindef"):
                Q, _ = np.linalg.qr(rng.standard_normal((n, n)))
                A = Q @ np.diag(d * (1 if c == "spd" else np.where(np.arange(n) % 2, -1, 1))) @ Q.T
                A = (A + A.T) / 2
            else:
                V = np.eye(n) + 0.3 * (rng.standard_normal((n, n)) + (1j * rng.standard_normal((n, n)) if c == "csym" else 0))
                A = V @ np.diag(d) @ np.linalg.inv(V)
        mats.append(A)
    perm = rng.permutation(n)
    if kind == "soe":
        nf = int(rng.integers(1, n))
        f, p = np.sort(perm[:nf]), np.sort(perm[nf:])
        sparse = rng.random() < 0.5
        pts = [[(sps.csc_matrix(A) if sparse else A), rng.standard_normal(nf) + (1j * rng.standard_normal(nf) if np.iscomplexobj(A) else 0),
                rng.standard_normal(n - nf) + (1j * rng.standard_normal(n - nf) if np.iscomplexobj(A) else 0)] for A in mats]

        def make():
            sA, s1, s2 = pm.Signal("A", zoo.vcopy(pts[0][0])), pm.Signal("bf", zoo.vcopy(pts[0][1])), pm.Signal("xp", zoo.vcopy(pts[0][2]))
            return pm.SystemOfEquations([sA, s1, s2], free=f.copy(), prescribed=p.copy()), [sA, s1, s2]
    elif kind == "staticcond":
        nm = int(rng.integers(1, n))
        nfree = int(rng.integers(1, n - nm + 1))
        main, free = np.sort(perm[:nm]), np.sort(perm[nm:nm + nfree])
        pts = [[sps.csc_matrix(A)] for A in mats]

        def make():
            sA = pm.Signal("A", zoo.vcopy(pts[0][0]))
            return pm.StaticCondensation([sA], main=main.copy(), free=free.copy()), [sA]
    elif kind == "inverse":
        pts = [[A] for A in mats]

        def make():
            sA = pm.Signal("A", zoo.vcopy(pts[0][0]))
            return pm.Inverse([sA]), [sA]
    else:
        pts = [[A] for A in mats]

        def make():
            sA = pm.Signal("A", zoo.vcopy(pts[0][0]))
            return pm.EigenSolve([sA]), [sA]
    case = zoo.Case(f"{kind}.classchange.n{n}.{'-'.join(classes)}", make)
    return case, pts


def gen_network(rng, nest=None):
    """filter -> assembly -> (LinSolve | SystemOfEquations) -> compliance, as a Network; inputs: design x"""
    pm = _pm()
    nx, ny = int(rng.integers(2, 5)), int(rng.integers(2, 5))
    dom = pm.DomainDefinition(nx, ny)
    kind = ["linsolve", "soe", "overhang"][int(rng.integers(0, 3))]
    n = 2 * dom.nnodes
    left = dom.get_nodenumber(0, np.arange(ny + 1))
    bc = np.sort(np.concatenate([2 * left, 2 * left + 1]))
    f = np.zeros(n)
    f[2 * dom.get_nodenumber(nx, ny // 2) + 1] = 1.0
    x0 = rng.uniform(0.3, 1.0, dom.nel)
    # how the response part is put together: flat, as a completed sub-network, or as a sub-network that is extended AFTER
    # it was appended to the outer network (the late modules share a signal only among themselves)
    nest = nest or ["flat", "nested", "nested_late"][int(rng.integers(0, 3))]

    def tail(net, sc):
        if nest == "flat":
            return sc
        if nest == "nested":
            sub = pm.Network(pm.MathGeneral([sc], expression="inp0*inp0 + inp0"))
            sub.append(pm.MathGeneral(sub.mods[-1].sig_out, expression="3*inp0 - 0.5"))
            sub.append(pm.MathGeneral(sub.mods[-1].sig_out, expression="2*inp0 + 1"))
            net.append(sub)
            return sub.mods[-1].sig_out[0]
        sub = pm.Network(pm.MathGeneral([sc], expression="inp0*inp0 + inp0"))
        net.append(sub)
        sub.append(pm.MathGeneral(sub.mods[-1].sig_out, expression="3*inp0 - 0.5"))
        sub.append(pm.MathGeneral(sub.mods[-1].sig_out, expression="2*inp0 + 1"))
        return sub.mods[-1].sig_out[0]

    def make():
        sx = pm.Signal("x", x0.copy())
        net = pm.Network()
        s1 = net.append(pm.DensityFilter([sx], domain=dom, radius=1.5)) if kind != "overhang" else \
            net.append(pm.OverhangFilter([sx], domain=dom, direction=[0, 1]))
        s2 = net.append(pm.MathGeneral([s1], expression="0.001 + 0.999*inp0^3"))
        if kind in ("linsolve", "overhang"):
            sK = net.append(pm.AssembleStiffness([s2], domain=dom, bc=bc))
            sf = pm.Signal("f", f.copy())
            su = net.append(pm.LinSolve([sK, sf]))
            sc = net.append(pm.EinSum([su, sf], expression="i,i->"))
        else:
            sK = net.append(pm.AssembleStiffness([s2], domain=dom))
            free = np.setdiff1d(np.arange(n), bc)
            sbf = pm.Signal("bf", f[free].copy())
            sxp = pm.Signal("xp", 0.01 * np.arange(len(bc), dtype=float))
            su, sb = net.append(pm.SystemOfEquations([sK, sbf, sxp], free=free, prescribed=bc))
            sc = net.append(pm.EinSum([su, sb], expression="i,i->"))
        return zoo.NetAdapter(net, [tail(net, sc)]), [sx]

    def dirs(rng2, states):
        return [rng2.uniform(-1, 1, states[0].shape)]

    return zoo.Case(f"Network.{kind}.{nest}.{nx}x{ny}", make, dirs=dirs, clip=(0.05, 1.0))


def correspondence(ctx):
    warnings.filterwarnings("ignore")
    nprng = ctx.nprng
    # ---- toy histories vs Lean component model -------------------------------------------------
    nh = 120 if ctx.quick else 1500
    reqs, impls = [], []
    for t in range(nh):
        n = ctx.rng.randint(1, 3)
        a, b = ctx.rng.randint(-3, 3), ctx.rng.randint(-3, 3)
        x0 = [ctx.rng.randint(-3, 3) for _ in range(n)]
        ops = gen_history(ctx.rng, n, ctx.rng.randint(6, 20 if ctx.quick else 60))
        r = call_impl(run_toy, a, b, x0, ops)
        req = {"m": "c03.history", "a": a, "b": b, "x0": x0, "ops": ops}
        if r[0] == "err":
            ctx.disagree("toy-history", req, r[1], "ok", r[2])
            continue
        reqs.append(req)
        impls.append(r[1])
        ctx.branch("toy.len%02d" % (len(ops) // 10 * 10))
    res = ctx.model(reqs)
    for req, imp, mo in zip(reqs, impls, res):
        if "ok" not in mo:
            ctx.disagree("toy-history", req, imp, mo, "model error")
            continue
        ctx.compare_exact("toy-history", req, imp, mo["ok"], key=("toy", str(req["ops"]), req["a"], req["b"], str(req["x0"])),
                          nontrivial=any(o["op"] == "sensitivity" for o in req["ops"]))
    if reqs:
        ctx.sample({"toy_history": reqs[0]["ops"][:8], "final_obs": impls[0][-1]})

    # ---- library modules: history vs fresh instance (property oracle on the real code) -------------
    fams = list(zoo.GENERATORS)
    per = 4 if ctx.quick else 14
    PER_FAM = {"eigensolve_sparse": 3, "soe": 2, "staticcond": 2}      # per-mode adjoint solver caches: more histories
    for fam in fams:
        for kk in range(per * PER_FAM.get(fam, 1)):
            case = zoo.generate(fam, nprng, kk + 4 * (ctx.seed % 3))
            if fam == "aggregation" and "sc" in case.name.split(".")[-1]:
                pass  # undamped or damped: damped is exempt -> regenerate without damping below
            r = call_impl(history_oracle, case, nprng, int(nprng.integers(6, 20 if ctx.quick else 60)))
            ctx.evaluations += 1
            ctx.branch("lib." + fam)
            if r[0] == "err" and zoo.numerical_limit(fam, r[2]):
                ctx.skipped_boundary += 1
            elif r[0] == "err":
                ctx.oracle_fail(f"{case.name}: a protocol-respecting history raised {r[2][:300]}", {"family": fam, "case": case.name})
            elif r[1]:
                ctx.oracle_fail(r[1], {"family": fam, "case": case.name})
            else:
                ctx.distinct.add(("lib", case.name))
    for t in range(14 if ctx.quick else 80):
        case, pts = gen_linsolve_classchange(nprng, LINSOLVE_PATTERNS[t % 12] if t % 12 < len(LINSOLVE_PATTERNS) else None)
        r = call_impl(history_oracle, case, nprng, int(nprng.integers(8, 24)), 1e-6, pts)
        ctx.evaluations += 1
        ctx.branch("lib.linsolve-classchange")
        if r[0] == "err":
            ctx.oracle_fail(f"{case.name}: history raised {r[2][:300]}", {"case": case.name})
        elif r[1]:
            ctx.oracle_fail(r[1], {"case": case.name})
        else:
            ctx.distinct.add(("lib", case.name))
    for t in range(14 if ctx.quick else 40):
        case, pts = gen_linsolve_cg_magnitudes(nprng)
        if t % 2 == 0:
            # the shortest history with a drop: everything at the large magnitude first (priming), then the small one
            big = max(range(len(pts)), key=lambda i_: float(np.abs(pts[i_][1]).max()))
            small = min(range(len(pts)), key=lambda i_: float(np.abs(pts[i_][1]).max()))
            pts = [pts[big], pts[small]]
            base_make = case.make

            def make(base_make=base_make, first=pts[0]):
                mm, ss = base_make()
                ss[0].state, ss[1].state = zoo.vcopy(first[0]), zoo.vcopy(first[1])
                return mm, ss
            case.make = make
        # "to solver tolerance": CG stops at a relative residual of 1e-11, the matrices have condition 1e3, so two runs agree to
        # cond * tol = 1e-8 at worst; ten times that is the tolerance here (observed on the unchanged tree: <= 2.2e-8)
        r = call_impl(history_oracle, case, nprng, 0 if t % 2 == 0 else int(nprng.integers(8, 16)), 1e-7, pts)
        ctx.evaluations += 1
        ctx.branch("lib.linsolve-cg-magnitudes")
        if r[0] == "err":
            ctx.oracle_fail(f"{case.name}: history raised {r[2][:300]}", {"case": case.name})
        elif r[1]:
            ctx.oracle_fail(r[1], {"case": case.name})
        else:
            ctx.distinct.add(("lib", case.name))
    for kind in ("soe", "staticcond", "inverse", "eigensolve"):
        for t in range(8 if ctx.quick else 40):
            case, pts = gen_classchange(nprng, kind, LINSOLVE_PATTERNS[(t + ctx.seed) % 8] if (t + ctx.seed) % 8 < len(LINSOLVE_PATTERNS) else None)
            r = call_impl(history_oracle, case, nprng, int(nprng.integers(6, 16)), 1e-6, pts)
            ctx.evaluations += 1
            ctx.branch("lib." + kind + "-classchange")
            if r[0] == "err":
                ctx.oracle_fail(f"{case.name}: history raised {r[2][:300]}", {"case": case.name})
            elif r[1]:
                ctx.oracle_fail(r[1], {"case": case.name})
            else:
                ctx.distinct.add(("lib", case.name))
    # one assembly module visiting designs of different dtype (real, complex, integer-valued float): buffers or flags that
    # remember the dtype of the first design must not matter
    for _ in range(6 if ctx.quick else 40):
        case = zoo.gen_assembly(nprng)
        m0, s0 = case.make()
        xb = np.real(np.asarray(s0[0].state)).astype(float)
        pts = []
        for kdt in nprng.permutation(["real", "cplx", "ones", "cplx"]):
            v = nprng.uniform(0.1, 1.0, xb.shape)
            pts.append([v if kdt == "real" else (v + 1j * nprng.uniform(-0.5, 0.5, xb.shape)) if kdt == "cplx" else np.ones_like(xb)])
        case.name += ".dtypechange"
        base_make = case.make

        def make(base_make=base_make, first=pts[0][0]):
            mm, ss = base_make()
            ss[0].state = zoo.vcopy(first)
            return mm, ss
        case.make = make
        r = call_impl(history_oracle, case, nprng, int(nprng.integers(6, 14)), 1e-6, pts)
        ctx.evaluations += 1
        ctx.branch("lib.assembly-dtypechange")
        if r[0] == "err":
            ctx.oracle_fail(f"{case.name}: history raised {r[2][:300]}", {"case": case.name})
        elif r[1]:
            ctx.oracle_fail(r[1], {"case": case.name})
        else:
            ctx.distinct.add(("lib", case.name))
    # aggregations with an active set: designs whose entries are all EXACTLY equal (uniform initial design, n = 1) take the
    # degenerate branch of AggActiveSet (nothing to select); visited between ordinary designs, in both orders
    for k in range(6 if ctx.quick else 36):
        case = zoo.generate("aggregation", nprng, [2, 3, 6, 7, 10, 11][k % 6])
        mm, ss = case.make()
        if getattr(mm, "active_set", None) is None:
            continue
        xb = np.asarray(ss[0].state, dtype=float)
        uni = [np.full_like(xb, float(nprng.uniform(0.3, 1.8))) for _ in range(2)]
        oth = [np.clip(xb * nprng.uniform(0.6, 1.5, xb.shape), 0.05, 10.0) for _ in range(2)]
        pts = [[xb], [uni[0]], [oth[0]], [uni[1]], [oth[1]]] if k % 2 == 0 else [[uni[0]], [xb], [uni[1]], [oth[0]], [oth[1]]]
        # a design on which the band / fractions leave nothing to aggregate is inadmissible
        sel_ok = all(np.ones(xb.size, dtype=bool)[mm.active_set(p_[0])].any() for p_ in pts)
        if not sel_ok:
            continue
        case.name += ".uniform-designs"
        base_make = case.make

        def make(base_make=base_make, first=pts[0][0]):
            m2, s2 = base_make()
            s2[0].state = zoo.vcopy(first)
            return m2, s2
        case.make = make
        r = call_impl(history_oracle, case, nprng, int(nprng.integers(8, 16)), 1e-6, pts)
        ctx.evaluations += 1
        ctx.branch("lib.aggregation-uniform")
        if r[0] == "err":
            ctx.oracle_fail(f"{case.name}: history raised {r[2][:300]}", {"case": case.name})
        elif r[1]:
            ctx.oracle_fail(r[1], {"case": case.name})
        else:
            ctx.distinct.add(("lib", case.name))
    for k in range(4 if ctx.quick else 24):
        case = gen_network(nprng, ["nested_late", "flat", "nested", "nested_late"][k % 4])
        r = call_impl(history_oracle, case, nprng, int(nprng.integers(6, 16)), 1e-6)
        ctx.evaluations += 1
        ctx.branch("lib.network")
        if r[0] == "err":
            ctx.oracle_fail(f"{case.name}: history raised {r[2][:300]}", {"case": case.name})
        elif r[1]:
            ctx.oracle_fail(r[1], {"case": case.name})
        else:
            ctx.distinct.add(("lib", case.name))


def search(ctx, disagreements):
    """the library-history oracle IS the search on the real code; re-run it with more histories"""
    warnings.filterwarnings("ignore")
    found = []
    rng = np.random.default_rng(ctx.seed + 1000)
    for fam in zoo.GENERATORS:
        for _ in range(6):
            case = zoo.GENERATORS[fam](rng)
            r = call_impl(history_oracle, case, rng, 20)
            if r[0] == "err" and zoo.numerical_limit(fam, r[2]):
                continue
            if r[0] == "err":
                found.append({"what": f"{case.name}: history raised {r[2][:300]}", "witness": {"family": fam, "case": case.name}})
            elif r[1]:
                found.append({"what": r[1], "witness": {"family": fam, "case": case.name}})
        if len(found) >= 3:
            break
    return found


def replay(ctx, data):
    return {"still_failing": False, "note": "re-run ./check C03 with the recorded VERIF_SEED to reproduce"}
