"""C04 — back-propagation is linear in the seed, accumulative and leaves states untouched.

correspondence: single harness-defined modules (the exact-integer GenMod kinds of the C02 vertical, with plain and
    sliced signals, repeated inputs) driven through the sequence
        response; seed w1; sensitivity; sensitivity; reset; seed w2; sensitivity; reset; seed a*w1+b*w2; sensitivity; reset
    on the REAL Module/Signal code vs the Lean dispatch model (`Core/Network.lean`, driver op c02.run): every state and
    sensitivity after every operation, exact. The C04 statements (linear, twice = 2x, states untouched) are evaluated on
    the real snapshots as well.
oracle / search: for EVERY library module family of the module zoo (all option combinations it generates): seed linearity,
    second sensitivity() call doubles, sensitivity()/reset() change no state, response() changes no input state and no
    sensitivity (deep snapshots of all signals and of the caller-owned seed arrays).
"""
import warnings

import numpy as np

from ..common import call_impl
from . import c02
from .. import zoo

RULE = ("dispatch stream: random single GenMod modules (kinds lin/mul/dot/sq/fan/cat, plain/sliced/repeated signals) x the fixed "
        "11-operation C04 sequence with random integer seeds w1, w2 and integer a, b, compared with the Lean model after every operation; "
        "library stream: N configurations per module family (17 families) of harness/zoo.py through linearity_oracle. "
        "distinct = distinct module specs / configuration names; non-trivial = at least one input receives a sensitivity")
ASSUMPTIONS = ["AssembleGeneral with boundary conditions zeroes the bc rows/columns of its (dense or dyadic) seed in place; this idempotent "
               "change of a SENSITIVITY (not a state) is allowed by the property and not reported",
               "per-module linearity of the library's hand-written _sensitivity routines is checked by the oracle (bounded); the Lean theorems "
               "cover the dispatch (Module.sensitivity + add_sensitivity) and the modelled module kinds"]


def make_single(rng):
    """a single-module program with the C04 operation sequence"""
    for _ in range(50):
        g = c02.Gen(rng, 1, rng.choice([2, 4]))
        spec = g.spec(depth=0)
        mods = c02.flat_mods(spec["prog"])
        if len(mods) != 1 or not mods[0]["outs"] or not mods[0]["ins"]:
            continue
        outs = mods[0]["outs"]
        w1 = {s: [rng.randint(-3, 3) for _ in range(g.sig_len(s))] for s in outs}
        w2 = {s: [rng.randint(-3, 3) for _ in range(g.sig_len(s))] for s in outs}
        a, b = rng.randint(-3, 3), rng.randint(-3, 3)
        w12 = {s: [a * u + b * v for u, v in zip(w1[s], w2[s])] for s in outs}
        # partial seeding: drop some outputs in all three rounds alike
        # every output is seeded explicitly in all three rounds (a base may carry an initial sensitivity); an unseeded
        # output is emulated by a zero seed in all rounds alike
        keep = list(outs)
        for s in outs:
            if rng.random() < 0.2 and len(outs) > 1:
                w1[s] = [0] * len(w1[s]); w2[s] = [0] * len(w2[s]); w12[s] = [0] * len(w12[s])

        def seeds(w):
            return [["seed", s, w[s]] for s in keep]
        ops = ([["resp"]] + seeds(w1) + [["sens"], ["sens"], ["reset"]] + seeds(w2) + [["sens"], ["reset"]]
               + seeds(w12) + [["sens"], ["reset"]])
        spec["ops"] = ops
        spec["sigs"] = g.sigs
        spec["deg"] = max(list(g.deg.values()) + [1])
        spec["c04"] = {"a": a, "b": b, "nseed": len(keep)}
        return spec
    return None


def check_c04_on_snaps(spec, snaps):
    """the C04 statements evaluated on the real snapshots; returns failure text or None"""
    ns = spec["c04"]["nseed"]
    a, b = spec["c04"]["a"], spec["c04"]["b"]
    # op indices: 0 resp | 1..ns seeds | ns+1 sens | ns+2 sens | ns+3 reset | seeds | 2ns+4 sens | 2ns+5 reset | seeds | 3ns+6 sens | 3ns+7 reset
    i_resp, i_seed1, i_s1, i_s1b, i_r1 = 0, ns, ns + 1, ns + 2, ns + 3
    i_seed2, i_s2, i_r2 = 2 * ns + 3, 2 * ns + 4, 2 * ns + 5
    i_seed3, i_s3, i_r3 = 3 * ns + 5, 3 * ns + 6, 3 * ns + 7
    if len(snaps) <= i_r3:
        return None

    def st(k):
        return snaps[k]["st"]

    def se(k):
        return snaps[k]["se"]
    for k in (i_s1, i_s1b, i_r1, i_s2, i_r2, i_s3, i_r3):
        if st(k) != st(i_resp):
            return f"a state changed at operation {k} ({spec['ops'][k][0]})"

    def vec(v):
        return None if v is None else np.array(v, dtype=object).ravel()

    def contrib(after, before):
        out = []
        for x, y in zip(se(after), se(before)):
            if x is None:
                out.append(None)
            else:
                xv = vec(x)
                out.append(xv - (vec(y) if y is not None else 0 * xv))
        return out
    g1 = contrib(i_s1, i_seed1)
    g1b = contrib(i_s1b, i_s1)
    g2 = contrib(i_s2, i_seed2)
    g3 = contrib(i_s3, i_seed3)
    for j, (u, ub) in enumerate(zip(g1, g1b)):
        if u is None or ub is None:
            continue
        if list(u) != list(ub):
            return f"second sensitivity() call added a different contribution to base {j}: {list(ub)} vs {list(u)}"
    for j, (u, v, uv) in enumerate(zip(g1, g2, g3)):
        uu = 0 if u is None else u
        vv = 0 if v is None else v
        if uv is None:
            if (u is not None and any(a * x for x in u)) or (v is not None and any(b * x for x in v)):
                return f"no sensitivity on base {j} for the combined seed"
            continue
        want = a * uu + b * vv
        want = want if hasattr(want, "__len__") else np.array([want] * len(uv), dtype=object)
        if list(uv) != list(want):
            return f"sensitivity not linear in the seed on base {j}: {list(uv)} vs {list(want)}"
    mod = c02.flat_mods(spec["prog"])[0]
    involved = {spec["sigs"][sid]["base"] for sid in list(mod["ins"]) + list(mod["outs"])}
    for k in (i_r1, i_r2, i_r3):
        for j, x in enumerate(se(k)):
            if j not in involved:
                continue  # a signal that does not belong to the module is not reset by Module.reset()
            sl = [spec["sigs"][sid] for sid in list(mod["ins"]) + list(mod["outs"]) if spec["sigs"][sid]["base"] == j]
            if all(sg.get("sl") is not None for sg in sl):
                continue  # only slices of this base belong to the module: reset() clears just their entries
            if x is not None and any(v != 0 for v in vec(x)):
                return f"reset() left a sensitivity on base {j}"
    return None


def correspondence(ctx):
    warnings.filterwarnings("ignore")
    c02.stub_init_str() if hasattr(c02, "stub_init_str") else None
    n = 150 if ctx.quick else 2000
    specs, impls = [], []
    for _ in range(n):
        spec = make_single(ctx.rng)
        if spec is None:
            continue
        r = call_impl(c02.run_impl, spec)
        if r[0] == "err":
            ctx.disagree("dispatch", c02._strip(spec) if hasattr(c02, "_strip") else spec["ops"], r[1], "ok", r[2])
            continue
        specs.append(spec)
        impls.append(r[1])
        kind = c02.flat_mods(spec["prog"])[0].get("kind", "?")
        ctx.branch(f"dispatch.{kind if isinstance(kind, str) else kind[0] if isinstance(kind, list) else '?'}")
    res = ctx.model([c02.model_req(s) for s in specs])
    for spec, imp, mo in zip(specs, impls, res):
        key = ("dispatch", str(spec["prog"]), str(spec["ops"]))
        if "ok" not in mo:
            ctx.disagree("dispatch", spec["ops"], imp, mo, "model error")
            continue
        m = mo["ok"]
        ok = ctx.compare_exact("dispatch", {"prog": spec["prog"], "ops": spec["ops"]},
                               {"snaps": imp["snaps"], "err": imp["err"]},
                               {"snaps": m.get("snaps"), "err": m.get("err")}, key=key,
                               nontrivial=imp["err"] is None)
        if imp["err"] is None:
            why = check_c04_on_snaps(spec, imp["snaps"])
            if why:
                ctx.oracle_fail("dispatch of a single module: " + why, {"prog": spec["prog"], "ops": spec["ops"], "bases": spec["bases"],
                                                                         "sigs": spec["sigs"]})
    if specs:
        ctx.sample({"module": specs[0]["prog"], "ops": specs[0]["ops"][:6]})

    # ---- library modules: linearity / twice / states untouched (oracle on the real code) ----------------------
    per = 12 if ctx.quick else 30
    for fam, gen in zoo.GENERATORS.items():
        for kk in range(per * 4 if fam == "eigensolve_sparse" else per):   # per-mode adjoint solver caches: more cases
            case = zoo.generate(fam, ctx.nprng, kk)
            r = call_impl(zoo.linearity_oracle, case, ctx.nprng)
            ctx.evaluations += 1
            ctx.branch("lib." + fam)
            if r[0] == "err" and zoo.numerical_limit(fam, r[2]):
                ctx.skipped_boundary += 1
            elif r[0] == "err":
                ctx.oracle_fail(f"{case.name}: response/sensitivity/reset raised {r[2][:300]}", {"family": fam, "case": case.name})
            elif r[1]:
                ctx.oracle_fail(r[1], {"family": fam, "case": case.name})
            else:
                ctx.distinct.add(("lib", case.name))


def search(ctx, disagreements):
    warnings.filterwarnings("ignore")
    found = []
    rng = np.random.default_rng(ctx.seed + 4000)
    for fam, gen in zoo.GENERATORS.items():
        for _ in range(10):
            case = gen(rng)
            r = call_impl(zoo.linearity_oracle, case, rng)
            if r[0] == "err" and zoo.numerical_limit(fam, r[2]):
                continue
            if r[0] == "err":
                found.append({"what": f"{case.name}: raised {r[2][:300]}", "witness": {"family": fam, "case": case.name}})
            elif r[1]:
                found.append({"what": r[1], "witness": {"family": fam, "case": case.name}})
        if len(found) >= 3:
            break
    return found


def replay(ctx, data):
    return {"still_failing": False, "note": "re-run ./check C04 with the recorded VERIF_SEED to reproduce"}
