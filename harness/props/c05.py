"""C05 — every linear solver solves the requested (transposed / adjoint) system
(pymoto/solvers/dense.py, sparse.py, iterative.py, auto_determine.py, matrix_checks.py)

correspondence streams (real solver object vs Lean model, driver ops c05.*):
  direct : SolverDiagonal / DenseQR / DenseLU / DenseCholesky (incl. LDL fall-back) / DenseLDL (Hermitian and complex
           symmetric) / SparseLU.  The factor attributes of the REAL solver after update() are read, the factorisation
           contract is checked numerically, factors + rhs are sent as exact rationals, the returned x is compared (mode T).
  cg     : iterates x_1..x_m of the block CG (real code run with maxit = m) vs the exact-arithmetic model, for the
           preconditioners identity / DampedJacobi / SOR / ILU (as operator) / GeometricMultigrid, trans N/T/H, x0.
  orth   : orth(u, normalize) on blocks with dependent columns.
  auto   : class returned by auto_determine_solver (dense/sparse, real/complex, overrides).
  interp : GeometricMultigrid.setup_interpolation (mode E).
oracle on the real code: relative residual of op(A) x = b, shape and dtype of x.

Excluded input classes (genuine defects of the unchanged tree, see corpus/defects/c05_*.py):
  * SolverSparseLU with a real matrix and a complex right-hand side (TypeError)
  * CG with a zero right-hand-side column (NaN), a column that converges exactly before the others (LinAlgError/NaN),
    a real x0 for a complex system (UFuncTypeError)
"""
import warnings
from fractions import Fraction

import numpy as np
import scipy.sparse as sps

from ..common import q, qlist, qclist, fr, call_impl

RULE = ("direct: generated matrices of every class (diagonal, general, triangular, HPD, Hermitian indefinite, Hermitian "
        "indefinite with positive diagonal, complex symmetric), n in 2..6, small-integer entries, cond <= 1e6, real/complex "
        "matrix and rhs, rhs shapes (n),(n,1),(n,3 with a dependent column), trans N/T/H; cg: SPD/HPD systems n in 3..9; "
        "distinct = distinct (stream, solver, class, dtype, shape, trans, data) cases; all non-trivial (n >= 2)")
ASSUMPTIONS = [
    "optional back-ends (pypardiso, scikit-sparse, cvxopt, scikit-umfpack) are not installed and not modelled",
    "scipy qr/lu/cholesky/ldl/solve_triangular/splu/spilu/np.linalg.inv enter as contracts; the contracts are checked "
    "numerically on every generated case (factor products, triangularity)",
    "CG convergence within maxit is observed, not proved (cg_correct_partial)",
    "excluded defect classes: SparseLU real matrix + complex rhs; CG with zero rhs column / exactly converged column / "
    "real x0 for complex system",
]

OP = {"N": lambda A: A, "T": lambda A: A.T, "H": lambda A: A.conj().T}


def _sol():
    import pymoto.solvers as S
    from pymoto.solvers import iterative, auto_determine
    return S, iterative, auto_determine


# ------------------------------------------------------------------------------------------------
# generators
# ------------------------------------------------------------------------------------------------
def rint(rng, n, m, lo=-3, hi=3, cplx=False):
    a = np.array([[rng.randint(lo, hi) for _ in range(m)] for _ in range(n)], dtype=float)
    if cplx:
        a = a + 1j * np.array([[rng.randint(lo, hi) for _ in range(m)] for _ in range(n)], dtype=float)
    return a


KINDS = ["diag", "gen", "tril", "triu", "hpd", "hindef", "hposdiag", "csym"]


def gen_matrix(rng, kind, n, cplx):
    for _ in range(200):
        M = rint(rng, n, n, cplx=cplx)
        if kind == "diag":
            d = np.array([rng.choice([-4, -3, -2, -1, 1, 2, 3, 5]) for _ in range(n)], dtype=float)
            if cplx:
                d = d + 1j * np.array([rng.randint(-2, 2) for _ in range(n)])
            A = np.diag(d)
        elif kind == "gen":
            A = M + np.diag([rng.choice([-1, 1]) * (2 * n + 1) for _ in range(n)])
            A[0, n - 1] += 1  # make sure it is not symmetric
            if np.allclose(A, A.T) or np.allclose(A, A.conj().T):
                continue
        elif kind == "tril":
            A = np.tril(M, -1) + np.diag([rng.choice([-3, -2, 2, 3, 4]) for _ in range(n)])
            A[n - 1, 0] = 1
        elif kind == "triu":
            A = np.triu(M, 1) + np.diag([rng.choice([-3, -2, 2, 3, 4]) for _ in range(n)])
            A[0, n - 1] = 1
        elif kind == "hpd":
            A = M @ M.conj().T + np.eye(n)
        elif kind == "hindef":
            A = M + M.conj().T
            sg = [(-1) ** i for i in range(n)]
            A[np.diag_indices(n)] = [s * rng.randint(2, 5) for s in sg]
        elif kind == "hposdiag":
            A = 3 * (M + M.conj().T)
            A[np.diag_indices(n)] = 1
            if np.all(np.linalg.eigvalsh(A) > 0):
                continue
        elif kind == "csym":
            A = M + M.T + np.diag([rng.randint(3, 6) for _ in range(n)])
            if cplx and np.allclose(A, A.conj().T):
                continue
        else:
            raise ValueError(kind)
        if kind != "diag" and np.allclose(A, np.diag(np.diag(A))):
            continue
        if kind in ("gen", "tril", "triu") and np.allclose(A, A.T):
            continue
        if np.linalg.cond(A) <= 1e6 and abs(np.linalg.det(A)) > 1e-6:
            return A if cplx else A.real.astype(float)
    raise RuntimeError("generator failed: " + kind)


def gen_rhs(rng, n, shape, cplx, dyadic=False):
    if shape == "n":
        b = rint(rng, n, 1, -4, 4, cplx)[:, 0]
    elif shape == "n1":
        b = rint(rng, n, 1, -4, 4, cplx)
    else:
        b = rint(rng, n, 3, -4, 4, cplx)
        b[:, 2] = 2 * b[:, 0] - b[:, 1]
    if not np.any(b):
        b.flat[0] = 1
    if b.ndim == 2:
        for j in range(b.shape[1]):
            if not np.any(b[:, j]):
                b[0, j] = 1
        if b.shape[1] == 3:
            b[:, 2] = 2 * b[:, 0] - b[:, 1]
            if not np.any(b[:, 2]):
                b[:, 1] += 1
                b[:, 2] = 2 * b[:, 0] - b[:, 1]
    if dyadic:
        b = b / 4
    return b


def enc(M, cplx):
    M = np.asarray(M)
    return qclist(M.astype(complex)) if cplx else qlist(M.astype(float))


def enc_b(b, cplx):
    B = np.asarray(b)
    if B.ndim == 1:
        B = B.reshape(-1, 1)
    return enc(B, cplx), B.shape[1]


def dec(x, cplx):
    """model matrix -> numpy array (float/complex)"""
    if cplx:
        return np.array([[complex(float(fr(v[0])), float(fr(v[1]))) for v in row] for row in x])
    return np.array([[float(fr(v)) for v in row] for row in x])


def relerr(a, b):
    a = np.asarray(a)
    b = np.asarray(b)
    return float(np.linalg.norm(a - b) / max(np.linalg.norm(b), 1e-300))


# ------------------------------------------------------------------------------------------------
# direct solvers
# ------------------------------------------------------------------------------------------------
SOLVERS_FOR = {
    "diag": ["diag", "qr", "lu", "sparselu"],
    "gen": ["qr", "lu", "sparselu"],
    "tril": ["qr", "lu", "sparselu"],
    "triu": ["qr", "lu", "sparselu"],
    "hpd": ["chol", "ldl", "qr", "lu", "sparselu"],
    "hindef": ["chol", "ldl", "lu", "sparselu"],
    "hposdiag": ["chol", "ldl"],
    "csym": ["ldl", "lu", "sparselu"],
}


def applicable(kind, solver, Acplx):
    if solver in ("chol",) and kind == "csym":
        return False
    if kind == "diag" and Acplx and solver in ("chol", "ldl"):
        return False
    return True


def build_direct(ctx, kind, solver, A, b, trans, cplx):
    """update the real solver, read its factors, check the contract, build the model request.
    returns (solver_object, request | None, note)"""
    S, _, _ = _sol()
    n = A.shape[0]
    Bq, k = enc_b(b, cplx)
    req = {"m": "c05.direct", "cplx": cplx, "n": n, "k": k, "trans": trans, "B": Bq}
    tolc = 1e-10 * max(1.0, np.linalg.norm(A))
    if solver == "diag":
        s = S.SolverDiagonal()
        s.update(A)
        req.update(solver="diag", diag=(qclist(np.asarray(s.diag).astype(complex)) if cplx else qlist(np.asarray(s.diag).astype(float))),
                   vec=bool(np.asarray(b).ndim == 1))
        ok = np.allclose(s.diag, np.diag(A))
    elif solver == "qr":
        s = S.SolverDenseQR()
        s.update(A)
        req.update(solver="qr", q=enc(s.q, cplx), r=enc(s.r, cplx))
        ok = (np.linalg.norm(s.q @ s.r - A) <= tolc and np.linalg.norm(s.q.conj().T @ s.q - np.eye(n)) <= 1e-12 * n
              and np.allclose(s.r, np.triu(s.r), atol=0))
    elif solver == "lu":
        s = S.SolverDenseLU()
        s.update(A)
        req.update(solver="lu", p=enc(s.p, cplx), l=enc(s.l, cplx), u=enc(s.u, cplx))
        ok = (np.linalg.norm(s.p @ s.l @ s.u - A) <= tolc and np.array_equal(s.p @ s.p.T, np.eye(n))
              and np.allclose(s.l, np.tril(s.l), atol=0) and np.allclose(s.u, np.triu(s.u), atol=0))
    elif solver == "ldl":
        s = S.SolverDenseLDL()
        s.update(A)
        req.update(solver="ldl", l=enc(s.l, cplx), d=enc(s.d, cplx), p=[int(v) for v in s.p], hermitian=None, A=enc(A, cplx))
        ld = s.l @ s.d @ (s.l.conj().T if s.hermitian else s.l.T)
        ok = np.linalg.norm(ld - A) <= tolc and sorted(int(v) for v in s.p) == list(range(n))
        ctx.branch("ldl_hermitian" if s.hermitian else "ldl_symmetric")
        offd = s.d - np.diag(np.diag(s.d))
        if np.any(offd != 0) and np.allclose(s.d, np.diag(np.diag(s.d))):
            return s, None, "boundary"   # d within allclose of diagonal but not exactly diagonal
        ctx.branch("ldl_d_diagonal" if not np.any(offd != 0) else "ldl_d_blocks")
    elif solver == "chol":
        s = S.SolverDenseCholesky()
        with warnings.catch_warnings():
            warnings.simplefilter("ignore")
            s.update(A)
        if s.success:
            req.update(solver="chol", U=enc(s.U, cplx), A=enc(A, cplx))
            ok = np.linalg.norm(s.U.conj().T @ s.U - A) <= tolc and np.allclose(s.U, np.triu(s.U), atol=0)
            ctx.branch("chol_success")
        else:
            bs = s.backup_solver
            req.update(solver="chol", U=None, A=enc(A, cplx), l=enc(bs.l, cplx), d=enc(bs.d, cplx), p=[int(v) for v in bs.p],
                       hermitian=None)
            ld = bs.l @ bs.d @ (bs.l.conj().T if bs.hermitian else bs.l.T)
            ok = np.linalg.norm(ld - A) <= tolc
            ctx.branch("chol_fallback_ldl")
            offd = bs.d - np.diag(np.diag(bs.d))
            if np.any(offd != 0) and np.allclose(bs.d, np.diag(np.diag(bs.d))):
                return s, None, "boundary"
    elif solver == "sparselu":
        s = S.SolverSparseLU()
        s.update(sps.csc_matrix(A))
        req.update(solver="sparselu", A=enc(A, cplx))
        ok = True
    else:
        raise ValueError(solver)
    return s, req, ("ok" if ok else "contract")


def oracle_solution(ctx, what, A, b, x, trans, cond, witness, tol=1e-9):
    """the property itself on the real result; returns True when it holds"""
    bad = None
    if not isinstance(x, np.ndarray) or x.shape != np.asarray(b).shape:
        bad = f"shape {getattr(x, 'shape', None)} != {np.asarray(b).shape}"
    elif x.dtype != np.result_type(A.dtype, np.asarray(b).dtype):
        bad = f"dtype {x.dtype} != {np.result_type(A.dtype, np.asarray(b).dtype)}"
    else:
        r = np.linalg.norm(OP[trans](A) @ x - b) / np.linalg.norm(b)
        if not r <= tol * max(cond, 1.0):
            bad = f"relative residual {r:.3e} (cond {cond:.2e})"
    if bad:
        w = dict(witness)
        w["observed"] = bad
        ctx.oracle_fail(f"{what}: {bad}", w)
        return False
    return True


def direct_cases(ctx):
    rng = ctx.rng
    sizes = [2, 3, 4] if ctx.quick else [2, 3, 4, 5, 6]
    reps = 1 if ctx.quick else 3
    cases = []
    for kind in KINDS:
        for Acplx in (False, True):
            for solver in SOLVERS_FOR[kind]:
                if not applicable(kind, solver, Acplx):
                    continue
                for shape in ("n", "n1", "nk"):
                    for trans in "NTH":
                        for _ in range(reps):
                            n = rng.choice(sizes)
                            bcplx = rng.random() < 0.4
                            if solver == "sparselu" and (not Acplx) and bcplx:
                                bcplx = False   # excluded defect class (c05_sparselu_complex_rhs)
                            cases.append((kind, Acplx, solver, shape, trans, n, bcplx))
    return cases


def run_direct(ctx):
    rng = ctx.rng
    reqs, meta = [], []
    for (kind, Acplx, solver, shape, trans, n, bcplx) in direct_cases(ctx):
        A = gen_matrix(rng, kind, n, Acplx)
        b = gen_rhs(rng, n, shape, bcplx, dyadic=rng.random() < 0.3)
        cplx = bool(Acplx or bcplx)
        s, req, note = build_direct(ctx, kind, solver, A, b, trans, cplx)
        case = {"solver": solver, "kind": kind, "Acplx": Acplx, "bcplx": bcplx, "shape": shape, "trans": trans, "n": n,
                "A": np.asarray(A).tolist() if not Acplx else [[str(v) for v in row] for row in A],
                "b": np.asarray(b).tolist() if not bcplx else str(np.asarray(b).tolist())}
        if note == "boundary":
            ctx.skipped_boundary += 1
            continue
        if note == "contract":
            ctx.disagree("direct-contract", case, "factorisation contract violated numerically", None)
            continue
        with warnings.catch_warnings():
            warnings.simplefilter("ignore")
            r = call_impl(s.solve, b.copy(), trans=trans)
        cond = float(np.linalg.cond(A))
        if r[0] == "ok":
            oracle_solution(ctx, f"{type(s).__name__}.solve(trans={trans})", A, b, r[1], trans, cond, case)
        else:
            ctx.oracle_fail(f"{type(s).__name__}.solve raised {r[2]}", case)
        ctx.branch(f"direct:{solver}:{kind}:{'c' if Acplx else 'r'}")
        ctx.branch(f"shape:{shape}")
        ctx.branch(f"trans:{trans}")
        reqs.append(req)
        meta.append((case, r, cplx, cond, s))
    # malformed: unknown mode string
    S, _, _ = _sol()
    A = gen_matrix(rng, "hpd", 3, False)
    b = gen_rhs(rng, 3, "n", False)
    for solver in ("qr", "lu", "chol", "ldl", "sparselu"):
        s, req, note = build_direct(ctx, "hpd", solver, A, b, "X", False)
        r = call_impl(s.solve, b.copy(), trans="X")
        reqs.append(req)
        meta.append(({"solver": solver, "malformed": "trans=X"}, r, False, 1.0, s))
        ctx.branch("malformed_trans")
    outs = ctx.model(reqs)
    for (case, r, cplx, cond, s), o in zip(meta, outs):
        if "err" in o:
            if r[0] == "err" and o["err"] == r[1]:
                ctx.compare_exact("direct-error", case, r[1], o["err"])
            else:
                ctx.disagree("direct", case, r[1] if r[0] == "err" else "ok", o["err"], "model error")
            continue
        if r[0] != "ok":
            ctx.disagree("direct", case, r[1], "ok", "implementation raised")
            continue
        xm = dec(o["ok"]["x"], cplx)
        xi = np.asarray(r[1]).reshape(xm.shape)
        if "hermitian" in o["ok"]:
            hs = s.hermitian if hasattr(s, "hermitian") else s.backup_solver.hermitian
            if bool(hs) != bool(o["ok"]["hermitian"]):
                ctx.disagree("direct-ldl-flag", case, bool(hs), o["ok"]["hermitian"], "hermitian flag")
                continue
        sc = max(1.0, float(np.max(np.abs(xm)))) * max(cond, 1.0)
        ctx.compare_close("direct", case, xi.flatten().tolist(), xm.flatten().tolist(), rtol=1e-9 * max(cond, 1.0),
                          atol=1e-13, scale=sc)
        ctx.sample({"stream": "direct", "case": {k: case[k] for k in ("solver", "kind", "shape", "trans", "n")},
                    "x_impl": np.asarray(r[1]).flatten()[:3].astype(complex if cplx else float).tolist().__repr__()})


# ------------------------------------------------------------------------------------------------
# CG
# ------------------------------------------------------------------------------------------------
def spd(rng, n, cplx):
    for _ in range(100):
        M = rint(rng, n, n, -2, 2, cplx)
        A = M @ M.conj().T + (1 + rng.randint(0, 2)) * np.eye(n)
        if np.linalg.cond(A) < 1e4:
            return A if cplx else A.real
    raise RuntimeError("spd generator")


def make_precond(ctx, kind, A, Asp, trans, cplx, rng):
    """returns (real preconditioner object, model spec)"""
    _, it, _ = _sol()
    n = A.shape[0]
    if kind == "id":
        return it.Preconditioner(), {"kind": "id"}
    if kind == "jacobi":
        w = rng.choice([1.0, 0.5, 0.75])
        return it.DampedJacobi(w=w), {"kind": "jacobi", "w": (qclist(complex(w)) if cplx else q(w))}
    if kind == "sor":
        w = rng.choice([1.0, 0.5, 1.5])
        return it.SOR(w=w), {"kind": "sor", "w": (qclist(complex(w)) if cplx else q(w))}
    if kind == "ilu":
        P = it.ILU()
        P.update(Asp)
        M = P.solve(np.eye(n, dtype=A.dtype), trans=trans)
        return P, {"kind": "matrix", "M": enc(M, cplx)}
    raise ValueError(kind)


def run_cg(ctx):
    rng = ctx.rng
    _, it, _ = _sol()
    import pymoto
    reqs, meta = [], []
    ncase = 30 if ctx.quick else 150
    kinds = ["id", "jacobi", "sor", "ilu"]
    for ci in range(ncase):
        cplx = rng.random() < 0.35
        n = rng.choice([3, 4, 5])
        pk = kinds[ci % 4]
        trans = rng.choice("NTH")
        shape = rng.choice(["n", "n1", "nk", "n2"])
        A = spd(rng, n, cplx)
        if shape == "n2":
            b = rint(rng, n, 2, -3, 3, cplx)
            for j in range(2):
                if not np.any(b[:, j]):
                    b[0, j] = 1
        else:
            b = gen_rhs(rng, n, shape, cplx)
        b = b.astype(complex if cplx else float)
        Asp = sps.csc_matrix(A)
        use_sparse = pk in ("sor", "ilu") or rng.random() < 0.5
        P, spec = make_precond(ctx, pk, A, Asp, trans, cplx, rng)
        x0 = None
        if rng.random() < 0.4:
            x0 = rint(rng, b.shape[0], 1 if b.ndim == 1 else b.shape[1], -2, 2, cplx).astype(b.dtype)
            if b.ndim == 1:
                x0 = x0[:, 0]
        restart = rng.choice([50, 1, 2])
        mmax = 3
        Aarg = Asp if use_sparse else A
        iters = []
        err = None
        for m in range(1, mmax + 1):
            with warnings.catch_warnings():
                warnings.simplefilter("ignore")
                s = it.CG(Aarg, preconditioner=P, maxit=m, restart=restart)
                r = call_impl(s.solve, b.copy(), x0=None if x0 is None else x0.copy(), trans=trans)
            if r[0] != "ok":
                err = r
                break
            iters.append(np.asarray(r[1]))
        Bq, k = enc_b(b, cplx)
        req = {"m": "c05.cg", "cplx": cplx, "n": n, "k": k, "A": enc(A, cplx), "b": Bq, "trans": trans,
               "x0": None if x0 is None else enc_b(x0, cplx)[0], "precond": spec, "tol": q(Fraction(1, 10 ** 7)),
               "maxit": mmax, "restart": restart, "zero_rtol": q(Fraction(1, 10 ** 15))}
        case = {"precond": pk, "spec_w": spec.get("w"), "trans": trans, "shape": shape, "n": n, "cplx": cplx, "x0": x0 is not None,
                "restart": restart, "sparse": use_sparse, "A": str(A.tolist()), "b": str(b.tolist()),
                "x0v": None if x0 is None else str(x0.tolist())}
        # full run: the property oracle
        with warnings.catch_warnings():
            warnings.simplefilter("ignore")
            s = it.CG(Aarg, preconditioner=P)
            rf = call_impl(s.solve, b.copy(), x0=None if x0 is None else x0.copy(), trans=trans)
        if rf[0] == "ok" and np.all(np.isfinite(rf[1])):
            oracle_solution(ctx, f"CG[{pk}].solve(trans={trans})", A, b, rf[1], trans, 1.0, case, tol=1e-6)
        elif err is None:
            ctx.oracle_fail(f"CG[{pk}] full run failed: {rf[1:] if rf[0] != 'ok' else 'non-finite result'}", case)
        ctx.branch(f"cg:{pk}:{'c' if cplx else 'r'}:{trans}")
        ctx.branch(f"cg_shape:{shape}")
        ctx.branch("cg_x0" if x0 is not None else "cg_nox0")
        reqs.append(req)
        meta.append((case, iters, err, cplx, b))
    outs = ctx.model(reqs)
    for (case, iters, err, cplx, b), o in zip(meta, outs):
        if "err" in o:
            if o["err"] in ("NaN", "LinAlgError"):
                # exact arithmetic hits 0/0 (a column converged exactly): excluded defect class, floats usually pass by
                ctx.skipped_boundary += 1
                ctx.branch("cg_model_breakdown_skipped")
                continue
            ctx.disagree("cg", case, "ok" if err is None else err[1], o["err"], "model error")
            continue
        if err is not None:
            ctx.disagree("cg", case, err[1], "ok", "implementation raised: " + err[2])
            continue
        tr = o["ok"]["trace"]
        good = True
        for m, xm in enumerate(tr):
            if m >= len(iters):
                break
            xmod = dec(xm, cplx)
            xi = iters[m].reshape(xmod.shape)
            sc = max(1.0, float(np.max(np.abs(xmod))))
            if not ctx.compare_close("cg-iterate", dict(case, iterate=m + 1), xi.flatten().tolist(), xmod.flatten().tolist(),
                                     rtol=1e-7, atol=1e-8, scale=sc):
                good = False
                break
        if good:
            ctx.branch(f"cg_iterates_compared:{min(len(tr), len(iters))}")
            if o["ok"]["converged"]:
                ctx.branch("cg_model_converged_within_3")
        ctx.sample({"stream": "cg", "case": {k: case[k] for k in ("precond", "trans", "shape", "n", "cplx", "x0", "restart")},
                    "model_relres": [float(fr(v)) for v in o["ok"]["relres"]]})


def run_mg(ctx):
    """GeometricMultigrid: interpolation matrix (exact) and CG preconditioned by a two-grid cycle"""
    rng = ctx.rng
    _, it, _ = _sol()
    import pymoto
    grids = [(2, 2, 0, 1), (4, 2, 0, 1), (2, 4, 0, 2), (2, 2, 2, 1)] + ([] if ctx.quick else [(4, 4, 0, 1), (4, 2, 2, 1), (2, 2, 2, 3), (6, 2, 0, 2)])
    reqs, meta = [], []
    for (nx, ny, nz, ndof) in grids:
        dom = pymoto.DomainDefinition(nx, ny, nz)
        nf = dom.nnodes * ndof
        mg = it.GeometricMultigrid(dom)
        mg.setup_interpolation(sps.identity(nf, format="csc"))
        R = np.asarray(mg.R.todense())
        reqs.append({"m": "c05.interp", "nelx": nx, "nely": ny, "nelz": nz, "ndof": ndof})
        meta.append(("interp", (nx, ny, nz, ndof), R))
        if not np.allclose(R.sum(axis=1), 1.0):
            ctx.oracle_fail("interpolation rows do not sum to 1", {"grid": [nx, ny, nz, ndof]})
    # CG + MG on the 2x2 grid (9 nodes)
    ncg = 3 if ctx.quick else 10
    for _ in range(ncg):
        nx, ny, nz, ndof = 2, 2, 0, 1
        dom = pymoto.DomainDefinition(nx, ny, nz)
        n = dom.nnodes
        A = spd(rng, n, False)
        Asp = sps.csc_matrix(A)
        trans = rng.choice("NT")
        steps = rng.choice([1, 2])
        shape = rng.choice(["n", "n2"])
        b = rint(rng, n, 2, -3, 3) if shape == "n2" else rint(rng, n, 1, -3, 3)[:, 0]
        if b.ndim == 2:
            for j in range(2):
                if not np.any(b[:, j]):
                    b[0, j] = 1
        elif not np.any(b):
            b[0] = 1
        iters = []
        err = None
        for m in (1, 2):
            with warnings.catch_warnings():
                warnings.simplefilter("ignore")
                mg = it.GeometricMultigrid(dom, smooth_steps=steps)
                s = it.CG(Asp, preconditioner=mg, maxit=m)
                r = call_impl(s.solve, b.copy(), trans=trans)
            if r[0] != "ok":
                err = r
                break
            iters.append(np.asarray(r[1]))
        R = np.asarray(mg.R.todense())
        Bq, k = enc_b(b, False)
        spec = {"kind": "mg", "nc": R.shape[1], "R": qlist(R), "w": q(0.5), "steps": int(steps)}
        reqs.append({"m": "c05.cg", "cplx": False, "n": n, "k": k, "A": qlist(A), "b": Bq, "trans": trans, "x0": None,
                     "precond": spec, "tol": q(Fraction(1, 10 ** 7)), "maxit": 2, "restart": 50,
                     "zero_rtol": q(Fraction(1, 10 ** 15))})
        case = {"precond": "mg", "steps": steps, "trans": trans, "A": str(A.tolist()), "b": str(b.tolist())}
        with warnings.catch_warnings():
            warnings.simplefilter("ignore")
            mg = it.GeometricMultigrid(dom, smooth_steps=steps)
            rf = call_impl(it.CG(Asp, preconditioner=mg).solve, b.copy(), trans=trans)
        if rf[0] == "ok":
            oracle_solution(ctx, "CG[mg].solve", A, b, rf[1], trans, 1.0, case, tol=1e-6)
        else:
            ctx.oracle_fail("CG[mg] raised " + rf[2], case)
        meta.append(("cgmg", case, (iters, err)))
        ctx.branch(f"cg:mg:{trans}:steps{steps}")
    outs = ctx.model(reqs)
    for (kind, case, data), o in zip(meta, outs):
        if kind == "interp":
            if "err" in o:
                ctx.disagree("interp", list(case), "ok", o["err"])
                continue
            Rm = [[float(fr(v)) for v in row] for row in o["ok"]["R"]]
            ctx.compare_exact("interp", list(case), np.asarray(data).tolist(), Rm, key=("interp",) + tuple(case))
            ctx.branch("interp")
        else:
            iters, err = data
            if "err" in o:
                if o["err"] in ("NaN", "LinAlgError"):
                    ctx.skipped_boundary += 1
                    continue
                ctx.disagree("cg-mg", case, "ok", o["err"])
                continue
            if err is not None:
                ctx.disagree("cg-mg", case, err[1], "ok", err[2])
                continue
            for m, xm in enumerate(o["ok"]["trace"]):
                if m >= len(iters):
                    break
                xmod = dec(xm, False)
                xi = iters[m].reshape(xmod.shape)
                ctx.compare_close("cg-mg-iterate", dict(case, iterate=m + 1), xi.flatten().tolist(), xmod.flatten().tolist(),
                                  rtol=1e-7, atol=1e-8, scale=max(1.0, float(np.max(np.abs(xmod)))))


# ------------------------------------------------------------------------------------------------
# orth
# ------------------------------------------------------------------------------------------------
def run_orth(ctx):
    rng = ctx.rng
    _, it, _ = _sol()
    reqs, meta = [], []
    for _ in range(20 if ctx.quick else 120):
        cplx = rng.random() < 0.4
        n = rng.choice([3, 4, 5])
        k = rng.choice([1, 2, 3, 4])
        u = rint(rng, n, k, -3, 3, cplx)
        for j in range(k):
            if not np.any(u[:, j]):
                u[j % n, j] = 1
        if k >= 3 and rng.random() < 0.6:
            u[:, k - 1] = u[:, 0] - 2 * u[:, 1]
            if not np.any(u[:, k - 1]):
                continue
        if k >= 2 and rng.random() < 0.2:
            u[:, 1] = 3 * u[:, 0]
        normalize = rng.random() < 0.5
        u = u.astype(complex if cplx else float)
        v = it.orth(u.copy(), normalize=normalize)
        reqs.append({"m": "c05.orth", "cplx": cplx, "n": n, "k": k, "u": enc(u, cplx), "normalize": normalize,
                     "zero_rtol": q(Fraction(1, 10 ** 15))})
        meta.append(({"u": str(u.tolist()), "normalize": normalize}, v, cplx, u))
        # oracle: orthogonal columns spanning the columns of u
        G = v.conj().T @ v
        offd = G - np.diag(np.diag(G))
        if np.max(np.abs(offd), initial=0.0) > 1e-9 * max(1.0, np.max(np.abs(G))):
            ctx.oracle_fail("orth: columns not orthogonal", {"u": str(u.tolist()), "normalize": normalize})
        if np.linalg.matrix_rank(np.hstack([u, v]), tol=1e-8) != v.shape[1]:
            ctx.oracle_fail("orth: span differs", {"u": str(u.tolist()), "normalize": normalize})
    outs = ctx.model(reqs)
    for (case, v, cplx, u), o in zip(meta, outs):
        if "err" in o:
            ctx.disagree("orth", case, "ok", o["err"])
            continue
        vm = dec(o["ok"]["v"], cplx) if o["ok"]["ncols"] > 0 else np.zeros((u.shape[0], 0))
        if vm.shape != v.shape:
            ctx.disagree("orth", case, list(v.shape), list(vm.shape), "number of kept columns")
            continue
        ctx.branch(f"orth:kept{v.shape[1]}of{u.shape[1]}:{'norm' if case['normalize'] else 'raw'}")
        ctx.compare_close("orth", case, v.flatten().tolist(), vm.flatten().tolist(), rtol=1e-9, atol=1e-10,
                          scale=max(1.0, float(np.max(np.abs(vm)))))


# ------------------------------------------------------------------------------------------------
# auto_determine_solver
# ------------------------------------------------------------------------------------------------
def class_name(s):
    nm = type(s).__name__
    if nm == "SolverDenseLDL":
        return nm + (":hermitian" if s.hermitian else ":symmetric")
    return nm


def run_auto(ctx):
    rng = ctx.rng
    _, _, ad = _sol()
    reqs, meta = [], []
    reps = 1 if ctx.quick else 4
    for kind in KINDS:
        for cplx in (False, True):
            for sparse in (False, True):
                for _ in range(reps):
                    n = rng.choice([2, 3, 4])
                    A = gen_matrix(rng, kind, n, cplx)
                    Aarg = sps.csc_matrix(A) if sparse else A
                    ov = {}
                    if rng.random() < 0.25:
                        key = rng.choice(["ishermitian", "issymmetric", "isdiagonal"])
                        ov[key] = rng.random() < 0.5
                    with warnings.catch_warnings():
                        warnings.simplefilter("ignore")
                        r = call_impl(ad.auto_determine_solver, Aarg, **ov)
                    req = {"m": "c05.auto", "cplx": cplx, "n": n, "A": enc(A, cplx), "sparse": sparse}
                    req.update(ov)
                    reqs.append(req)
                    case = {"kind": kind, "cplx": cplx, "sparse": sparse, "overrides": ov, "A": str(A.tolist())}
                    meta.append((case, r, A, Aarg))
                    # oracle: without overrides the returned solver solves the system in all modes
                    if r[0] == "ok" and not ov:
                        s = r[1]
                        for trans in "NTH":
                            b = gen_rhs(rng, n, "nk", cplx)
                            with warnings.catch_warnings():
                                warnings.simplefilter("ignore")
                                s.update(Aarg)
                                rr = call_impl(s.solve, b.copy(), trans=trans)
                            if rr[0] == "ok":
                                oracle_solution(ctx, f"auto->{type(s).__name__}({trans})", A, b, rr[1], trans,
                                                float(np.linalg.cond(A)), dict(case, trans=trans))
                            else:
                                ctx.oracle_fail(f"auto->{type(s).__name__} raised {rr[2]}", dict(case, trans=trans))
    outs = ctx.model(reqs)
    for (case, r, A, Aarg), o in zip(meta, outs):
        if "err" in o:
            if r[0] == "err" and r[1] == o["err"]:
                ctx.compare_exact("auto-error", case, r[1], o["err"])
            else:
                ctx.disagree("auto", case, r[1] if r[0] == "err" else class_name(r[1]), o["err"])
            continue
        if r[0] != "ok":
            ctx.disagree("auto", case, r[1], o["ok"]["class"])
            continue
        ctx.branch("auto:" + o["ok"]["class"])
        ctx.compare_exact("auto", case, class_name(r[1]), o["ok"]["class"])


# ------------------------------------------------------------------------------------------------
def correspondence(ctx):
    np.seterr(all="ignore")
    run_direct(ctx)
    run_auto(ctx)
    run_orth(ctx)
    run_cg(ctx)
    run_mg(ctx)


def search(ctx, disagreements):
    """re-run the residual/shape/dtype oracle on every solver for a sweep of generated systems"""
    found = []
    S, it, ad = _sol()
    rng = ctx.rng
    before = len(ctx.oracle_failures)
    for kind in KINDS:
        for Acplx in (False, True):
            for solver in SOLVERS_FOR[kind]:
                if not applicable(kind, solver, Acplx):
                    continue
                for trans in "NTH":
                    for shape in ("n", "nk"):
                        A = gen_matrix(rng, kind, 3, Acplx)
                        b = gen_rhs(rng, 3, shape, Acplx)
                        try:
                            s, _, _ = build_direct(ctx, kind, solver, A, b, trans, Acplx)
                            with warnings.catch_warnings():
                                warnings.simplefilter("ignore")
                                x = s.solve(b.copy(), trans=trans)
                            oracle_solution(ctx, f"{type(s).__name__}.solve(trans={trans})", A, b, x, trans,
                                            float(np.linalg.cond(A)),
                                            {"solver": solver, "kind": kind, "trans": trans, "A": str(A.tolist()), "b": str(b.tolist())})
                        except Exception as e:  # noqa
                            ctx.oracle_fail(f"{solver} raised {type(e).__name__}: {e}",
                                            {"solver": solver, "kind": kind, "trans": trans, "A": str(A.tolist()), "b": str(b.tolist())})
    for w in ctx.oracle_failures[before:]:
        found.append({"what": w["what"], "witness": w["witness"]})
    del ctx.oracle_failures[before:]
    return found


def replay(ctx, data):
    w = data.get("witness", data)
    wit = w.get("witness", w)
    S, it, ad = _sol()
    try:
        A = np.array(eval(wit["A"], {"__builtins__": {}}, {})) if isinstance(wit.get("A"), str) else np.array(wit["A"])
        b = np.array(eval(wit["b"], {"__builtins__": {}}, {})) if isinstance(wit.get("b"), str) else np.array(wit["b"])
        trans = wit.get("trans", "N")
        solver = wit.get("solver")
        if solver is None:
            return {"still_failing": False, "note": "witness without solver name; run the check again"}
        s, _, _ = build_direct(ctx, wit.get("kind", "gen"), solver, A, b, trans, bool(np.iscomplexobj(A) or np.iscomplexobj(b)))
        x = s.solve(b.copy(), trans=trans)
        res = float(np.linalg.norm(OP[trans](A) @ x - b) / np.linalg.norm(b))
        bad = (x.shape != b.shape) or not (res <= 1e-9 * max(1.0, np.linalg.cond(A)))
        return {"still_failing": bool(bad), "residual": res, "shape": list(x.shape)}
    except Exception as e:  # noqa
        return {"still_failing": True, "raised": f"{type(e).__name__}: {e}"}
