"""C05 — every linear solver solves the requested (transposed / adjoint) system
(pymoto/solvers/dense.py, sparse.py, iterative.py, auto_determine.py, matrix_checks.py)

correspondence streams (real solver object vs Lean model, driver ops c05.*):
  direct : SolverDiagonal / DenseQR / DenseLU / DenseCholesky (incl. LDL fall-back) / DenseLDL (Hermitian and complex
           symmetric) / SparseLU.  The factor attributes of the REAL solver after update() are read, the factorisation
           contract is checked numerically, factors + rhs are sent as exact rationals, the returned x is compared (mode T).
  cg     : iterates x_1..x_m of the block CG (real code run with maxit = m) vs the exact-arithmetic model, for the
           preconditioners identity / DampedJacobi / SOR / ILU (as operator) / GeometricMultigrid, trans N/T/H, x0.
  orth   : orth(u, normalize) on blocks with dependent columns.
  auto   : class returned by auto_determine_solver (dense/sparse, real/complex, overrides).
  interp : GeometricMultigrid.setup_interpolation (mode E).
oracle on the real code: relative residual of op(A) x = b, shape and dtype of x.

Input classes that were defects of the pinned tree and are REPAIRED in /repo (f06340d, 7a37cb6, 156f3c9) are generated and
compared like any other: SolverSparseLU real matrix + complex rhs; CG with a zero rhs column / zero vector, with a column
that converges exactly before the others, with a real x0 for a complex system (witnesses corpus/defects/c05_*.py).
CG with the SOR / ILU preconditioner, real sparse matrix and complex right-hand side (repaired: `_lu_solve`, witness
corpus/defects/c05_cg_sor_ilu_complex_rhs.py) is generated in the reuse stream like every other class.
  reuse  : ONE solver object per history, 2-5 update(A_i) calls (sub-classes alternate, sizes may change), solves with all
           trans modes after EACH update: residual oracle against the CURRENT matrix + model comparison from the factors
           read after each update (SolverDenseCholesky: whole update history sent to the model state machine).
  cg-restart : complex Hermitian PD systems (n 4-8, dense and sparse), trans T/H, restart 1/2/3, maxit 1..5, tol 1e-12.
"""
import warnings
from fractions import Fraction

import numpy as np
import scipy.sparse as sps

from ..common import q, qlist, qclist, fr, call_impl, vary_layout, frozen

RULE = ("direct: generated matrices of every class (diagonal, general, triangular, HPD, Hermitian indefinite, Hermitian "
        "indefinite with positive diagonal, complex symmetric), n in 2..6, small-integer entries, cond <= 1e6, real/complex "
        "matrix and rhs, rhs shapes (n),(n,1),(n,3 with a dependent column), trans N/T/H; cg: SPD/HPD systems n in 3..9; "
        "distinct = distinct (stream, solver, class, dtype, shape, trans, data) cases; all non-trivial (n >= 2)")
ASSUMPTIONS = [
    "optional back-ends (pypardiso, scikit-sparse, cvxopt, scikit-umfpack) are not installed and not modelled",
    "scipy qr/lu/cholesky/ldl/solve_triangular/splu/spilu/np.linalg.inv enter as contracts; the contracts are checked "
    "numerically on every generated case (factor products, triangularity)",
    "CG convergence within maxit is observed, not proved (cg_correct_partial)",
    "CG iterates after an iteration at which exact arithmetic has an exactly-zero residual column are compared only for "
    "the families whose float computation is exact there too (zero rhs column without x0, block-diagonal integer systems); "
    "elsewhere rounding noise may legitimately keep an extra search direction (counted as boundary)",
]

OP = {"N": lambda A: A, "T": lambda A: A.T, "H": lambda A: A.conj().T}


def _sol():
    import pymoto.solvers as S
    from pymoto.solvers import iterative, auto_determine
    return S, iterative, auto_determine


# ------------------------------------------------------------------------------------------------
# generators
# ------------------------------------------------------------------------------------------------
def rint(rng, n, m, lo=-3, hi=3, cplx=False):
    a = np.array([[rng.randint(lo, hi) for _ in range(m)] for _ in range(n)], dtype=float)
    if cplx:
        a = a + 1j * np.array([[rng.randint(lo, hi) for _ in range(m)] for _ in range(n)], dtype=float)
    return a


KINDS = ["diag", "gen", "tril", "triu", "hpd", "hindef", "hposdiag", "csym"]


def gen_matrix(rng, kind, n, cplx):
    for _ in range(200):
        M = rint(rng, n, n, cplx=cplx)
        if kind == "diag":
            d = np.array([rng.choice([-4, -3, -2, -1, 1, 2, 3, 5]) for _ in range(n)], dtype=float)
            if cplx:
                d = d + 1j * np.array([rng.randint(-2, 2) for _ in range(n)])
            A = np.diag(d)
        elif kind == "gen":
            A = M + np.diag([rng.choice([-1, 1]) * (2 * n + 1) for _ in range(n)])
            A[0, n - 1] += 1  # make sure it is not symmetric
            if np.allclose(A, A.T) or np.allclose(A, A.conj().T):
                continue
        elif kind == "tril":
            A = np.tril(M, -1) + np.diag([rng.choice([-3, -2, 2, 3, 4]) for _ in range(n)])
            A[n - 1, 0] = 1
        elif kind == "triu":
            A = np.triu(M, 1) + np.diag([rng.choice([-3, -2, 2, 3, 4]) for _ in range(n)])
            A[0, n - 1] = 1
        elif kind == "hpd":
            A = M @ M.conj().T + np.eye(n)
        elif kind == "hindef":
            A = M + M.conj().T
            sg = [(-1) ** i for i in range(n)]
            A[np.diag_indices(n)] = [s * rng.randint(2, 5) for s in sg]
        elif kind == "hposdiag":
            A = 3 * (M + M.conj().T)
            A[np.diag_indices(n)] = 1
            if np.all(np.linalg.eigvalsh(A) > 0):
                continue
        elif kind == "csym":
            A = M + M.T + np.diag([rng.randint(3, 6) for _ in range(n)])
            if cplx and np.allclose(A, A.conj().T):
                continue
        elif kind == "csymrd":
            # complex SYMMETRIC (not Hermitian) with a REAL, positive, dominant diagonal: looks positive definite on the diagonal,
            # but a Cholesky factorisation (which reads one triangle as Hermitian) would solve another system
            A = M + M.T
            A[np.diag_indices(n)] = [float(np.abs(A[i]).sum() + rng.randint(1, 3)) for i in range(n)]
            if cplx and np.allclose(A, A.conj().T):
                continue
        else:
            raise ValueError(kind)
        if kind != "diag" and np.allclose(A, np.diag(np.diag(A))):
            continue
        if kind in ("gen", "tril", "triu") and np.allclose(A, A.T):
            continue
        if np.linalg.cond(A) <= 1e6 and abs(np.linalg.det(A)) > 1e-6:
            return A if cplx else A.real.astype(float)
    raise RuntimeError("generator failed: " + kind)


def gen_rhs(rng, n, shape, cplx, dyadic=False):
    if shape == "n":
        b = rint(rng, n, 1, -4, 4, cplx)[:, 0]
    elif shape == "n1":
        b = rint(rng, n, 1, -4, 4, cplx)
    else:
        b = rint(rng, n, 3, -4, 4, cplx)
        b[:, 2] = 2 * b[:, 0] - b[:, 1]
    if not np.any(b):
        b.flat[0] = 1
    if b.ndim == 2:
        for j in range(b.shape[1]):
            if not np.any(b[:, j]):
                b[0, j] = 1
        if b.shape[1] == 3:
            b[:, 2] = 2 * b[:, 0] - b[:, 1]
            if not np.any(b[:, 2]):
                b[:, 1] += 1
                b[:, 2] = 2 * b[:, 0] - b[:, 1]
    if dyadic:
        b = b / 4
    return b


def enc(M, cplx):
    M = np.asarray(M)
    return qclist(M.astype(complex)) if cplx else qlist(M.astype(float))


def enc_b(b, cplx):
    B = np.asarray(b)
    if B.ndim == 1:
        B = B.reshape(-1, 1)
    return enc(B, cplx), B.shape[1]


def dec(x, cplx):
    """model matrix -> numpy array (float/complex)"""
    if cplx:
        return np.array([[complex(float(fr(v[0])), float(fr(v[1]))) for v in row] for row in x])
    return np.array([[float(fr(v)) for v in row] for row in x])


def relerr(a, b):
    a = np.asarray(a)
    b = np.asarray(b)
    return float(np.linalg.norm(a - b) / max(np.linalg.norm(b), 1e-300))


# ------------------------------------------------------------------------------------------------
# direct solvers
# ------------------------------------------------------------------------------------------------
SOLVERS_FOR = {
    "diag": ["diag", "qr", "lu", "sparselu"],
    "gen": ["qr", "lu", "sparselu"],
    "tril": ["qr", "lu", "sparselu"],
    "triu": ["qr", "lu", "sparselu"],
    "hpd": ["chol", "ldl", "qr", "lu", "sparselu"],
    "hindef": ["chol", "ldl", "lu", "sparselu"],
    "hposdiag": ["chol", "ldl"],
    "csym": ["ldl", "lu", "sparselu"],
}


def applicable(kind, solver, Acplx):
    if solver in ("chol",) and kind == "csym":
        return False
    if kind == "diag" and Acplx and solver in ("chol", "ldl"):
        return False
    return True


def build_direct(ctx, kind, solver, A, b, trans, cplx, obj=None, updated=False, ldl_flag=None):
    """update the real solver (a fresh one, or `obj` when given: solver re-use; `updated`: obj.update(A) was already
    called for this matrix), read its factors, check the contract, build the model request.
    returns (solver_object, request | None, note)"""
    S, _, _ = _sol()
    if obj is not None:
        class _Keep:   # constructor stand-in returning the existing object
            def __init__(self, o):
                self.o = o

            def __call__(self, *a, **k):
                return self.o
        keep = _Keep(obj)
        S = type("S", (), {nm: keep for nm in ("SolverDiagonal", "SolverDenseQR", "SolverDenseLU", "SolverDenseLDL",
                                                "SolverDenseCholesky", "SolverSparseLU")})
    n = A.shape[0]
    Bq, k = enc_b(b, cplx)
    req = {"m": "c05.direct", "cplx": cplx, "n": n, "k": k, "trans": trans, "B": Bq}
    tolc = 1e-10 * max(1.0, np.linalg.norm(A))
    # the matrix is handed to update() as the caller's own array in C order, Fortran order or as a transposed view (same logical
    # matrix); update() must not write into it
    A_in = vary_layout(np.array(A, copy=True), (kind, solver, trans, n, float(np.abs(A).sum())))
    ctx.branch("layout." + ("C" if A_in.flags.c_contiguous else "F"))
    snap_in = frozen(A_in)
    A_pristine, A = A, A_in
    if solver == "diag":
        s = S.SolverDiagonal()
        if not updated:
            s.update(A)
        req.update(solver="diag", diag=(qclist(np.asarray(s.diag).astype(complex)) if cplx else qlist(np.asarray(s.diag).astype(float))),
                   vec=bool(np.asarray(b).ndim == 1))
        ok = np.allclose(s.diag, np.diag(A))
    elif solver == "qr":
        s = S.SolverDenseQR()
        if not updated:
            s.update(A)
        req.update(solver="qr", q=enc(s.q, cplx), r=enc(s.r, cplx))
        ok = (np.linalg.norm(s.q @ s.r - A) <= tolc and np.linalg.norm(s.q.conj().T @ s.q - np.eye(n)) <= 1e-12 * n
              and np.allclose(s.r, np.triu(s.r), atol=0))
    elif solver == "lu":
        s = S.SolverDenseLU()
        if not updated:
            s.update(A)
        req.update(solver="lu", p=enc(s.p, cplx), l=enc(s.l, cplx), u=enc(s.u, cplx))
        ok = (np.linalg.norm(s.p @ s.l @ s.u - A) <= tolc and np.array_equal(s.p @ s.p.T, np.eye(n))
              and np.allclose(s.l, np.tril(s.l), atol=0) and np.allclose(s.u, np.triu(s.u), atol=0))
    elif solver == "ldl":
        s = S.SolverDenseLDL()
        # `hermitian` attribute BEFORE this update: None on a fresh object (update() detects it), else kept
        flag_before = ldl_flag if updated else s.hermitian
        if not updated:
            s.update(A)
        req.update(solver="ldl", l=enc(s.l, cplx), d=enc(s.d, cplx), p=[int(v) for v in s.p],
                   hermitian=(None if flag_before is None else bool(flag_before)), A=enc(A, cplx))
        ld = s.l @ s.d @ (s.l.conj().T if s.hermitian else s.l.T)
        ok = np.linalg.norm(ld - A) <= tolc and sorted(int(v) for v in s.p) == list(range(n))
        ctx.branch("ldl_hermitian" if s.hermitian else "ldl_symmetric")
        offd = s.d - np.diag(np.diag(s.d))
        if np.any(offd != 0) and np.allclose(s.d, np.diag(np.diag(s.d))):
            return s, None, "boundary"   # d within allclose of diagonal but not exactly diagonal
        ctx.branch("ldl_d_diagonal" if not np.any(offd != 0) else "ldl_d_blocks")
    elif solver == "chol":
        s = S.SolverDenseCholesky()
        if not updated:
            with warnings.catch_warnings():
                warnings.simplefilter("ignore")
                s.update(A)
        if s.success:
            req.update(solver="chol", U=enc(s.U, cplx), A=enc(A, cplx))
            ok = np.linalg.norm(s.U.conj().T @ s.U - A) <= tolc and np.allclose(s.U, np.triu(s.U), atol=0)
            ctx.branch("chol_success")
        else:
            bs = s.backup_solver
            req.update(solver="chol", U=None, A=enc(A, cplx), l=enc(bs.l, cplx), d=enc(bs.d, cplx), p=[int(v) for v in bs.p],
                       hermitian=None)
            ld = bs.l @ bs.d @ (bs.l.conj().T if bs.hermitian else bs.l.T)
            ok = np.linalg.norm(ld - A) <= tolc
            ctx.branch("chol_fallback_ldl")
            offd = bs.d - np.diag(np.diag(bs.d))
            if np.any(offd != 0) and np.allclose(bs.d, np.diag(np.diag(bs.d))):
                return s, None, "boundary"
    elif solver == "sparselu":
        s = S.SolverSparseLU()
        if not updated:
            s.update(sps.csc_matrix(A))
        req.update(solver="sparselu", A=enc(A, cplx), iscomplexA=bool(np.iscomplexobj(A)),
                   rhs_complex=bool(np.iscomplexobj(b)))
        ok = True
    else:
        raise ValueError(solver)
    if frozen(A_in) != snap_in:
        return s, None, "clobbered"
    A = A_pristine
    return s, req, ("ok" if ok else "contract")


def colres(A, b, x, trans):
    """column-wise ||op(A) x - b|| / ||b|| (absolute for a zero column)"""
    B = np.asarray(b).reshape(A.shape[0], -1)
    X = np.asarray(x).reshape(A.shape[0], -1)
    bn = np.linalg.norm(B, axis=0)
    bn[bn == 0] = 1.0
    return float(np.max(np.linalg.norm(OP[trans](A) @ X - B, axis=0) / bn))


def oracle_solution(ctx, what, A, b, x, trans, cond, witness, tol=1e-9):
    """the property itself on the real result; returns True when it holds"""
    bad = None
    if not isinstance(x, np.ndarray) or x.shape != np.asarray(b).shape:
        bad = f"shape {getattr(x, 'shape', None)} != {np.asarray(b).shape}"
    elif x.dtype != np.result_type(A.dtype, np.asarray(b).dtype):
        bad = f"dtype {x.dtype} != {np.result_type(A.dtype, np.asarray(b).dtype)}"
    else:
        r = colres(A, b, x, trans)
        if not r <= tol * max(cond, 1.0):
            bad = f"relative residual {r:.3e} (cond {cond:.2e})"
    if bad:
        w = dict(witness)
        w["observed"] = bad
        w["expected"] = f"x of the shape/dtype of b with op_{trans}(A) x = b (relative residual <= {tol * max(cond, 1.0):.1e})"
        ctx.oracle_fail(f"{what}: {bad}", w)
        return False
    return True


def direct_cases(ctx):
    rng = ctx.rng
    sizes = [2, 3, 4] if ctx.quick else [2, 3, 4, 5, 6]
    reps = 1 if ctx.quick else 3
    cases = []
    for kind in KINDS:
        for Acplx in (False, True):
            for solver in SOLVERS_FOR[kind]:
                if not applicable(kind, solver, Acplx):
                    continue
                for shape in ("n", "n1", "nk"):
                    for trans in "NTH":
                        for _ in range(reps):
                            n = rng.choice(sizes)
                            bcplx = rng.random() < 0.4
                            if solver == "sparselu" and (not Acplx) and rng.random() < 0.5:
                                bcplx = True    # repaired class: real factorisation, complex rhs
                            cases.append((kind, Acplx, solver, shape, trans, n, bcplx))
    return cases


def run_direct(ctx):
    rng = ctx.rng
    reqs, meta = [], []
    for (kind, Acplx, solver, shape, trans, n, bcplx) in direct_cases(ctx):
        A = gen_matrix(rng, kind, n, Acplx)
        b = gen_rhs(rng, n, shape, bcplx, dyadic=rng.random() < 0.3)
        cplx = bool(Acplx or bcplx)
        s, req, note = build_direct(ctx, kind, solver, A, b, trans, cplx)
        case = {"solver": solver, "kind": kind, "Acplx": Acplx, "bcplx": bcplx, "shape": shape, "trans": trans, "n": n,
                "A": np.asarray(A).tolist() if not Acplx else [[str(v) for v in row] for row in A],
                "b": np.asarray(b).tolist() if not bcplx else str(np.asarray(b).tolist())}
        if note == "boundary":
            ctx.skipped_boundary += 1
            continue
        if note == "clobbered":
            ctx.oracle_fail(f"{type(s).__name__}.update(A) wrote into the caller's matrix (handed over Fortran-ordered): A x = b no longer "
                            f"holds for the matrix the caller passed", dict(case, layout="F"))
            continue
        if note == "contract":
            ctx.disagree("direct-contract", case, "factorisation contract violated numerically", None)
            continue
        b_in = b.copy()
        if not np.iscomplexobj(b) and np.all(b == np.round(b)) and (n + int(np.abs(b).sum())) % 2 == 0:
            b_in = b.astype(np.int64)      # an integer-typed right-hand side (unit loads, np.eye(n, dtype=int)): same system
            ctx.branch("rhs_integer_dtype")
        with warnings.catch_warnings():
            warnings.simplefilter("ignore")
            r = call_impl(s.solve, b_in, trans=trans)
        cond = float(np.linalg.cond(A))
        if r[0] == "ok":
            oracle_solution(ctx, f"{type(s).__name__}.solve(trans={trans})", A, b, r[1], trans, cond, case)
        else:
            ctx.oracle_fail(f"{type(s).__name__}.solve raised {r[2]}", case)
        ctx.branch(f"direct:{solver}:{kind}:{'c' if Acplx else 'r'}")
        ctx.branch(f"shape:{shape}")
        ctx.branch(f"trans:{trans}")
        reqs.append(req)
        meta.append((case, r, cplx, cond, s))
    # malformed: unknown mode string
    S, _, _ = _sol()
    A = gen_matrix(rng, "hpd", 3, False)
    b = gen_rhs(rng, 3, "n", False)
    for solver in ("qr", "lu", "chol", "ldl", "sparselu"):
        s, req, note = build_direct(ctx, "hpd", solver, A, b, "X", False)
        r = call_impl(s.solve, b.copy(), trans="X")
        reqs.append(req)
        meta.append(({"solver": solver, "malformed": "trans=X"}, r, False, 1.0, s))
        ctx.branch("malformed_trans")
    outs = ctx.model(reqs)
    for (case, r, cplx, cond, s), o in zip(meta, outs):
        if "err" in o:
            if r[0] == "err" and o["err"] == r[1]:
                ctx.compare_exact("direct-error", case, r[1], o["err"])
            else:
                ctx.disagree("direct", case, r[1] if r[0] == "err" else "ok", o["err"], "model error")
            continue
        if r[0] != "ok":
            ctx.disagree("direct", case, r[1], "ok", "implementation raised")
            continue
        xm = dec(o["ok"]["x"], cplx)
        xi = np.asarray(r[1]).reshape(xm.shape)
        if "hermitian" in o["ok"]:
            hs = s.hermitian if hasattr(s, "hermitian") else s.backup_solver.hermitian
            if bool(hs) != bool(o["ok"]["hermitian"]):
                ctx.disagree("direct-ldl-flag", case, bool(hs), o["ok"]["hermitian"], "hermitian flag")
                continue
        sc = max(1.0, float(np.max(np.abs(xm)))) * max(cond, 1.0)
        ctx.compare_close("direct", case, xi.flatten().tolist(), xm.flatten().tolist(), rtol=1e-9 * max(cond, 1.0),
                          atol=1e-13, scale=sc)
        ctx.sample({"stream": "direct", "case": {k: case[k] for k in ("solver", "kind", "shape", "trans", "n")},
                    "x_impl": np.asarray(r[1]).flatten()[:3].astype(complex if cplx else float).tolist().__repr__()})


# ------------------------------------------------------------------------------------------------
# CG
# ------------------------------------------------------------------------------------------------
def spd(rng, n, cplx):
    for _ in range(100):
        M = rint(rng, n, n, -2, 2, cplx)
        A = M @ M.conj().T + (1 + rng.randint(0, 2)) * np.eye(n)
        if np.linalg.cond(A) < 1e4:
            return A if cplx else A.real
    raise RuntimeError("spd generator")


def make_precond(ctx, kind, A, Asp, trans, cplx, rng):
    """returns (real preconditioner object, model spec)"""
    _, it, _ = _sol()
    n = A.shape[0]
    if kind == "id":
        return it.Preconditioner(), {"kind": "id"}
    if kind == "jacobi":
        w = rng.choice([1.0, 0.5, 0.75])
        return it.DampedJacobi(w=w), {"kind": "jacobi", "w": (qclist(complex(w)) if cplx else q(w))}
    if kind == "sor":
        w = rng.choice([1.0, 0.5, 1.5])
        return it.SOR(w=w), {"kind": "sor", "w": (qclist(complex(w)) if cplx else q(w))}
    if kind == "ilu":
        P = it.ILU()
        P.update(Asp)
        M = P.solve(np.eye(n, dtype=A.dtype), trans=trans)
        return P, {"kind": "matrix", "M": enc(M, cplx)}
    raise ValueError(kind)


def hpd_complex(rng, n):
    """complex Hermitian positive definite with a non-zero imaginary part (A^T = conj(A) != A)"""
    for _ in range(200):
        A = spd(rng, n, True)
        if np.max(np.abs(A.imag)) > 0:
            return A
    raise RuntimeError("hpd_complex generator")


def nz_cols(b):
    if b.ndim == 2:
        for j in range(b.shape[1]):
            if not np.any(b[:, j]):
                b[0, j] = 1
    elif not np.any(b):
        b[0] = 1
    return b


def cg_case_list(ctx):
    """list of dicts: A b x0 trans pk restart tol mmax sparse exact family"""
    rng = ctx.rng
    cases = []
    kinds = ["id", "jacobi", "sor", "ilu"]
    # ---- random systems -------------------------------------------------------------------
    for ci in range(24 if ctx.quick else 120):
        cplx = rng.random() < 0.35
        n = rng.choice([3, 4, 5])
        pk = kinds[ci % 4]
        shape = rng.choice(["n", "n1", "nk", "n2"])
        A = spd(rng, n, cplx)
        b = nz_cols(rint(rng, n, 2, -3, 3, cplx)) if shape == "n2" else gen_rhs(rng, n, shape, cplx)
        b = b.astype(complex if cplx else float)
        x0 = None
        if rng.random() < 0.4:
            x0 = rint(rng, n, 1 if b.ndim == 1 else b.shape[1], -2, 2, cplx).astype(b.dtype)
            if b.ndim == 1:
                x0 = x0[:, 0]
        cases.append(dict(A=A, b=b, x0=x0, trans=rng.choice("NTH"), pk=pk, restart=rng.choice([50, 1, 2]), tol=1e-7, mmax=3,
                          sparse=pk in ("sor", "ilu") or rng.random() < 0.5, exact=False, family="random"))
    # ---- explicit restarts on complex Hermitian PD systems, trans T / H ---------------------
    for ci in range(12 if ctx.quick else 48):
        n = [4, 5, 6, 7, 8, 5][ci % 6]
        A = hpd_complex(rng, n)
        k = 1 if ci % 3 else 2
        b = nz_cols(rint(rng, n, k, -3, 3, True)).astype(complex)
        shape = "n2"
        if k == 1 and ci % 2:
            b = b[:, 0]
            shape = "n"
        x0 = None
        if ci % 4 == 1:
            x0 = rint(rng, n, k, -2, 2, True).astype(complex)
            if b.ndim == 1:
                x0 = x0[:, 0]
        cases.append(dict(A=A, b=b, x0=x0, trans="TH"[ci % 2] if ci % 5 else "T", pk=["id", "jacobi"][(ci // 2) % 2],
                          restart=[1, 2, 3][ci % 3], tol=1e-12, mmax=5, sparse=bool((ci // 3) % 2), exact=False,
                          family="restart"))
    # ---- repaired classes --------------------------------------------------------------------
    for ci in range(6 if ctx.quick else 24):
        cplx = ci % 3 == 2
        n = rng.choice([3, 4, 5])
        A = spd(rng, n, cplx)
        b = nz_cols(rint(rng, n, 3, -3, 3, cplx)).astype(complex if cplx else float)
        b[:, ci % 3] = 0                                   # zero right-hand-side column
        x0 = None
        if ci % 2:
            x0 = rint(rng, n, 3, -2, 2, cplx).astype(b.dtype)
        cases.append(dict(A=A, b=b, x0=x0, trans=rng.choice("NTH"), pk=kinds[ci % 4], restart=rng.choice([50, 1, 2]),
                          tol=1e-7, mmax=3, sparse=True, exact=(x0 is None), family="zero_column"))
    for ci in range(2):
        n = 3 + ci
        A = spd(rng, n, bool(ci))
        b = np.zeros(n, dtype=complex if ci else float)    # zero vector
        cases.append(dict(A=A, b=b, x0=None, trans="N", pk="id", restart=50, tol=1e-7, mmax=2, sparse=False, exact=True,
                          family="zero_vector"))
    for ci in range(6 if ctx.quick else 24):
        # block-diagonal integer system: the first column (a multiple of e_0, pivot a power of two) converges exactly in
        # the first iteration, the others need more iterations
        cplx = ci % 3 == 2
        n = rng.choice([3, 4, 5])
        S_ = spd(rng, n - 1, cplx)
        A = np.zeros((n, n), dtype=S_.dtype)
        A[0, 0] = rng.choice([1, 2, 4, 8])
        A[1:, 1:] = S_
        k = rng.choice([2, 3])
        b = nz_cols(rint(rng, n, k, -3, 3, cplx)).astype(A.dtype)
        b[:, 0] = 0
        b[0, 0] = rng.choice([-3, -1, 1, 2, 5])
        for j in range(1, k):
            if not np.any(b[1:, j]):
                b[1, j] = 1
        if ci % 3 != 1:
            # ... and the slowly converging columns are many orders of magnitude SMALLER than the one that is done at once
            b[:, 1:] = b[:, 1:] * 2.0 ** -rng.choice([27, 30, 40])
        cases.append(dict(A=A, b=b, x0=None, trans=rng.choice("NTH"), pk=["id", "jacobi"][ci % 2], restart=rng.choice([50, 1, 2]),
                          tol=1e-7, mmax=3, sparse=bool(ci % 2), exact=True, family="exact_column"))
    for ci in range(8 if ctx.quick else 32):
        # block right-hand sides whose columns differ by many orders of magnitude (scaled by powers of two: the arithmetic of
        # every column is the same as unscaled): each column must converge relative to ITS OWN norm
        cplx = ci % 3 == 2
        n = rng.choice([4, 5, 6])
        A = hpd_complex(rng, n) if cplx else spd(rng, n, False)
        k = rng.choice([2, 3])
        b = nz_cols(rint(rng, n, k, -3, 3, cplx)).astype(A.dtype)
        sc = [1.0, 2.0 ** -rng.choice([20, 30]), 2.0 ** -rng.choice([33, 40])][:k]
        rng.shuffle(sc)
        b = b * np.array(sc)[None, :]
        x0 = None
        if ci % 4 == 1:
            x0 = (rint(rng, n, k, -2, 2, cplx).astype(A.dtype)) * np.array(sc)[None, :]
        cases.append(dict(A=A, b=b, x0=x0, trans=rng.choice("NTH"), pk=kinds[ci % 4], restart=rng.choice([50, 2]),
                          tol=1e-7, mmax=3, sparse=kinds[ci % 4] in ("sor", "ilu") or bool(ci % 2), exact=False,
                          family="scaled_columns"))
    for ci in range(8 if ctx.quick else 32):
        # an initial guess FAR from the solution (2^17 ... 2^24 times its size, exact power-of-two factors): the tolerance is
        # relative to |b|, whatever the guess
        cplx = ci % 3 == 2
        n = rng.choice([4, 5, 6])
        A = hpd_complex(rng, n) if cplx else spd(rng, n, False)
        k = [None, 1, 3][ci % 3]
        b = nz_cols(rint(rng, n, 1 if k is None else k, -3, 3, cplx)).astype(A.dtype)
        x0 = rint(rng, n, 1 if k is None else k, -2, 2, cplx).astype(A.dtype)
        x0[0, :] += 1
        x0 = x0 * 2.0 ** rng.choice([17, 20, 24])
        if k is None:
            b, x0 = b[:, 0], x0[:, 0]
        cases.append(dict(A=A, b=b, x0=x0, trans=rng.choice("NTH"), pk=kinds[ci % 4], restart=rng.choice([50, 2]),
                          tol=1e-7, mmax=3, sparse=kinds[ci % 4] in ("sor", "ilu") or bool(ci % 2), exact=False, family="far_x0"))
    for ci in range(4 if ctx.quick else 16):
        n = rng.choice([3, 4, 5])
        A = hpd_complex(rng, n)
        shape = ["n", "n2"][ci % 2]
        b = nz_cols(rint(rng, n, 2, -3, 3, ci % 4 < 2)).astype(complex if ci % 4 < 2 else float)
        if shape == "n":
            b = b[:, 0]
        x0 = rint(rng, n, 2, -2, 2, False)                 # REAL initial guess for a complex system
        x0 = x0[:, 0] if shape == "n" else x0
        cases.append(dict(A=A, b=b, x0=x0, trans=rng.choice("NTH"), pk=["id", "jacobi"][ci % 2], restart=rng.choice([50, 2]),
                          tol=1e-7, mmax=3, sparse=bool(ci % 2), exact=False, family="real_x0_complex"))
    return cases


def arr_repr(a):
    return None if a is None else repr(np.asarray(a).tolist())


def run_cg(ctx):
    rng = ctx.rng
    _, it, _ = _sol()
    reqs, meta = [], []
    for c in cg_case_list(ctx):
        A, b, x0, trans, pk = c["A"], c["b"], c["x0"], c["trans"], c["pk"]
        cplx = bool(np.iscomplexobj(A) or np.iscomplexobj(b) or (x0 is not None and np.iscomplexobj(x0)))
        n = A.shape[0]
        Asp = sps.csc_matrix(A)
        P, spec = make_precond(ctx, pk, A.astype(complex) if cplx and pk == "ilu" and not np.iscomplexobj(A) else A,
                               Asp, trans, cplx, rng)
        Aarg = Asp if c["sparse"] else A
        iters = []
        err = None
        for m in range(1, c["mmax"] + 1):
            with warnings.catch_warnings():
                warnings.simplefilter("ignore")
                s = it.CG(Aarg, preconditioner=P, maxit=m, restart=c["restart"], tol=c["tol"])
                r = call_impl(s.solve, b.copy(), x0=None if x0 is None else x0.copy(), trans=trans)
            if r[0] != "ok":
                err = r
                break
            iters.append(np.asarray(r[1]))
        Bq, k = enc_b(b, cplx)
        req = {"m": "c05.cg", "cplx": cplx, "n": n, "k": k, "A": enc(A, cplx), "b": Bq, "trans": trans,
               "x0": None if x0 is None else enc_b(x0, cplx)[0], "precond": spec, "tol": q(Fraction(c["tol"]).limit_denominator(10 ** 15)),
               "maxit": c["mmax"], "restart": c["restart"], "zero_rtol": q(Fraction(1, 10 ** 15))}
        wv = spec.get("w")
        wv = None if wv is None else float(fr(wv[0] if isinstance(wv, list) else wv))
        case = {"stream": "cg", "family": c["family"], "precond": pk, "w": wv, "trans": trans, "n": n, "cplx": cplx,
                "x0": x0 is not None, "restart": c["restart"], "sparse": c["sparse"], "tol": c["tol"],
                "A": arr_repr(A), "b": arr_repr(b), "x0v": arr_repr(x0)}
        # full run: the property oracle
        with warnings.catch_warnings():
            warnings.simplefilter("ignore")
            s = it.CG(Aarg, preconditioner=P, restart=c["restart"], tol=c["tol"], maxit=2000)
            rf = call_impl(s.solve, b.copy(), x0=None if x0 is None else x0.copy(), trans=trans)
        if rf[0] == "ok" and np.all(np.isfinite(rf[1])):
            oracle_solution(ctx, f"CG[{pk}].solve(trans={trans}, restart={c['restart']})", A, b, rf[1], trans, 1.0, case,
                            tol=max(1e-6, 10 * c["tol"]))
        else:
            ctx.oracle_fail(f"CG[{pk}] full run failed: {rf[1:] if rf[0] != 'ok' else 'non-finite result'}", case)
        ctx.branch(f"cg:{c['family']}:{pk}:{'c' if cplx else 'r'}:{trans}")
        ctx.branch(f"cg_restart:{c['restart']}")
        ctx.branch("cg_x0" if x0 is not None else "cg_nox0")
        reqs.append(req)
        meta.append((case, iters, err, cplx, b, c["exact"]))
    outs = ctx.model(reqs)
    for (case, iters, err, cplx, b, exact), o in zip(meta, outs):
        if "err" in o:
            ctx.disagree("cg", case, "ok" if err is None else err[1], o["err"], "model error")
            continue
        if err is not None:
            ctx.disagree("cg", case, err[1], "ok", "implementation raised: " + err[2])
            continue
        tr = o["ok"]["trace"]
        rz = o["ok"]["rzero"]
        good = True
        ncmp = 0
        for m, xm in enumerate(tr):
            if m >= len(iters):
                break
            if (not exact) and any(rz[:m]):
                # exact arithmetic dropped an exactly-zero direction earlier; floats may keep a noise direction
                ctx.skipped_boundary += 1
                ctx.branch("cg_after_exact_zero_column_skipped")
                break
            xmod = dec(xm, cplx)
            xi = iters[m].reshape(xmod.shape)
            sc = max(1.0, float(np.max(np.abs(xmod))))
            if case.get("x0v") is not None and case.get("family") == "far_x0":
                # x = x0 + (small): the floats carry an absolute error of |x0| * eps * cond
                sc = max(sc, 1e-5 * float(np.max(np.abs(np.array(eval(case["x0v"]), dtype=complex)))))
            ncmp += 1
            if not ctx.compare_close("cg-iterate", dict(case, iterate=m + 1), xi.flatten().tolist(), xmod.flatten().tolist(),
                                     rtol=1e-7, atol=1e-8, scale=sc):
                good = False
                break
        if len(tr) == 0:
            # converged before the first iteration (zero right-hand side / exact x0): x = x0 or 0
            xmod = dec(o["ok"]["x"], cplx)
            if iters:
                ctx.compare_close("cg-iterate", dict(case, iterate=0), iters[0].reshape(xmod.shape).flatten().tolist(),
                                  xmod.flatten().tolist(), rtol=1e-9, atol=1e-12)
        if good:
            ctx.branch(f"cg_iterates_compared:{ncmp}")
            if any(rz):
                ctx.branch("cg_exact_zero_column_seen")
        ctx.sample({"stream": "cg", "case": {k: case[k] for k in ("family", "precond", "trans", "n", "cplx", "x0", "restart")},
                    "model_relres": [float(fr(v)) for v in o["ok"]["relres"]]})


# ------------------------------------------------------------------------------------------------
# solver RE-USE: one object, several update(A_i)
# ------------------------------------------------------------------------------------------------
REUSE_KINDS = {
    "diag": ["diag"],
    "qr": ["gen", "tril", "hpd", "csym", "triu"],
    "lu": ["gen", "hindef", "triu", "csym", "tril"],
    "sparselu": ["gen", "hpd", "tril", "hindef"],
    "chol": None,           # alternates failing / succeeding factorisations, see below
    "ldl_h": ["hindef", "hpd", "hposdiag"],
    "ldl_s": ["csym"],
}


def run_reuse(ctx):
    rng = ctx.rng
    S, it, ad = _sol()
    import pymoto
    reqs, meta = [], []
    nhist = 1 if ctx.quick else 4

    def solves_after_update(name, solver, s, A, kind, hist, ui, chol_updates=None, ldl_flag=None, model=True,
                            cplx_rhs_ok=True, mats=None):
        """all trans modes (random rhs shape each) on the object `s` whose LAST update was A"""
        n = A.shape[0]
        Acplx = bool(np.iscomplexobj(A))
        for trans in "NTH":
            shape = rng.choice(["n", "n1", "nk"])
            bcplx = Acplx or (cplx_rhs_ok and rng.random() < 0.3)
            b = gen_rhs(rng, n, shape, bcplx)
            cplx = bool(Acplx or bcplx)
            case = {"stream": "reuse", "solver": name, "history": hist, "update_index": ui, "kind": kind, "trans": trans,
                    "shape": shape, "A": arr_repr(A), "b": arr_repr(b), "sparse": bool(getattr(s, "_c05_sparse", False)),
                    "history_A": [arr_repr(M) for M in (mats or [A])]}
            with warnings.catch_warnings():
                warnings.simplefilter("ignore")
                r = call_impl(s.solve, b.copy(), trans=trans)
            if r[0] == "ok":
                oracle_solution(ctx, f"re-used {type(s).__name__} after update #{ui + 1} (trans={trans})", A, b, r[1], trans,
                                float(np.linalg.cond(A)), case, tol=1e-9 if not isinstance(s, it.CG) else 1e-6)
            else:
                ctx.oracle_fail(f"re-used {type(s).__name__} after update #{ui + 1} raised {r[2]}", case)
            ctx.branch(f"reuse:{name}:update{ui + 1}")
            if not model or r[0] != "ok":
                continue
            if solver == "chol":
                Bq, k = enc_b(b, cplx)
                ups = []
                for (Au, fac) in chol_updates:
                    u = {"A": enc(Au, cplx)}
                    if fac["U"] is not None:
                        u["U"] = enc(fac["U"], cplx)
                    else:
                        u.update(U=None, l=enc(fac["l"], cplx), d=enc(fac["d"], cplx), p=fac["p"])
                    ups.append(u)
                req = {"m": "c05.chol_hist", "cplx": cplx, "n": n, "k": k, "trans": trans, "B": Bq, "updates": ups}
                note = "ok"
            else:
                _, req, note = build_direct(ctx, kind, solver, A, b, trans, cplx, obj=s, updated=True, ldl_flag=ldl_flag)
            if note == "clobbered":
                ctx.oracle_fail(f"{solver}: update(A) wrote into the caller's matrix", case)
                continue
            if note == "boundary" or req is None:
                ctx.skipped_boundary += 1
                continue
            if note == "contract":
                ctx.disagree("reuse-contract", case, "factorisation contract violated numerically", None)
                continue
            reqs.append(req)
            meta.append((case, r, cplx, float(np.linalg.cond(A))))

    for h in range(nhist):
        # ---- direct solvers ---------------------------------------------------------------
        for name in ("diag", "qr", "lu", "sparselu", "ldl_h", "ldl_s"):
            solver = name.split("_")[0]
            s = {"diag": S.SolverDiagonal, "qr": S.SolverDenseQR, "lu": S.SolverDenseLU, "sparselu": S.SolverSparseLU,
                 "ldl": S.SolverDenseLDL}[solver]()
            nup = rng.randint(2, 3 if ctx.quick else 5)
            cplx_obj = (name == "ldl_s") or rng.random() < 0.4
            hist, mats = [], []
            s._c05_sparse = solver == "sparselu"
            for ui in range(nup):
                kind = REUSE_KINDS[name][(ui + h) % len(REUSE_KINDS[name])]
                n = rng.choice([2, 3, 4])
                # dtype may change between updates (except for the LDL objects, whose cached flag is dtype related)
                Ac = cplx_obj if solver == "ldl" else (cplx_obj if ui % 2 == 0 else not cplx_obj)
                A = gen_matrix(rng, kind, n, Ac)
                hist.append(kind + ("c" if Ac else "r") + str(n))
                flag = s.hermitian if solver == "ldl" else None
                with warnings.catch_warnings():
                    warnings.simplefilter("ignore")
                    s.update(sps.csc_matrix(A) if solver == "sparselu" else A)
                mats.append(A)
                solves_after_update(name, solver, s, A, kind, list(hist), ui, ldl_flag=flag, mats=list(mats))
        # ---- Cholesky: indefinite -> positive definite -> indefinite ... on ONE object -----------
        for start_fail in (True, False):
            s = S.SolverDenseCholesky()
            cplx_obj = rng.random() < 0.5
            n = rng.choice([2, 3, 4])
            nup = rng.randint(2, 3 if ctx.quick else 5)
            hist, ups = [], []
            for ui in range(nup):
                fail = (ui % 2 == 0) == start_fail
                kind = rng.choice(["hindef", "hposdiag"]) if fail else "hpd"
                A = gen_matrix(rng, kind, n, cplx_obj)
                hist.append(kind)
                with warnings.catch_warnings():
                    warnings.simplefilter("ignore")
                    s.update(A)
                # what scipy returned for THIS matrix (independent of the object's flags)
                try:
                    import scipy.linalg as spla
                    U = spla.cholesky(A)
                    fac = {"U": U}
                except np.linalg.LinAlgError:
                    bs = s.backup_solver
                    fac = {"U": None, "l": bs.l.copy(), "d": bs.d.copy(), "p": [int(v) for v in bs.p]}
                    offd = bs.d - np.diag(np.diag(bs.d))
                    if np.any(offd != 0) and np.allclose(bs.d, np.diag(np.diag(bs.d))):
                        fac = None
                if fac is None:
                    ctx.skipped_boundary += 1
                    break
                ups.append((A, fac))
                ctx.branch("reuse:chol:" + ("fallback" if fac["U"] is None else "success") + f"@{ui + 1}")
                solves_after_update("chol", "chol", s, A, kind, list(hist), ui, chol_updates=list(ups),
                                    mats=[u[0] for u in ups])
        # ---- CG with every preconditioner ---------------------------------------------------------
        for pk in ("id", "jacobi", "sor", "ilu", "mg"):
            if pk == "mg":
                dom = pymoto.DomainDefinition(2, 2, 0)
                P = it.GeometricMultigrid(dom, smooth_steps=2)
            else:
                P = {"id": it.Preconditioner, "jacobi": it.DampedJacobi, "sor": it.SOR, "ilu": it.ILU}[pk]()
            s = it.CG(preconditioner=P, tol=1e-9)
            cplx_obj = pk != "mg" and rng.random() < 0.4
            hist, mats = [], []
            s._c05_sparse = True
            for ui in range(2 if ctx.quick else 3):
                n = 9 if pk == "mg" else rng.choice([3, 4, 5])
                A = spd(rng, n, cplx_obj)
                mats.append(A)
                hist.append(f"spd{n}")
                with warnings.catch_warnings():
                    warnings.simplefilter("ignore")
                    s.update(sps.csc_matrix(A))
                solves_after_update("cg_" + pk, "cg", s, A, "hpd", list(hist), ui, model=False, mats=list(mats))
        # ---- the solver returned by auto_determine_solver ------------------------------------------
        for kind in ("hpd", "hindef", "csym", "gen", "diag"):
            for sparse in (False, True):
                cplx_obj = rng.random() < 0.4 or kind == "csym"
                A = gen_matrix(rng, kind, 3, cplx_obj)
                with warnings.catch_warnings():
                    warnings.simplefilter("ignore")
                    s = ad.auto_determine_solver(sps.csc_matrix(A) if sparse else A)
                s._c05_sparse = sparse
                hist, mats = [], [A]
                for ui in range(3 if kind == "hpd" else 2):
                    k2 = kind
                    if kind == "hpd" and ui == 1:
                        k2 = "hposdiag"     # Cholesky chosen for the first matrix must fall back for the second
                    A = gen_matrix(rng, k2, rng.choice([2, 3, 4]), cplx_obj)
                    hist.append(k2)
                    mats.append(A)
                    with warnings.catch_warnings():
                        warnings.simplefilter("ignore")
                        s.update(sps.csc_matrix(A) if sparse else A)
                    # history_A[0] is the matrix handed to auto_determine_solver, the others the update() calls
                    solves_after_update("auto_" + type(s).__name__, "auto", s, A, k2, list(hist), ui, model=False,
                                        mats=list(mats))
    outs = ctx.model(reqs)
    for (case, r, cplx, cond), o in zip(meta, outs):
        if "err" in o:
            ctx.disagree("reuse", case, "ok", o["err"], "model error")
            continue
        xm = dec(o["ok"]["x"], cplx)
        xi = np.asarray(r[1]).reshape(xm.shape)
        sc = max(1.0, float(np.max(np.abs(xm)))) * max(cond, 1.0)
        ctx.compare_close("reuse", case, xi.flatten().tolist(), xm.flatten().tolist(), rtol=1e-9 * max(cond, 1.0),
                          atol=1e-13, scale=sc)


def run_mg(ctx):
    """GeometricMultigrid: interpolation matrix (exact) and CG preconditioned by a two-grid cycle"""
    rng = ctx.rng
    _, it, _ = _sol()
    import pymoto
    grids = [(2, 2, 0, 1), (4, 2, 0, 1), (2, 4, 0, 2), (2, 2, 2, 1)] + ([] if ctx.quick else [(4, 4, 0, 1), (4, 2, 2, 1), (2, 2, 2, 3), (6, 2, 0, 2)])
    reqs, meta = [], []
    for (nx, ny, nz, ndof) in grids:
        dom = pymoto.DomainDefinition(nx, ny, nz)
        nf = dom.nnodes * ndof
        mg = it.GeometricMultigrid(dom)
        mg.setup_interpolation(sps.identity(nf, format="csc"))
        R = np.asarray(mg.R.todense())
        reqs.append({"m": "c05.interp", "nelx": nx, "nely": ny, "nelz": nz, "ndof": ndof})
        meta.append(("interp", (nx, ny, nz, ndof), R))
        if not np.allclose(R.sum(axis=1), 1.0):
            ctx.oracle_fail("interpolation rows do not sum to 1", {"grid": [nx, ny, nz, ndof]})
        # mg_interp_linear on the real matrix: a tri-affine function of the node position is reproduced
        idx_f = np.asarray(dom.get_node_indices()).astype(float)
        idx_c = 2.0 * np.asarray(mg.sub_domain.get_node_indices()).astype(float)
        coef = [(rng.randint(-3, 3), rng.randint(-3, 3)) for _ in range(idx_f.shape[0])]
        gf = np.prod([a_ + b_ * idx_f[ax] for ax, (a_, b_) in enumerate(coef)], axis=0)
        gc = np.prod([a_ + b_ * idx_c[ax] for ax, (a_, b_) in enumerate(coef)], axis=0)
        if not np.allclose(R @ np.repeat(gc, ndof), np.repeat(gf, ndof)):
            ctx.oracle_fail("interpolation does not reproduce a multilinear function", {"grid": [nx, ny, nz, ndof], "coef": coef})
        ctx.branch("interp_linear_oracle")
    # CG + MG on the 2x2 grid (9 nodes)
    ncg = 3 if ctx.quick else 10
    for _ in range(ncg):
        nx, ny, nz, ndof = 2, 2, 0, 1
        dom = pymoto.DomainDefinition(nx, ny, nz)
        n = dom.nnodes
        A = spd(rng, n, False)
        Asp = sps.csc_matrix(A)
        trans = rng.choice("NT")
        steps = rng.choice([1, 2])
        shape = rng.choice(["n", "n2"])
        b = rint(rng, n, 2, -3, 3) if shape == "n2" else rint(rng, n, 1, -3, 3)[:, 0]
        if b.ndim == 2:
            for j in range(2):
                if not np.any(b[:, j]):
                    b[0, j] = 1
        elif not np.any(b):
            b[0] = 1
        iters = []
        err = None
        for m in (1, 2):
            with warnings.catch_warnings():
                warnings.simplefilter("ignore")
                mg = it.GeometricMultigrid(dom, smooth_steps=steps)
                s = it.CG(Asp, preconditioner=mg, maxit=m)
                r = call_impl(s.solve, b.copy(), trans=trans)
            if r[0] != "ok":
                err = r
                break
            iters.append(np.asarray(r[1]))
        R = np.asarray(mg.R.todense())
        Bq, k = enc_b(b, False)
        spec = {"kind": "mg", "nc": R.shape[1], "R": qlist(R), "w": q(0.5), "steps": int(steps)}
        reqs.append({"m": "c05.cg", "cplx": False, "n": n, "k": k, "A": qlist(A), "b": Bq, "trans": trans, "x0": None,
                     "precond": spec, "tol": q(Fraction(1, 10 ** 7)), "maxit": 2, "restart": 50,
                     "zero_rtol": q(Fraction(1, 10 ** 15))})
        case = {"precond": "mg", "steps": steps, "trans": trans, "A": str(A.tolist()), "b": str(b.tolist())}
        with warnings.catch_warnings():
            warnings.simplefilter("ignore")
            mg = it.GeometricMultigrid(dom, smooth_steps=steps)
            rf = call_impl(it.CG(Asp, preconditioner=mg).solve, b.copy(), trans=trans)
        if rf[0] == "ok":
            oracle_solution(ctx, "CG[mg].solve", A, b, rf[1], trans, 1.0, case, tol=1e-6)
        else:
            ctx.oracle_fail("CG[mg] raised " + rf[2], case)
        meta.append(("cgmg", case, (iters, err)))
        ctx.branch(f"cg:mg:{trans}:steps{steps}")
    outs = ctx.model(reqs)
    for (kind, case, data), o in zip(meta, outs):
        if kind == "interp":
            if "err" in o:
                ctx.disagree("interp", list(case), "ok", o["err"])
                continue
            Rm = [[float(fr(v)) for v in row] for row in o["ok"]["R"]]
            ctx.compare_exact("interp", list(case), np.asarray(data).tolist(), Rm, key=("interp",) + tuple(case))
            ctx.branch("interp")
        else:
            iters, err = data
            if "err" in o:
                if o["err"] in ("NaN", "LinAlgError"):
                    ctx.skipped_boundary += 1
                    continue
                ctx.disagree("cg-mg", case, "ok", o["err"])
                continue
            if err is not None:
                ctx.disagree("cg-mg", case, err[1], "ok", err[2])
                continue
            for m, xm in enumerate(o["ok"]["trace"]):
                if m >= len(iters):
                    break
                xmod = dec(xm, False)
                xi = iters[m].reshape(xmod.shape)
                ctx.compare_close("cg-mg-iterate", dict(case, iterate=m + 1), xi.flatten().tolist(), xmod.flatten().tolist(),
                                  rtol=1e-7, atol=1e-8, scale=max(1.0, float(np.max(np.abs(xmod)))))


# ------------------------------------------------------------------------------------------------
# orth
# ------------------------------------------------------------------------------------------------
def run_orth(ctx):
    rng = ctx.rng
    _, it, _ = _sol()
    reqs, meta = [], []
    for _ in range(20 if ctx.quick else 120):
        cplx = rng.random() < 0.4
        n = rng.choice([3, 4, 5])
        k = rng.choice([1, 2, 3, 4])
        u = rint(rng, n, k, -3, 3, cplx)
        for j in range(k):
            if not np.any(u[:, j]):
                u[j % n, j] = 1
        if k >= 3 and rng.random() < 0.6:
            u[:, k - 1] = u[:, 0] - 2 * u[:, 1]
            if not np.any(u[:, k - 1]):
                continue
        if k >= 2 and rng.random() < 0.2:
            u[:, 1] = 3 * u[:, 0]
        normalize = rng.random() < 0.5
        u = u.astype(complex if cplx else float)
        v = it.orth(u.copy(), normalize=normalize)
        reqs.append({"m": "c05.orth", "cplx": cplx, "n": n, "k": k, "u": enc(u, cplx), "normalize": normalize,
                     "zero_rtol": q(Fraction(1, 10 ** 15))})
        meta.append(({"u": str(u.tolist()), "normalize": normalize}, v, cplx, u))
        # oracle: orthogonal columns spanning the columns of u
        G = v.conj().T @ v
        offd = G - np.diag(np.diag(G))
        if np.max(np.abs(offd), initial=0.0) > 1e-9 * max(1.0, np.max(np.abs(G))):
            ctx.oracle_fail("orth: columns not orthogonal", {"u": str(u.tolist()), "normalize": normalize})
        if np.linalg.matrix_rank(np.hstack([u, v]), tol=1e-8) != v.shape[1]:
            ctx.oracle_fail("orth: span differs", {"u": str(u.tolist()), "normalize": normalize})
    outs = ctx.model(reqs)
    for (case, v, cplx, u), o in zip(meta, outs):
        if "err" in o:
            ctx.disagree("orth", case, "ok", o["err"])
            continue
        vm = dec(o["ok"]["v"], cplx) if o["ok"]["ncols"] > 0 else np.zeros((u.shape[0], 0))
        if vm.shape != v.shape:
            ctx.disagree("orth", case, list(v.shape), list(vm.shape), "number of kept columns")
            continue
        ctx.branch(f"orth:kept{v.shape[1]}of{u.shape[1]}:{'norm' if case['normalize'] else 'raw'}")
        ctx.compare_close("orth", case, v.flatten().tolist(), vm.flatten().tolist(), rtol=1e-9, atol=1e-10,
                          scale=max(1.0, float(np.max(np.abs(vm)))))


# ------------------------------------------------------------------------------------------------
# auto_determine_solver
# ------------------------------------------------------------------------------------------------
def class_name(s):
    nm = type(s).__name__
    if nm == "SolverDenseLDL":
        return nm + (":hermitian" if s.hermitian else ":symmetric")
    return nm


def run_auto(ctx):
    rng = ctx.rng
    _, _, ad = _sol()
    reqs, meta = [], []
    reps = 1 if ctx.quick else 4
    for kind in KINDS + ["csymrd", "csymrd"]:
        for cplx in (False, True):
            for sparse in (False, True):
                for _ in range(reps):
                    n = rng.choice([2, 3, 4])
                    A = gen_matrix(rng, kind, n, cplx)
                    Aarg = sps.csc_matrix(A) if sparse else A
                    ov = {}
                    if rng.random() < 0.25 and kind != "csymrd":
                        key = rng.choice(["ishermitian", "issymmetric", "isdiagonal"])
                        ov[key] = rng.random() < 0.5
                    with warnings.catch_warnings():
                        warnings.simplefilter("ignore")
                        r = call_impl(ad.auto_determine_solver, Aarg, **ov)
                    req = {"m": "c05.auto", "cplx": cplx, "n": n, "A": enc(A, cplx), "sparse": sparse}
                    req.update(ov)
                    reqs.append(req)
                    case = {"kind": kind, "cplx": cplx, "sparse": sparse, "overrides": ov, "A": str(A.tolist())}
                    meta.append((case, r, A, Aarg))
                    # oracle: without overrides the returned solver solves the system in all modes
                    if r[0] == "ok" and not ov:
                        s = r[1]
                        for trans in "NTH":
                            b = gen_rhs(rng, n, "nk", cplx)
                            with warnings.catch_warnings():
                                warnings.simplefilter("ignore")
                                s.update(Aarg)
                                rr = call_impl(s.solve, b.copy(), trans=trans)
                            if rr[0] == "ok":
                                oracle_solution(ctx, f"auto->{type(s).__name__}({trans})", A, b, rr[1], trans,
                                                float(np.linalg.cond(A)), dict(case, trans=trans))
                            else:
                                ctx.oracle_fail(f"auto->{type(s).__name__} raised {rr[2]}", dict(case, trans=trans))
    outs = ctx.model(reqs)
    for (case, r, A, Aarg), o in zip(meta, outs):
        if "err" in o:
            if r[0] == "err" and r[1] == o["err"]:
                ctx.compare_exact("auto-error", case, r[1], o["err"])
            else:
                ctx.disagree("auto", case, r[1] if r[0] == "err" else class_name(r[1]), o["err"])
            continue
        if r[0] != "ok":
            ctx.disagree("auto", case, r[1], o["ok"]["class"])
            continue
        ctx.branch("auto:" + o["ok"]["class"])
        ctx.compare_exact("auto", case, class_name(r[1]), o["ok"]["class"])


# ------------------------------------------------------------------------------------------------
def self_test(ctx):
    """thorough tier: flip ONE number of a model request; the comparison used by the streams must notice.
    A request whose perturbation goes unnoticed is recorded as a broken correspondence (stream "self-test")."""
    from ..common import close
    rng = ctx.rng
    S, it, _ = _sol()
    reqs, meta = [], []

    def flip(M):
        """add 1 to one entry of an encoded matrix (real: number, complex: [re, im])"""
        M = [list(r) for r in M]
        i, j = rng.randrange(len(M)), rng.randrange(len(M[0]))
        v = M[i][j]
        if isinstance(v, list):
            M[i][j] = [q(fr(v[0]) + 1), v[1]]
        else:
            M[i][j] = q(fr(v) + 1)
        return M

    for solver, kind in (("diag", "diag"), ("qr", "gen"), ("lu", "gen"), ("chol", "hpd"), ("chol", "hposdiag"),
                         ("ldl", "hindef"), ("ldl", "csym"), ("sparselu", "gen")):
        for trans in "NTH":
            cplx = kind == "csym" or rng.random() < 0.5
            A = gen_matrix(rng, kind, 3, cplx)
            b = gen_rhs(rng, 3, "nk", cplx)
            s, req, note = build_direct(ctx, kind, solver, A, b, trans, cplx)
            if note != "ok" or req is None:
                continue
            with warnings.catch_warnings():
                warnings.simplefilter("ignore")
                x = s.solve(b.copy(), trans=trans)
            bad = dict(req)
            key = rng.choice([k_ for k_ in ("B", "q", "r", "l", "u", "U", "d") if isinstance(req.get(k_), list)])
            bad[key] = flip(req[key])
            for variant, rq in (("true", req), ("flipped:" + key, bad)):
                reqs.append(rq)
                meta.append((f"direct:{solver}:{trans}", variant, x, cplx, float(np.linalg.cond(A))))
    # CG iterate and orth
    for cplx in (False, True):
        A = spd(rng, 4, cplx)
        b = nz_cols(rint(rng, 4, 2, -3, 3, cplx)).astype(A.dtype)
        with warnings.catch_warnings():
            warnings.simplefilter("ignore")
            x = it.CG(A, maxit=1).solve(b.copy())
        Bq, k = enc_b(b, cplx)
        req = {"m": "c05.cg", "cplx": cplx, "n": 4, "k": k, "A": enc(A, cplx), "b": Bq, "trans": "N", "x0": None,
               "precond": {"kind": "id"}, "tol": q(Fraction(1, 10 ** 7)), "maxit": 1, "restart": 50,
               "zero_rtol": q(Fraction(1, 10 ** 15))}
        bad = dict(req)
        key = rng.choice(["A", "b"])
        bad[key] = flip(req[key])
        if key == "A":   # keep the matrix Hermitian is not needed for one CG step; any change must show
            pass
        for variant, rq in (("true", req), ("flipped:" + key, bad)):
            reqs.append(rq)
            meta.append(("cg", variant, x, cplx, 1.0))
        u = nz_cols(rint(rng, 4, 3, -3, 3, cplx)).astype(A.dtype)
        if np.linalg.matrix_rank(u) < 3:
            continue
        v = it.orth(u.copy(), normalize=True)
        req = {"m": "c05.orth", "cplx": cplx, "n": 4, "k": 3, "u": enc(u, cplx), "normalize": True,
               "zero_rtol": q(Fraction(1, 10 ** 15))}
        bad = dict(req)
        bad["u"] = flip(req["u"])
        for variant, rq in (("true", req), ("flipped:u", bad)):
            reqs.append(rq)
            meta.append(("orth", variant, v, cplx, 1.0))
    outs = ctx.model(reqs)
    for (name, variant, ximpl, cplx, cond), o in zip(meta, outs):
        agree = False
        if "ok" in o:
            if name == "cg":
                xm = dec(o["ok"]["trace"][0], cplx) if o["ok"]["trace"] else dec(o["ok"]["x"], cplx)
            elif name == "orth":
                xm = dec(o["ok"]["v"], cplx) if o["ok"]["ncols"] else np.zeros((4, 0))
            else:
                xm = dec(o["ok"]["x"], cplx)
            xi = np.asarray(ximpl)
            if xi.size == xm.size:
                sc = max(1.0, float(np.max(np.abs(xm), initial=0.0))) * max(cond, 1.0)
                agree, _ = close(xi.reshape(xm.shape).flatten().tolist(), xm.flatten().tolist(),
                                 1e-9 * max(cond, 1.0), 1e-10, sc)
        if variant == "true":
            if agree:
                ctx.branch("selftest_true_request_agrees")
            else:
                ctx.disagree("self-test", {"stream": name, "variant": variant}, "impl", o, "unperturbed request disagrees")
        else:
            if agree:
                ctx.disagree("self-test", {"stream": name, "variant": variant}, "impl", "model agreed",
                             "a flipped number in the model request went unnoticed")
            else:
                ctx.branch("selftest_flip_noticed:" + name.split(":")[0])


def correspondence(ctx):
    np.seterr(all="ignore")
    if not ctx.quick:
        self_test(ctx)
    run_direct(ctx)
    run_reuse(ctx)
    run_auto(ctx)
    run_orth(ctx)
    run_cg(ctx)
    run_mg(ctx)


def search(ctx, disagreements):
    """re-run the residual/shape/dtype oracle on every solver for a sweep of generated systems"""
    found = []
    S, it, ad = _sol()
    rng = ctx.rng
    before = len(ctx.oracle_failures)
    for kind in KINDS:
        for Acplx in (False, True):
            for solver in SOLVERS_FOR[kind]:
                if not applicable(kind, solver, Acplx):
                    continue
                for trans in "NTH":
                    for shape in ("n", "nk"):
                        A = gen_matrix(rng, kind, 3, Acplx)
                        b = gen_rhs(rng, 3, shape, Acplx)
                        try:
                            s, _, _ = build_direct(ctx, kind, solver, A, b, trans, Acplx)
                            with warnings.catch_warnings():
                                warnings.simplefilter("ignore")
                                x = s.solve(b.copy(), trans=trans)
                            oracle_solution(ctx, f"{type(s).__name__}.solve(trans={trans})", A, b, x, trans,
                                            float(np.linalg.cond(A)),
                                            {"solver": solver, "kind": kind, "trans": trans, "A": str(A.tolist()), "b": str(b.tolist())})
                        except Exception as e:  # noqa
                            ctx.oracle_fail(f"{solver} raised {type(e).__name__}: {e}",
                                            {"solver": solver, "kind": kind, "trans": trans, "A": str(A.tolist()), "b": str(b.tolist())})
    for w in ctx.oracle_failures[before:]:
        found.append({"what": w["what"], "witness": w["witness"]})
    del ctx.oracle_failures[before:]
    return found


def _parse(a):
    return None if a is None else np.array(eval(a, {"__builtins__": {}}, {})) if isinstance(a, str) else np.array(a)


def replay(ctx, data):
    """re-run one witness (direct / reuse / cg) on the real code with the residual-shape oracle"""
    w = data.get("witness", data)
    wit = w.get("witness", w)
    S, it, ad = _sol()
    import pymoto
    np.seterr(all="ignore")
    try:
        A = _parse(wit["A"])
        b = _parse(wit["b"])
        trans = wit.get("trans", "N")
        stream = wit.get("stream", "direct")
        with warnings.catch_warnings():
            warnings.simplefilter("ignore")
            if stream == "cg":
                pk = wit["precond"]
                P = {"id": it.Preconditioner, "jacobi": it.DampedJacobi, "sor": it.SOR, "ilu": it.ILU}[pk]
                P = P(w=wit["w"]) if pk in ("jacobi", "sor") else P()
                Aarg = sps.csc_matrix(A) if wit.get("sparse") else A
                s = it.CG(Aarg, preconditioner=P, restart=wit["restart"], tol=wit["tol"], maxit=2000)
                x = s.solve(b.copy(), x0=_parse(wit.get("x0v")), trans=trans)
                tol = max(1e-6, 10 * wit["tol"])
            elif stream == "reuse":
                name = wit["solver"]
                mats = [_parse(m) for m in wit["history_A"]]
                sp = bool(wit.get("sparse"))
                conv = (lambda M: sps.csc_matrix(M)) if sp else (lambda M: M)
                if name.startswith("auto_"):
                    s = ad.auto_determine_solver(conv(mats[0]))
                    mats = mats[1:]
                elif name.startswith("cg_"):
                    pk = name[3:]
                    P = (it.GeometricMultigrid(pymoto.DomainDefinition(2, 2, 0), smooth_steps=2) if pk == "mg" else
                         {"id": it.Preconditioner, "jacobi": it.DampedJacobi, "sor": it.SOR, "ilu": it.ILU}[pk]())
                    s = it.CG(preconditioner=P, tol=1e-9)
                else:
                    s = {"diag": S.SolverDiagonal, "qr": S.SolverDenseQR, "lu": S.SolverDenseLU, "sparselu": S.SolverSparseLU,
                         "ldl": S.SolverDenseLDL, "chol": S.SolverDenseCholesky}[name.split("_")[0]]()
                for M in mats:
                    s.update(conv(M))
                x = s.solve(b.copy(), trans=trans)
                tol = 1e-6 if name.startswith("cg_") else 1e-9 * max(1.0, np.linalg.cond(A))
            else:
                solver = wit.get("solver")
                if solver is None:
                    return {"still_failing": False, "note": "witness without solver name; run the check again"}
                s, _, _ = build_direct(ctx, wit.get("kind", "gen"), solver, A, b, trans,
                                       bool(np.iscomplexobj(A) or np.iscomplexobj(b)))
                x = s.solve(b.copy(), trans=trans)
                tol = 1e-9 * max(1.0, np.linalg.cond(A))
        res = colres(A, b, x, trans) if np.all(np.isfinite(x)) else float("inf")
        bad = (x.shape != b.shape) or not (res <= tol)
        return {"still_failing": bool(bad), "residual": res, "shape": list(x.shape), "tolerance": tol}
    except Exception as e:  # noqa
        return {"still_failing": True, "raised": f"{type(e).__name__}: {e}"}
