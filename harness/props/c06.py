"""C06 — LDAWrapper is transparent and reuses earlier solutions (pymoto/solvers/solvers.py)

correspondence: histories of update(A_i) / solve(b_j, trans_j, x0?) on the real LDAWrapper around a COUNTING PROXY
                (SolverDenseLU / SolverSparseLU) vs the Lean state machine `LA/LDAS.lean` (driver op c06.run, exact
                Gauss-Jordan over Q / Q(i) as inner solver, contract checked at run time).
                Compared per operation: returned x (tolerance), `_did_solve` per column, number of calls reaching the
                inner solve() and the number of columns handed to it (exact), database sizes (exact), detected flags and
                diagonal index set after update (exact), deflated initial guess received by the inner solver (tolerance),
                exception class.
oracle        : on the real code: residual of every returned x against the CURRENT matrix and requested mode; inner
                solver not called when the effective right-hand side lies in the span of those already solved for the
                current matrix in the same store; a wrapper that lived through earlier matrices behaves exactly like a
                fresh one (x, call counts, database sizes), and never fails where the fresh one succeeds.

The two defects found while building this check (in-place subtraction of complex stored vectors from real arrays;
normalised rounding noise stored for dependent block columns) are repaired in /repo (123ee8f, b80d929); the model
follows the repaired code and nothing is excluded from the stream any more; the witnesses stay in corpus/defects/.
"""
import itertools
import warnings
from fractions import Fraction

import numpy as np
import scipy.sparse as sps

from ..common import q, qlist, qclist, fr, call_impl, close, vary_layout, frozen

EXTRA_LEAN_MODULES = ("PymotoVerif.Props.C07LDAS",)   # composition C06 o C07, built with every check of C06
TOL = 1e-7
TOL_Q = "1/10000000"
RULE = ("histories of update/solve (3-10 ops quick, up to 40 thorough) on LDAWrapper(counting proxy(SolverDenseLU|SolverSparseLU)); "
        "matrices of every class (diagonal, symmetric, Hermitian, complex symmetric, general real/complex, triangular, "
        "partially decoupled rows/columns, zero diagonal entries, every off-diagonal zero pattern of 3x3 (thorough: all 64, "
        "quick: sample) and a sample of 4x4 patterns); right-hand sides new / repeated / zero / complex / combinations / "
        "perturbed copies, vector and block, x0 optional; evaluations = compared operations, distinct = distinct "
        "(matrix class, n, trans, rhs kinds, inner-called) signatures of compared solve operations")
ASSUMPTIONS = [
    "matrices are non-singular with small integer (Gaussian integer) entries, cond <= 1e5, so that the exact model and the float "
    "implementation take the same branch of the residual test; operations whose exact relative residual lies within a factor 100 "
    "of tol are counted as boundary and the history is cut there",
    "user-supplied flags symmetric=True / hermitian=True are only given for matrices that have the property",
    "a newly solved column whose orthogonalised remainder lies within a factor 100 of the skip threshold tol*bnrm0 is a boundary "
    "case as well (history cut there)",
    "matrix size is constant within one history; wrong-size right-hand sides are not generated",
]


# --------------------------------------------------------------------------------------------------
# implementation side
# --------------------------------------------------------------------------------------------------
class CountingProxy:
    """wraps a real pyMOTO solver; counts calls that reach solve() and records what they were given"""

    def __init__(self, inner):
        self.inner = inner
        self.calls = 0
        self.cols = 0
        self.last_x0 = None
        self.last_trans = None
        self.updates = 0

    def update(self, A):
        self.updates += 1
        self.inner.update(A)
        return self

    def solve(self, rhs, x0=None, trans='N'):
        self.calls += 1
        self.cols += rhs.shape[-1] if rhs.ndim > 1 else 1
        self.last_x0 = None if x0 is None else np.array(x0)
        self.last_trans = trans
        if x0 is not None and np.shape(x0) != np.shape(rhs):
            # a direct solver ignores x0; an iterative one (CG) fails on an initial guess that does not match the right-hand
            # side it is given -- the proxy is as strict as that
            raise ValueError(f"initial guess of shape {np.shape(x0)} for a right-hand side of shape {np.shape(rhs)}")
        return self.inner.solve(rhs, x0=x0, trans=trans)


def _mk_wrapper(sparse, usym, uherm):
    from pymoto.solvers import LDAWrapper, SolverDenseLU, SolverSparseLU
    proxy = CountingProxy(SolverSparseLU() if sparse else SolverDenseLU())
    return LDAWrapper(proxy, tol=TOL, symmetric=usym, hermitian=uherm), proxy


def _mat(op, sparse):
    A = np.array(op["A"], dtype=complex if op["cplx"] else float)
    if sparse == "full":
        # the way finite-element assembly delivers matrices: ONE stored pattern for every update of the history (here all n*n
        # positions), entries that happen to be zero are stored explicitly; only the values change between updates
        n = A.shape[0]
        return sps.csc_matrix((A.T.ravel().copy(), np.tile(np.arange(n), n), np.arange(0, n * n + 1, n)), shape=(n, n))
    return sps.csc_matrix(A) if sparse else vary_layout(A, (A.shape, float(np.abs(A).sum())))   # C / Fortran order / transposed view


def _rhs(op):
    B = np.array(op["rhs"], dtype=complex if op["cplx"] else float).T  # columns -> (n, k)
    return B[:, 0].copy() if op["vec"] else B.copy()


def _x0(op):
    if op.get("x0") is None:
        return None
    X = np.array(op["x0"]["v"], dtype=complex if op["x0"]["cplx"] else float).T
    return X[:, 0].copy() if op["vec"] else X.copy()


def run_impl(hist, fresh_each_update=False):
    """runs the history on the real code; returns the list of per-op observations"""
    sparse, usym, uherm = hist["sparse"], hist["usym"], hist["uherm"]
    w, proxy = _mk_wrapper(sparse, usym, uherm)
    out = []
    with warnings.catch_warnings():
        warnings.simplefilter("ignore")
        with np.errstate(all="ignore"):
            for op in hist["ops"]:
                if op["op"] == "update":
                    if fresh_each_update:
                        w, proxy = _mk_wrapper(sparse, usym, uherm)
                    Ain = _mat(op, sparse)
                    snapA = None if sparse else frozen(Ain)
                    r = call_impl(w.update, Ain)
                    if r[0] == "ok" and not sparse and frozen(Ain) != snapA:
                        r = ("err", "InputClobbered", "update() wrote into the caller's matrix")
                    if r[0] == "err":
                        out.append({"err": r[1], "msg": r[2]})
                    else:
                        out.append({"sym": bool(w.symmetric), "herm": bool(w.hermitian),
                                    "diag": [int(i) for i in np.asarray(w.diagonal_idx).tolist()]})
                else:
                    c0, k0 = proxy.calls, proxy.cols
                    proxy.last_x0 = None
                    r = call_impl(w.solve, _rhs(op), x0=_x0(op), trans=op["trans"])
                    if r[0] == "err":
                        out.append({"err": r[1], "msg": r[2]})
                    else:
                        x = np.asarray(r[1])
                        out.append({"x": x, "calls": proxy.calls - c0, "cols": proxy.cols - k0,
                                    "did": [bool(v) for v in np.atleast_1d(w._did_solve).tolist()],
                                    "dbN": len(w.x_stored), "dbA": len(w.xadj_stored),
                                    "x0": proxy.last_x0 if proxy.calls > c0 else None,
                                    "inner_trans": proxy.last_trans if proxy.calls > c0 else None,
                                    "flags": (bool(w.symmetric), bool(w.hermitian))})
    return out


# --------------------------------------------------------------------------------------------------
# generators
# --------------------------------------------------------------------------------------------------
def _ri(rng, lo=-4, hi=4, nz=False):
    while True:
        v = rng.randint(lo, hi)
        if v or not nz:
            return v


def _rc(rng, nz=False):
    while True:
        v = complex(rng.randint(-3, 3), rng.randint(-3, 3))
        if v.imag == 0:
            v += 1j * rng.choice([-2, -1, 1, 2])
        if v or not nz:
            return v


def gen_matrix(rng, n, cls, pattern=None):
    """returns (A as complex ndarray, cplx dtype flag) or None when the draw is singular / ill-conditioned"""
    cplx = cls in ("herm", "csym", "cgen", "cpattern", "cdecoupled")
    ent = (lambda nz=False: _rc(rng, nz)) if cplx else (lambda nz=False: complex(_ri(rng, nz=nz)))
    A = np.zeros((n, n), dtype=complex)
    if cls == "diag":
        for i in range(n):
            A[i, i] = ent(True)
    elif cls in ("sym", "csym"):
        for i in range(n):
            for j in range(i, n):
                A[i, j] = A[j, i] = ent()
            A[i, i] += 6
    elif cls == "herm":
        for i in range(n):
            for j in range(i + 1, n):
                A[i, j] = ent()
                A[j, i] = A[i, j].conjugate()
            A[i, i] = rng.randint(5, 9)
    elif cls in ("gen", "cgen", "realcplx"):
        for i in range(n):
            for j in range(n):
                A[i, j] = ent()
            if rng.random() < 0.7:
                A[i, i] += 6
    elif cls == "tri":
        for i in range(n):
            for j in range(i, n):
                A[i, j] = ent()
            A[i, i] = ent(True)
        if rng.random() < 0.5:
            A = A.T.copy()
    elif cls in ("decoupled", "cdecoupled"):
        for i in range(n):
            for j in range(n):
                A[i, j] = ent()
            A[i, i] += 6
        for i in range(n):
            t = rng.random()
            if t < 0.3:      # fully decoupled
                d = A[i, i]; A[i, :] = 0; A[:, i] = 0; A[i, i] = d
            elif t < 0.45:   # row only
                d = A[i, i]; A[i, :] = 0; A[i, i] = d
            elif t < 0.6:    # column only
                d = A[i, i]; A[:, i] = 0; A[i, i] = d
            elif t < 0.7:    # zero diagonal entry
                A[i, i] = 0
    elif cls in ("pattern", "cpattern"):
        for i in range(n):
            for j in range(n):
                if i != j and pattern[i][j]:
                    A[i, j] = ent(True)
            A[i, i] = ent(True) + 5 if rng.random() < 0.85 else 0
    else:
        raise ValueError(cls)
    with np.errstate(all="ignore"):
        det = np.linalg.det(A)
        if not np.isfinite(det) or abs(det) < 0.5 or np.linalg.cond(A) > 1e5:
            return None
    return A, (cplx or cls == "realcplx")


CLASSES = ["diag", "sym", "herm", "csym", "gen", "cgen", "realcplx", "tri", "decoupled", "cdecoupled", "pattern", "cpattern"]


def random_pattern(rng, n, p=None):
    p = rng.choice([0.2, 0.4, 0.6, 0.8]) if p is None else p
    return [[1 if (i != j and rng.random() < p) else 0 for j in range(n)] for i in range(n)]


def all_patterns3():
    pos = [(i, j) for i in range(3) for j in range(3) if i != j]
    for bits in itertools.product([0, 1], repeat=6):
        P = [[0] * 3 for _ in range(3)]
        for (i, j), b in zip(pos, bits):
            P[i][j] = b
        yield P


def _clist(v):
    """complex vector -> json-able list of python numbers (kept as complex or float)"""
    return [complex(z) for z in v]


REAL_CLASSES = ["diag", "sym", "gen", "tri", "decoupled", "pattern"]


def gen_history(rng, n, nops, sparse=False, classes=None, first_pattern=None, sym_only=False, real_only=False):
    """structured history; returns dict(hist) with python-number payloads (converted to exact JSON later)"""
    usym = uherm = None
    t = rng.random()
    if sym_only and t < 0.5:
        usym = True
    elif t < 0.12:
        usym = False
    elif t < 0.2:
        uherm = False
    elif t < 0.25:
        usym, uherm = False, False
    ops = []
    solved = []   # (trans, vector complex ndarray) for the current matrix
    anyc = False
    cur = None
    i_op = 0
    while len(ops) < nops:
        do_update = cur is None and not (i_op == 0 and rng.random() < 0.06) or (cur is not None and rng.random() < 0.22)
        i_op += 1
        if do_update:
            for _ in range(50):
                if first_pattern is not None and cur is None:
                    cls = "cpattern" if (rng.random() < 0.3 and not real_only) else "pattern"
                    pat = first_pattern
                else:
                    cls = rng.choice(classes or (REAL_CLASSES if real_only else CLASSES))
                    pat = random_pattern(rng, n) if cls.endswith("pattern") else None
                if sym_only:
                    cls = rng.choice(["sym", "diag"])   # real symmetric: both flags may be user-asserted
                g = gen_matrix(rng, n, cls, pat)
                if g is not None:
                    break
            else:
                g = gen_matrix(rng, n, "diag")
                cls = "diag"
            A, cplx = g
            cur = A
            anyc = anyc or cplx
            solved = []
            ops.append({"op": "update", "A": A, "cplx": bool(cplx), "cls": cls})
            continue
        # ---- solve ----
        vec = rng.random() < 0.6
        k = 1 if vec else rng.choice([1, 2, 2, 3])
        r = rng.random()
        trans = "N" if r < 0.45 else ("T" if r < 0.7 else ("H" if r < 0.97 else "X"))
        cols, kinds = [], []
        acplx = cur is not None and any(o["cplx"] for o in ops if o["op"] == "update" and o["A"] is cur)
        for _ in range(k):
            kind = rng.choice(["new", "new", "repeat", "combo", "zero", "cnew", "cmul", "perturb", "unit"])
            same = [v for (tr, v) in solved if tr == trans] or [v for (_, v) in solved]
            if real_only and kind in ("cnew", "cmul"):
                kind = "combo"
            if kind in ("repeat", "combo", "cmul", "perturb") and not same:
                kind = "new"
            if kind == "new":
                v = np.array([_ri(rng) for _ in range(n)], dtype=complex)
            elif kind == "unit":
                v = np.zeros(n, dtype=complex); v[rng.randrange(n)] = _ri(rng, nz=True)
            elif kind == "cnew":
                v = np.array([complex(_ri(rng), _ri(rng)) for _ in range(n)])
            elif kind == "zero":
                v = np.zeros(n, dtype=complex)
            elif kind == "repeat":
                v = rng.choice(same).copy()
            elif kind == "combo":
                v = sum(_ri(rng, -2, 2) * w for w in rng.sample(same, min(len(same), rng.randint(1, 3))))
                v = np.array(v, dtype=complex)
            elif kind == "cmul":
                v = rng.choice(same) * complex(rng.randint(-2, 2), rng.choice([-1, 1, 2]))
            else:  # perturb: tiny (well below tol/100) or clearly above tol
                base = rng.choice(same)
                eps = rng.choice([1e-12, 1e-3])
                v = base + eps * np.array([_ri(rng) for _ in range(n)], dtype=complex)
                kind = "perturb_small" if eps < 1e-6 else "perturb_big"
            cols.append(v)
            kinds.append(kind)
        isc = any(np.any(np.imag(v) != 0) for v in cols)
        cplx = isc or (rng.random() < 0.05 and not real_only)       # sometimes a complex dtype with real values
        anyc = anyc or cplx
        op = {"op": "solve", "rhs": cols, "cplx": bool(cplx), "vec": vec, "trans": trans, "kinds": kinds, "x0": None}
        if rng.random() < 0.25:
            prev_c = acplx or cplx or any(np.any(np.imag(v) != 0) for (_, v) in solved)
            xc = prev_c if (rng.random() < 0.85 or real_only) else (not prev_c)
            X = [np.array([complex(_ri(rng), _ri(rng) if xc else 0) for _ in range(n)]) for _ in range(k)]
            op["x0"] = {"v": X, "cplx": bool(xc)}
            anyc = anyc or xc
        ops.append(op)
        if cur is not None and trans != "X":
            for v in cols:
                solved.append((trans, v))
    if rng.random() < 0.2:
        # all loads of the history tiny (exact power-of-two scaling): every test of the wrapper is RELATIVE, so counts, database
        # sizes and (scaled) answers must be what they are at scale one
        sc = 2.0 ** -rng.choice([24, 30, 40])
        for op in ops:
            if op["op"] == "solve":
                op["rhs"] = [np.asarray(v) * sc for v in op["rhs"]]
                if op.get("x0") is not None:
                    op["x0"]["v"] = [np.asarray(v) * sc for v in op["x0"]["v"]]
                op["kinds"] = list(op["kinds"]) + ["tiny"]
    return {"n": n, "sparse": sparse, "usym": usym, "uherm": uherm, "ops": ops, "field": "QI" if anyc else "Q"}


# --------------------------------------------------------------------------------------------------
# exact encoding / decoding
# --------------------------------------------------------------------------------------------------
def _enc_num(z, field):
    z = complex(z)
    if field == "Q":
        assert z.imag == 0
        return q(z.real)
    return [q(z.real), q(z.imag)]


def model_request(h):
    f = h["field"]
    ops = []
    for op in h["ops"]:
        if op["op"] == "update":
            ops.append({"op": "update", "A": [[_enc_num(z, f) for z in row] for row in np.asarray(op["A"]).tolist()],
                        "cplx": op["cplx"]})
        else:
            o = {"op": "solve", "rhs": [[_enc_num(z, f) for z in col] for col in op["rhs"]], "cplx": op["cplx"],
                 "trans": op["trans"]}
            if op.get("x0") is not None:
                o["x0"] = {"v": [[_enc_num(z, f) for z in col] for col in op["x0"]["v"]], "cplx": op["x0"]["cplx"]}
            ops.append(o)
    return {"m": "c06.run", "field": f, "n": h["n"], "tol": TOL_Q,
            "usym": h["usym"], "uherm": h["uherm"], "ops": ops}


def impl_hist(h):
    """history in the form used by run_impl (lists of python complex numbers)"""
    ops = []
    for op in h["ops"]:
        if op["op"] == "update":
            A = np.asarray(op["A"])
            ops.append({"op": "update", "A": (A if op["cplx"] else A.real).tolist(), "cplx": op["cplx"]})
        else:
            conv = (lambda col: [complex(z) for z in col]) if op["cplx"] else (lambda col: [complex(z).real for z in col])
            o = {"op": "solve", "rhs": [conv(c) for c in op["rhs"]], "cplx": op["cplx"], "vec": op["vec"],
                 "trans": op["trans"], "x0": None}
            if op.get("x0") is not None:
                xc = op["x0"]["cplx"]
                o["x0"] = {"v": [[complex(z) if xc else complex(z).real for z in col] for col in op["x0"]["v"]], "cplx": xc}
            ops.append(o)
    return {"n": h["n"], "sparse": h["sparse"], "usym": h["usym"], "uherm": h["uherm"], "ops": ops}


def _dec(v, field):
    if field == "Q":
        return complex(float(fr(v)))
    return complex(float(fr(v[0])), float(fr(v[1])))


def _dec_blk(B, field):
    return [[_dec(z, field) for z in col] for col in B]


def jsonable(h):
    """history as plain JSON (for witnesses / replays)"""
    def num(z):
        z = complex(z)
        return [z.real, z.imag]
    ops = []
    for op in h["ops"]:
        if op["op"] == "update":
            ops.append({"op": "update", "A": [[num(z) for z in row] for row in np.asarray(op["A"]).tolist()], "cplx": op["cplx"]})
        else:
            o = {"op": "solve", "rhs": [[num(z) for z in c] for c in op["rhs"]], "cplx": op["cplx"], "vec": op["vec"],
                 "trans": op["trans"], "x0": None}
            if op.get("x0") is not None:
                o["x0"] = {"v": [[num(z) for z in c] for c in op["x0"]["v"]], "cplx": op["x0"]["cplx"]}
            ops.append(o)
    return {"n": h["n"], "sparse": h["sparse"], "usym": h["usym"], "uherm": h["uherm"], "ops": ops}


def from_jsonable(j):
    ops = []
    for op in j["ops"]:
        if op["op"] == "update":
            ops.append({"op": "update", "A": np.array([[complex(*z) for z in row] for row in op["A"]]), "cplx": op["cplx"], "cls": "replay"})
        else:
            o = {"op": "solve", "rhs": [np.array([complex(*z) for z in c]) for c in op["rhs"]], "cplx": op["cplx"],
                 "vec": op["vec"], "trans": op["trans"], "kinds": ["replay"], "x0": None}
            if op.get("x0") is not None:
                o["x0"] = {"v": [np.array([complex(*z) for z in c]) for c in op["x0"]["v"]], "cplx": op["x0"]["cplx"]}
            ops.append(o)
    anyc = any(o["cplx"] or (o.get("x0") or {}).get("cplx", False) for o in ops)
    return {"n": j["n"], "sparse": j["sparse"], "usym": j["usym"], "uherm": j["uherm"], "ops": ops, "field": "QI" if anyc else "Q"}


# --------------------------------------------------------------------------------------------------
# property oracle on the real code
# --------------------------------------------------------------------------------------------------
def _opmat(A, trans):
    return {"N": A, "T": A.T, "H": A.conj().T}[trans]


def oracle_history(h, obs=None, obs_fresh=None):
    """checks the property on the real code for one (already truncated) history.
    Returns a description of the first violation or None."""
    ih = impl_hist(h)
    if obs is None:
        obs = run_impl(ih)
    if obs_fresh is None:
        obs_fresh = run_impl(ih, fresh_each_update=True)
    A = None
    solved = {}   # store key -> list of effective right-hand sides (complex vectors)
    real_only = True
    for i, (op, o, of) in enumerate(zip(h["ops"], obs, obs_fresh)):
        if op["op"] == "update":
            A = np.asarray(op["A"], dtype=complex)
            acplx = op["cplx"]
            solved = {}
            real_only = True
            if "err" in o:
                return f"op {i}: update raised {o['msg']}"
            continue
        if "err" in o:
            if "err" not in of:
                return f"op {i}: solve fails with {o['msg']} on the long-lived wrapper but succeeds on a fresh one"
            # the same single call on a wrapper that has seen NOTHING but update(current matrix)
            last_up = [u for u in ih["ops"][:i] if u["op"] == "update"]
            if last_up:
                w1, _ = _mk_wrapper(ih["sparse"], ih["usym"], ih["uherm"])
                with warnings.catch_warnings(), np.errstate(all="ignore"):
                    warnings.simplefilter("ignore")
                    r0 = call_impl(w1.update, _mat(last_up[-1], ih["sparse"]))
                    r1 = call_impl(w1.solve, _rhs(ih["ops"][i]), x0=_x0(ih["ops"][i]), trans=ih["ops"][i]["trans"]) if r0[0] == "ok" else r0
                if r1[0] == "ok":
                    return (f"op {i}: solve fails with {o['msg']} after the earlier solves of this history, but the same call "
                            f"succeeds on a fresh wrapper")
            continue
        if "err" in of:
            continue
        # (iii) same as a fresh wrapper
        if not np.allclose(o["x"], of["x"], rtol=1e-9, atol=1e-11 * max(1.0, float(np.abs(of["x"]).max(initial=0)))):
            return f"op {i}: x differs from the answer of a wrapper that never saw the earlier matrices"
        if o["calls"] != of["calls"] or o["cols"] != of["cols"] or (o["dbN"], o["dbA"]) != (of["dbN"], of["dbA"]):
            return (f"op {i}: inner calls/database sizes {o['calls'], o['cols'], o['dbN'], o['dbA']} differ from a fresh wrapper "
                    f"{of['calls'], of['cols'], of['dbN'], of['dbA']}")
        # (i) residual against the current matrix in the requested mode
        B = np.array(op["rhs"], dtype=complex).T
        X = np.asarray(o["x"], dtype=complex).reshape(B.shape)
        R = _opmat(A, op["trans"]) @ X - B
        for j in range(B.shape[1]):
            nb = np.linalg.norm(B[:, j])
            nr = np.linalg.norm(R[:, j])
            if nb == 0:
                if np.linalg.norm(X[:, j]) > 1e-12:
                    return f"op {i} col {j}: non-zero answer for a zero right-hand side"
            elif not nr <= 10 * TOL * nb:
                return f"op {i} col {j}: relative residual {nr / nb:.3e} of op_{op['trans']}(A) x = b exceeds the wrapper tolerance"
        # (ii) reuse: effective rhs in the span of those already solved in the same store => no inner call
        sym, herm = o["flags"]
        store = "H" if (op["trans"] != "N" and not (sym or herm)) else "N"
        conj = (sym and op["trans"] == "H") or (not sym and op["trans"] == "T")
        Beff = B.conj() if conj else B
        prev = solved.get(store, [])
        dtype_ok = acplx or op["cplx"] or real_only
        if dtype_ok:
            inspan = True
            for j in range(B.shape[1]):
                b = Beff[:, j]
                nb = np.linalg.norm(b)
                if nb == 0:
                    continue
                if not prev:
                    inspan = False
                    break
                P = np.stack(prev, axis=1)
                c = np.linalg.lstsq(P, b, rcond=1e-9)[0]
                if np.linalg.norm(P @ c - b) > 1e-10 * nb:
                    inspan = False
                    break
            if inspan and o["calls"] > 0:
                return f"op {i}: right-hand side lies in the span of those already solved for this matrix, but the inner solver was called"
        # the span "already solved" grows only by vectors that are independent of it well above the wrapper tolerance: a
        # copy perturbed by 1e-12 is answered from the database (within tolerance) and does NOT add a direction
        for j in range(B.shape[1]):
            b = Beff[:, j]
            nb = np.linalg.norm(b)
            if nb == 0:
                continue
            cur = solved.setdefault(store, [])
            if cur:
                P = np.stack(cur, axis=1)
                c = np.linalg.lstsq(P, b, rcond=1e-9)[0]
                if np.linalg.norm(P @ c - b) <= 1e-5 * nb:
                    continue
            cur.append(b)
        if op["cplx"]:
            real_only = False
    return None


# --------------------------------------------------------------------------------------------------
# correspondence
# --------------------------------------------------------------------------------------------------
def truncate_by_model(ctx, h, mres):
    """cut the history at the first operation whose exact data sit within a factor 100 of a tolerance threshold
    (residual test per column, skip test of the database append); returns (history', reason or None)"""
    nb_tol2 = Fraction(TOL_Q) ** 2
    lo, hi = nb_tol2 / 10 ** 4, nb_tol2 * 10 ** 4
    cut, reason = len(h["ops"]), None
    for i, (op, m) in enumerate(zip(h["ops"], mres)):
        if op["op"] != "solve" or "err" in m:
            continue
        bnd = False
        for col, rat in zip(op["rhs"], m["ratio"]):
            nb = sum(Fraction(complex(z).real) ** 2 + Fraction(complex(z).imag) ** 2 for z in col)
            if nb == 0:
                continue
            if lo < fr(rat) / nb < hi:
                bnd = True
        for ar in m.get("aratio", []):
            if ar is not None and lo < fr(ar) < hi:
                bnd = True
        if bnd:
            cut, reason = i, "boundary"
            break
    h2 = dict(h)
    h2["ops"] = h["ops"][:cut]
    return h2, reason


def compare_history(ctx, h, mres, tag):
    """runs the (truncated) history on the implementation and compares op by op"""
    ih = impl_hist(h)
    obs = run_impl(ih)
    obs_fresh = run_impl(ih, fresh_each_update=True)
    f = h["field"]
    cls = "none"
    for i, (op, o, m) in enumerate(zip(h["ops"], obs, mres)):
        case = {"hist": tag, "op": i}
        if op["op"] == "update":
            cls = op.get("cls", "?")
            if "err" in o:
                ctx.disagree("update", case, o, m, "implementation raised")
                return obs, obs_fresh
            diag_m = [k for k, b in enumerate(m["diag"]) if b]
            ctx.compare_exact("update", case, [o["sym"], o["herm"], o["diag"]], [m["sym"], m["herm"], diag_m],
                              key=("update", cls, h["n"], o["sym"], o["herm"], len(diag_m)))
            ctx.branch(f"update.{cls}")
            ctx.branch(f"diag_count.{len(diag_m)}of{h['n']}")
            continue
        if "err" in o or "err" in m:
            ctx.compare_exact("solve.error", case, o.get("err", "ok"), m.get("err", "ok"), key=("err", o.get("err"), op["trans"]))
            ctx.branch(f"solve.err.{o.get('err', 'ok')}")
            if o.get("err") != m.get("err"):
                return obs, obs_fresh
            continue
        sig = ("solve", cls, h["n"], op["trans"], tuple(sorted(op["kinds"])), op["vec"], o["calls"], op["x0"] is not None, h["sparse"])
        ci = {"calls": o["calls"], "cols": o["cols"], "did": o["did"], "dbN": o["dbN"], "dbA": o["dbA"]}
        cm = {"calls": 1 if m["called"] else 0, "cols": sum(1 for d in m["did"] if d), "did": m["did"],
              "dbN": m["dbN"], "dbA": m["dbA"]}
        if m["dropped"] > 0:
            ctx.branch("append.skipped_dependent_column", m["dropped"])
        ok = ctx.compare_exact("solve.counts", case, ci, cm, key=sig)
        mx = _dec_blk(m["x"], f)
        X = np.asarray(o["x"], dtype=complex)
        X = X.reshape(h["n"], -1)
        sc = max(1.0, max((abs(z) for col in mx for z in col), default=1.0))
        ok2 = ctx.compare_close("solve.x", case, X.T.flatten().tolist(), [z for col in mx for z in col],
                                rtol=1e-7, atol=1e-9, scale=sc, key=sig + ("x",))
        if o["x0"] is not None and m.get("x0loc") is not None:
            mx0 = _dec_blk(m["x0loc"], f)
            sel = [mx0[j] for j, d in enumerate(m["did"]) if d]
            X0 = np.asarray(o["x0"], dtype=complex).reshape(h["n"], -1)
            if X0.shape[1] == len(sel):
                s0 = max(1.0, max((abs(z) for col in sel for z in col), default=1.0))
                ctx.compare_close("solve.x0", case, X0.T.flatten().tolist(), [z for col in sel for z in col],
                                  rtol=1e-7, atol=1e-9, scale=s0, key=sig + ("x0",))
                ctx.branch("solve.x0_deflated")
            else:
                ctx.disagree("solve.x0", case, f"{X0.shape[1]} columns", f"{len(sel)} columns",
                             "the initial guess handed to the inner solver does not have the columns of the right-hand side it gets")
        ctx.branch(f"solve.trans.{op['trans']}.{'inner' if o['calls'] else 'reused'}")
        ctx.branch("solve.vector" if op["vec"] else f"solve.block{len(op['rhs'])}")
        for kd in op["kinds"]:
            ctx.branch(f"rhs.{kd}")
        if o["calls"]:
            ctx.branch(f"inner.trans.{o['inner_trans']}")
        if not (ok and ok2):
            return obs, obs_fresh
    return obs, obs_fresh


def build_histories(ctx):
    rng = ctx.rng
    hs = []
    if ctx.quick:
        pats = list(all_patterns3())
        rng.shuffle(pats)
        for P in pats[:16]:
            hs.append(("pat3", gen_history(rng, 3, rng.randint(4, 8), sparse=rng.random() < 0.3, first_pattern=P)))
        for _ in range(6):
            hs.append(("pat4", gen_history(rng, 4, rng.randint(4, 8), sparse=rng.random() < 0.3, first_pattern=random_pattern(rng, 4))))
        for t in range(90):
            n = rng.choice([1, 2, 2, 3, 3, 3, 4, 4, 5])
            hs.append(("rand", gen_history(rng, n, rng.randint(3, 10), sparse=rng.random() < 0.3, sym_only=(t % 15 == 0),
                                           real_only=(t % 3 == 1))))
    else:
        for P in all_patterns3():
            for rep in range(3):
                hs.append(("pat3", gen_history(rng, 3, rng.randint(5, 10), sparse=(rep == 2), first_pattern=P)))
        for _ in range(200):
            hs.append(("pat4", gen_history(rng, 4, rng.randint(5, 10), sparse=rng.random() < 0.3, first_pattern=random_pattern(rng, 4))))
        for t in range(700):
            n = rng.choice([1, 2, 3, 3, 4, 4, 5, 5, 6])
            hs.append(("rand", gen_history(rng, n, rng.randint(3, 40 if t % 4 == 0 else 14), sparse=rng.random() < 0.3,
                                           sym_only=(t % 15 == 0), real_only=(t % 3 == 1))))
    # half of the sparse histories keep one stored pattern (with explicit zeros) over all their updates
    for _, h in hs:
        if h["sparse"] is True and rng.random() < 0.5:
            h["sparse"] = "full"
    return hs


# fixed corpus: the three repaired defects as histories + branch witnesses (always run first)
def corpus_histories():
    def upd(A, cplx=False):
        return {"op": "update", "A": np.array(A, dtype=complex), "cplx": cplx, "cls": "corpus"}

    def sol(cols, trans="N", cplx=False, vec=True, x0=None):
        return {"op": "solve", "rhs": [np.array(c, dtype=complex) for c in cols], "cplx": cplx, "vec": vec, "trans": trans,
                "kinds": ["corpus"], "x0": x0}
    hs = []
    hs.append({"n": 2, "ops": [upd([[1, 1], [0, 1]]), sol([[1, 2]])]})                                   # be0d3f2
    hs.append({"n": 3, "ops": [upd([[4, 1, 0], [2, 5, 1], [0, 1, 3]]), sol([[1, 0, 2]]),
                               sol([[0, 1, 1]], x0={"v": [np.ones(3, dtype=complex)], "cplx": False}),
                               sol([[1, 1, 0], [2, 0, 1]], vec=False,
                                   x0={"v": [np.ones(3, dtype=complex), np.ones(3, dtype=complex)], "cplx": False})]})   # 3952733
    hs.append({"n": 2, "ops": [upd([[2, 1], [1, 3]]), sol([[1, 0]], "T"), upd([[2, 1], [0, 3]]), sol([[1, 2]], "T"),
                               sol([[1, 2]], "H"), sol([[1, 2]], "N")]})                                    # 483f973
    hs.append({"n": 3, "ops": [sol([[1, 2, 3]]), upd([[2, 0, 0], [0, 3, 1], [0, 1j, 4]], True), sol([[1, 1, 1]], "H", True),
                               sol([[1, 1, 1]], "T", True), sol([[2, 2, 2]], "X"), sol([[0, 0, 0]])]})
    out = []
    for h in hs:
        h.update({"sparse": False, "usym": None, "uherm": None})
        anyc = any(o["cplx"] for o in h["ops"])
        h["field"] = "QI" if anyc else "Q"
        out.append(("corpus", h))
    return out


def selftest(ctx, pool):
    """thorough tier: sensitivity of the comparison itself. One number of the MODEL's input is changed (first entry of
    the first right-hand side that both sides answered: +1); the unchanged implementation output must then disagree with
    the model (or the model must reject the input). A flip that goes unnoticed is reported as a broken correspondence."""
    reqs, meta = [], []
    for h, obs, mres in pool:
        idx = next((i for i, (op, o, m) in enumerate(zip(h["ops"], obs, mres))
                    if op["op"] == "solve" and "x" in o and "x" in m), None)
        if idx is None:
            continue
        hf = dict(h)
        ops = list(h["ops"])
        op = dict(ops[idx])
        cols = [np.array(c, dtype=complex).copy() for c in op["rhs"]]
        cols[0][0] += 1
        op["rhs"] = cols
        ops[idx] = op
        hf["ops"] = ops[:idx + 1]
        reqs.append(model_request(hf))
        meta.append((h, obs, idx))
    for (h, obs, idx), m in zip(meta, ctx.model(reqs)):
        if "ok" not in m or "x" not in m["ok"][idx]:
            ctx.branch("selftest.noticed_model_rejects")
            continue
        mx = _dec_blk(m["ok"][idx]["x"], h["field"])
        X = np.asarray(obs[idx]["x"], dtype=complex).reshape(h["n"], -1)
        sc = max(1.0, max((abs(z) for col in mx for z in col), default=1.0))
        same, _ = close(X.T.flatten().tolist(), [z for col in mx for z in col], rtol=1e-7, atol=1e-9, scale=sc)
        if same:
            ctx.disagree("selftest", {"history": jsonable(h), "flipped_op": idx}, "unchanged implementation output",
                         "model output for a different right-hand side", "a changed model input was not noticed by the comparison")
        else:
            ctx.evaluations += 1
            ctx.branch("selftest.noticed")


def correspondence(ctx):
    hs = corpus_histories() + build_histories(ctx)
    reqs = [model_request(h) for _, h in hs]
    res = ctx.model(reqs)
    nused = 0
    selftest_pool = []
    for hi, ((tag, h), m) in enumerate(zip(hs, res)):
        if "ok" not in m:
            if m.get("err") == "Singular":
                ctx.branch("skipped.model_singular")
                continue
            ctx.disagree("model", {"hist": hi, "tag": tag}, None, m, "model driver error")
            continue
        mres = m["ok"]
        h2, reason = truncate_by_model(ctx, h, mres)
        if reason == "boundary":
            ctx.skipped_boundary += 1
            ctx.branch("boundary")
        if not h2["ops"]:
            continue
        ctx.branch(f"hist.{tag}.{'sparse' if h['sparse'] else 'dense'}")
        ctx.branch(f"hist.field.{h['field']}")
        ctx.branch(f"hist.flags.usym={h['usym']},uherm={h['uherm']}")
        obs, obs_fresh = compare_history(ctx, h2, mres, f"{tag}#{hi}")
        why = oracle_history(h2, obs, obs_fresh)
        if why:
            ctx.oracle_fail(why, {"op": "history", "history": jsonable(h2)})
        nused += 1
        if not ctx.quick and len(selftest_pool) < 60 and nused % 7 == 0:
            selftest_pool.append((h2, obs, mres))
        if nused in (3, 40):
            j = jsonable(h2)
            ctx.sample({"history": {"n": j["n"], "sparse": j["sparse"], "nops": len(j["ops"]),
                                    "ops": [(o["op"], o.get("trans")) for o in j["ops"]]},
                        "model_first_solve": next((r for r in mres if "x" in r), None)})
    if selftest_pool:
        selftest(ctx, selftest_pool)
    # ---- get_diagonal_indices alone: every 3x3 pattern incl. zero diagonals -----------------------------
    from pymoto.solvers.solvers import get_diagonal_indices
    cases, impls = [], []
    pats = list(all_patterns3())
    for P in pats:
        for dz in range(8 if not ctx.quick else 2):
            A = np.array([[(ctx.rng.randint(1, 4) if P[i][j] else 0) for j in range(3)] for i in range(3)], dtype=float)
            for i in range(3):
                A[i, i] = 0 if (dz >> i) & 1 else ctx.rng.randint(1, 5)
            for mk in (np.asarray, sps.csc_matrix):
                with warnings.catch_warnings():
                    warnings.simplefilter("ignore")
                    d = np.asarray(get_diagonal_indices(mk(A))).astype(bool).tolist()
                want = [bool(A[i, i] != 0 and all(A[i, j] == 0 and A[j, i] == 0 for j in range(3) if j != i)) for i in range(3)]
                if d != want:
                    ctx.oracle_fail("get_diagonal_indices: flagged indices are not exactly those decoupled in row and column",
                                    {"op": "diag", "A": A.tolist(), "got": d, "want": want})
            cases.append({"m": "c06.diag", "n": 3, "A": qlist(A)})
            impls.append(d)
    for c, i, m in zip(cases, impls, ctx.model(cases)):
        if "ok" not in m:
            ctx.disagree("diag", c, i, m, "model error")
        else:
            ctx.compare_exact("diag", c, i, m["ok"]["diag"], key=("diag", str(c["A"])))
    ctx.branch("diag.cases", len(cases))


# --------------------------------------------------------------------------------------------------
# search / replay
# --------------------------------------------------------------------------------------------------
def _shrink(h):
    """greedy removal of operations while the oracle still fails"""
    best = h
    why = oracle_history(best)
    if not why:
        return None, None
    changed = True
    while changed:
        changed = False
        for i in range(len(best["ops"])):
            cand = dict(best)
            cand["ops"] = best["ops"][:i] + best["ops"][i + 1:]
            try:
                w2 = oracle_history(cand)
            except Exception:  # noqa
                w2 = None
            if w2:
                best, why, changed = cand, w2, True
                break
    return best, why


def search(ctx, disagreements):
    found = []
    # a sweep of fresh histories through the oracle only (no model needed)
    rng = ctx.rng
    for t in range(150 if ctx.quick else 600):
        n = rng.choice([2, 3, 3, 4])
        h = gen_history(rng, n, rng.randint(3, 8), sparse=rng.random() < 0.3)
        try:
            b, why = _shrink(h)
        except Exception:  # noqa
            continue
        if why:
            found.append({"what": why, "witness": {"op": "history", "history": jsonable(b)}})
            if len(found) >= 3:
                break
    found.sort(key=lambda w: len(str(w["witness"])))
    return found


def replay(ctx, data):
    w = data.get("witness", {})
    w = w.get("witness", w)
    if w.get("op") == "history":
        h = from_jsonable(w["history"])
        why = oracle_history(h)
        return {"still_failing": bool(why), "what": why}
    if w.get("op") == "diag":
        from pymoto.solvers.solvers import get_diagonal_indices
        A = np.array(w["A"])
        d = np.asarray(get_diagonal_indices(A)).astype(bool).tolist()
        return {"still_failing": d != w["want"], "what": f"got {d} want {w['want']}"}
    if w.get("script"):
        import subprocess, sys, os
        from ..common import VERIF
        p = subprocess.run([sys.executable, os.path.join(VERIF, w["script"])], capture_output=True, text=True)
        return {"still_failing": p.returncode != 0, "what": (p.stdout + p.stderr)[-400:]}
    return {"still_failing": False, "note": "replay file names no failing input (see no_longer_checks)"}
