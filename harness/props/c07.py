"""C07 — linear-system modules satisfy their defining equations (pymoto/modules/linalg.py:
LinSolve, Inverse, SystemOfEquations, StaticCondensation)

correspondence: real modules (response AND sensitivity) vs the Lean models of `LA/LinSys.lean` run at ℚ(i) with an exact
                Gauss–Jordan inner solver (driver ops c07.linsolve / c07.inverse / c07.soe / c07.staticcond); floats are
                sent as exact rationals, comparison with a tolerance scaled by the condition number.
oracle/search : the defining equations on the real outputs (A x = b; A B = I; A x = b ∧ x[p] = xp ∧ b[f] = bf; Schur
                complement; condensed system reproduces the main-dof response of the full system).
Every case is a deterministic function of a small `spec` dict (stream + seed + optional overrides) so that a
disagreement can be rebuilt by `search` / `replay`.
"""
import itertools
import warnings

import numpy as np
import scipy.sparse as sps

from ..common import q, call_impl, vary_layout, frozen

# derivative form of the adjoint theorems (Props/C07Deriv.lean: the implicit-function step, the coded sensitivities are the
# derivative of the response along every differentiable curve of inputs); audited with every check of C07
EXTRA_LEAN_MODULES = ("PymotoVerif.Props.C07Deriv",)
EXTRA_THEOREMS = [
    "PymotoVerif.C07Deriv.linsolve_solution_hasDerivAt", "PymotoVerif.C07Deriv.linsolve_response_hasDerivAt",
    "PymotoVerif.C07Deriv.linsolve_sensitivity_is_derivative", "PymotoVerif.C07Deriv.linsolve_sensitivity_is_derivative_complex",
    "PymotoVerif.C07Deriv.inverse_response_hasDerivAt", "PymotoVerif.C07Deriv.inverse_sensitivity_is_derivative",
    "PymotoVerif.C07Deriv.inverse_sensitivity_is_derivative_complex",
    "PymotoVerif.C07Deriv.soe_sensitivity_is_derivative", "PymotoVerif.C07Deriv.soe_sensitivity_is_derivative_complex_re",
    "PymotoVerif.C07Deriv.staticcond_sensitivity_is_derivative",
    "PymotoVerif.C07Deriv.staticcond_sensitivity_is_derivative_complex_re",
    "PymotoVerif.LinSys.MatDerivAt.inv_mul", "PymotoVerif.LinSys.matDerivAt_iff_hasDerivAt",
]

RULE = ("streams: linsolve (matrix class x dense/sparse format x real/complex matrix x real/complex rhs x vector/block x "
        "solver override x hermitian/symmetric flags, incl. FE stiffness matrices with boundary conditions and random "
        "matrices with dofs decoupled in row only / column only / both, triangular and block-triangular matrices, FE stiffness with "
        "row-replacement boundary conditions), inverse, soe (ALL partitions of index sets n<=4 (5 thorough) + random larger, "
        "free/prescribed/both given, seeds x/b/both), staticcond (all disjoint main/free choices for n<=4 + random, dense "
        "and DyadCarrier seeds), malformed. distinct = distinct case names (configuration + seed); every case compares "
        "response and sensitivities with the exact model and runs the defining-equation oracle on the real outputs")
ASSUMPTIONS = [
    "matrices are generated with condition number <= 1e6 (worse cases are counted as boundary and skipped); "
    "tolerance = 2e-11 * cond (1e-5 * cond for the iterative CG solver) relative to the largest entry",
    "the inner solver of the model is exact Gauss-Jordan elimination over Q(i) with its contract A*inv(A)=1 checked at run time; "
    "the solver stack of pyMOTO (auto_determine_solver, LDAWrapper, factorisations) is covered by C05/C06",
    "solver overrides are chosen among the solver classes that are valid for the matrix class (Cholesky/CG only for "
    "Hermitian positive definite, LDL for Hermitian/symmetric, SolverDiagonal for diagonal matrices)",
    "scipy's coo format cannot be indexed, so SystemOfEquations/StaticCondensation are exercised with csc/csr (LinSolve also with coo)",
]

MAXCOND = 1e6


class _Stub:
    """pymoto.core_objects.get_init_str (creation-site string, only used in error messages) costs ~7 ms per object"""
    def __enter__(self):
        import pymoto.core_objects as co
        self.co, self.orig = co, co.get_init_str
        co.get_init_str = lambda: "File \"<verif>\", line 0, in harness"

    def __exit__(self, *a):
        self.co.get_init_str = self.orig


def _pm():
    import pymoto
    return pymoto


# ----------------------------------------------------------------------------------------------
# encoding
# ----------------------------------------------------------------------------------------------
def enc(a):
    """numpy array -> nested lists of exact scalars (rational, or [re, im] for a complex dtype)"""
    a = np.asarray(a)
    if np.iscomplexobj(a):
        def e(z):
            return [q(float(z.real)), q(float(z.imag))]
    else:
        def e(z):
            return q(float(z))
    if a.ndim == 1:
        return [e(v) for v in a]
    return [[e(v) for v in row] for row in a]


def enc_col(a):
    """vector or block rhs -> list of rows (a vector is one column)"""
    a = np.asarray(a)
    return enc(a.reshape(a.shape[0], 1) if a.ndim == 1 else a)


def dec(m):
    """driver matrix (rows of [re, im]) -> complex numpy array"""
    from fractions import Fraction
    return np.array([[complex(float(Fraction(z[0])), float(Fraction(z[1]))) for z in row] for row in m], dtype=complex).reshape(
        len(m), len(m[0]) if m else 0)


def dense(a):
    pm = _pm()
    if a is None:
        return None
    if isinstance(a, pm.DyadCarrier):
        return a.todense()
    if sps.issparse(a):
        return np.asarray(a.todense())
    return np.asarray(a)


# ----------------------------------------------------------------------------------------------
# matrices
# ----------------------------------------------------------------------------------------------
def rand_matrix(rng, n, cls, cplx):
    def rn(*s):
        return rng.standard_normal(s) + (1j * rng.standard_normal(s) if cplx else 0)
    if cls == "spd":
        B = rn(n, n)
        A = B @ B.conj().T + n * np.eye(n)
        A = (A + A.conj().T) / 2
    elif cls == "symindef":
        B = rn(n, n)
        A = (B + B.conj().T) / 2 + np.diag(np.where(np.arange(n) % 2 == 0, 3.0, -3.0) * max(1, n / 2))
    elif cls == "symzd":   # self-adjoint with a ZERO diagonal: the LDL factorisation needs 2x2 pivot blocks
        for _ in range(50):
            B = rn(n, n)
            A = (B + B.conj().T) / 2
            A[np.arange(n), np.arange(n)] = 0
            if n >= 2 and np.linalg.cond(A) < 200:
                break
    elif cls == "csym":  # complex symmetric, not Hermitian
        B = rn(n, n)
        A = (B + B.T) / 2 + (2 + 1j) * n * np.eye(n) / 2
    elif cls == "dynstiff":  # damped dynamic stiffness K + i w C - w^2 M: complex symmetric, not Hermitian, often indefinite
        def spd():
            G = rng.standard_normal((n, n))
            return G @ G.T / n + np.eye(n)
        w = rng.uniform(0.5, 2.5)
        A = spd() * rng.uniform(1, 4) + 1j * w * spd() * rng.uniform(0.2, 1.0) - w ** 2 * spd()
        A = (A + A.T) / 2
    elif cls == "csymindef":  # complex symmetric and indefinite
        B = rn(n, n)
        A = (B + B.T) / 2 + np.diag(np.where(np.arange(n) % 2 == 0, 3.0, -3.0) * max(1, n / 2) * (1 + 0.5j))
    elif cls == "tri":  # upper / lower triangular: the last / first row is diagonal-only while its column couples
        A = rn(n, n) + n * np.eye(n)
        A = np.triu(A) if rng.random() < 0.5 else np.tril(A)
    elif cls == "blocktri":  # block triangular [[A11, A12], [0, A22]] (or its transpose), symmetrically permuted
        A = rn(n, n) + n * np.eye(n)
        k1 = int(rng.integers(1, n)) if n > 1 else 0
        A[k1:, :k1] = 0
        if rng.random() < 0.5:
            A = A.T.copy()
        perm = rng.permutation(n)
        A = A[np.ix_(perm, perm)]
    elif cls == "diag":
        A = np.diag(rng.uniform(0.5, 3.0, n) * rng.choice([-1, 1], n) + (1j * rng.uniform(-1, 1, n) if cplx else 0))
    else:
        A = rn(n, n) + n * np.eye(n)
    return A


def decouple(rng, A, mode="both", idx=None):
    """give some dofs the structure produced by boundary conditions. Per dof one of
      both: zero row and column, diagonal entry only (what AssembleGeneral's `bc` produces; keeps symmetry)
      row : zero ROW only (row-replacement Dirichlet condition `A[i, :] = 0; A[i, i] = d`): the column still couples the dof
            into the other equations, so it is NOT decoupled and its value has to be moved to their right-hand sides
      col : zero COLUMN only: the other equations do not see the dof, its own equation still contains the others
    mode = "both" | "row" | "col" | "mixed" (per dof at random). Returns (A, indices, kinds)."""
    n = A.shape[0]
    if n < 3 and idx is None:
        return A, [], []
    if idx is None:
        nb = int(rng.integers(1, max(2, n // 2)))
        idx = np.sort(rng.choice(n, size=nb, replace=False))
    A = A.copy()
    kinds = []
    for i in idx:
        kd = mode if mode in ("row", "col", "both") else str(rng.choice(["row", "col", "both"]))
        if kd in ("row", "both"):
            A[i, :] = 0
        if kd in ("col", "both"):
            A[:, i] = 0
        kinds.append(kd)
    A[idx, idx] = rng.uniform(0.5, 2.0, len(idx))
    return A, [int(v) for v in idx], kinds


def fe_matrix(rng, with_bc=True, cplx=False):
    """stiffness matrix of a small 2-D/3-D mesh from AssembleStiffness; rows/columns of `bc` dofs are decoupled"""
    pm = _pm()
    if rng.random() < 0.8:
        nx, ny = int(rng.integers(1, 4)), int(rng.integers(1, 3))
        dom = pm.DomainDefinition(nx, ny, 0, float(rng.uniform(0.5, 2)), float(rng.uniform(0.5, 2)))
    else:
        nx, ny = 1, 1
        dom = pm.DomainDefinition(1, 1, 1)
    ndof = dom.dim * dom.nnodes
    left = np.unique(dom.get_dofnumber(dom.get_nodenumber(0, np.arange(dom.nely + 1), 0 if dom.dim == 2 else np.arange(dom.nelz + 1)),
                                       np.arange(dom.dim), ndof=dom.dim).flatten()) if False else None
    # dofs of the nodes on the plane i = 0
    nodes_left = [n for n in range(dom.nnodes) if n % (dom.nelx + 1) == 0]
    left = np.array(sorted(d for n in nodes_left for d in range(n * dom.dim, (n + 1) * dom.dim)))
    x = rng.uniform(0.2, 1.0, dom.nel)
    if cplx:
        x = x * (1 + 0.2j * rng.uniform(0.5, 1.0, dom.nel))
    s = pm.Signal("x", x)
    kw = {}
    if with_bc:
        kw["bc"] = left
        if rng.random() < 0.5:
            kw["bcdiagval"] = float(rng.uniform(0.5, 2.0))
    m = pm.AssembleStiffness([s], domain=dom, e_modulus=float(rng.uniform(0.5, 2.0)),
                             poisson_ratio=float(rng.uniform(0.1, 0.4)), **kw)
    m.response()
    K = m.sig_out[0].state
    return K, left, ndof, f"{dom.nelx}x{dom.nely}x{dom.nelz}"


# ----------------------------------------------------------------------------------------------
# case construction (deterministic in `spec`)
# ----------------------------------------------------------------------------------------------
def solver_choices(cls, sparse, cplx):
    """names of the solver overrides that are valid for the matrix class"""
    out = [None]
    herm_pd = cls in ("spd", "fe") or (cls == "diagpos")
    if sparse:
        out += ["SparseLU"]
        if herm_pd:
            out += ["CG", "CG-Jacobi", "CG-SOR", "CG-ILU"]
    else:
        out += ["DenseQR", "DenseLU"]
        if herm_pd:
            out += ["DenseCholesky", "DenseLDL"]
        if cls in ("symindef", "symzd", "csym", "dynstiff", "csymindef"):
            out += ["DenseLDL"]
    if cls == "diag":
        out += ["Diagonal"]
    return out


def make_solver(name):
    sv = _pm().solvers
    if name is None:
        return None
    return {
        "SparseLU": lambda: sv.SolverSparseLU(),
        "CG": lambda: sv.CG(tol=1e-10),
        "CG-Jacobi": lambda: sv.CG(preconditioner=sv.DampedJacobi(), tol=1e-10),
        "CG-SOR": lambda: sv.CG(preconditioner=sv.SOR(), tol=1e-10),
        "CG-ILU": lambda: sv.CG(preconditioner=sv.ILU(), tol=1e-10),
        "DenseQR": lambda: sv.SolverDenseQR(),
        "DenseLU": lambda: sv.SolverDenseLU(),
        "DenseCholesky": lambda: sv.SolverDenseCholesky(),
        "DenseLDL": lambda: sv.SolverDenseLDL(),
        "Diagonal": lambda: sv.SolverDiagonal(),
    }[name]()


SPFORMATS = {"csc": sps.csc_matrix, "csr": sps.csr_matrix, "coo": sps.coo_matrix}


class Case:
    pass


def _matrix_for(rng, spec, classes, sparse_only=False):
    """common matrix generation; returns (A dense ndarray, cls, cplx, sparse, fmt, info)"""
    cplx = spec.get("cplx", bool(rng.random() < 0.3))
    sparse = True if sparse_only else spec.get("sparse", bool(rng.random() < 0.5))
    cls = spec.get("cls") or str(rng.choice(classes + (["csym", "dynstiff", "csymindef"] if cplx and "general" in classes else [])))
    if cls in ("csym", "dynstiff", "csymindef"):
        cplx = True
    info = ""
    left = None
    dmode = spec.get("decouple", None)
    if dmode is None:
        dmode = str(rng.choice(["both", "row", "col", "mixed"])) if rng.random() < 0.35 else False
    elif dmode is True:
        dmode = "both"
    if spec.get("solver") is not None and dmode in ("row", "col", "mixed"):
        dmode = "both"    # an explicit solver override is valid for the class only while the class is kept
    if cls in ("ferow", "fecol", "femixed"):
        # FE stiffness matrix WITHOUT assembled boundary conditions, then row- (column-) replacement conditions on the
        # dofs of the clamped edge: `A[i, :] = 0; A[i, i] = d` leaves column i in the other equations
        K, left, n, info = fe_matrix(rng, with_bc=False, cplx=cplx)
        A = np.asarray(K.todense())
        A, _, kinds = decouple(rng, A, {"ferow": "row", "fecol": "col", "femixed": "mixed"}[cls], idx=left)
        info = cls + info
        cls = "general"
        left = None
        sparse = True if "sparse" not in spec else spec["sparse"]
    elif cls == "fe":
        K, left, n, info = fe_matrix(rng, with_bc=spec.get("bc", True), cplx=cplx)
        A = np.asarray(K.todense())
        sparse = True if "sparse" not in spec else spec["sparse"]
    else:
        n = spec.get("n") or int(rng.integers(1 if cls == "diag" else 2, 7))
        A = rand_matrix(rng, n, cls, cplx)
        if sparse and cls not in ("diag",):
            mask = rng.random((n, n)) < 0.6
            mask = mask | mask.T | np.eye(n, dtype=bool)
            A = np.where(mask, A, 0)
        if dmode and cls != "diag":
            A, dec_idx, kinds = decouple(rng, A, dmode)
            if dec_idx:
                info = "dec" + "".join(k[0] for k in kinds)
                if any(k != "both" for k in kinds):
                    info = cls + info     # the matrix is no longer in its (symmetric) class: any-matrix solvers only
                    cls = "general"
        if cls in ("tri", "blocktri"):
            info = cls + info
            cls = "general"
    fmts = list(SPFORMATS) if spec["stream"] == "linsolve" else ["csc", "csr"]   # scipy's coo format cannot be indexed
    fmt = str(rng.choice(fmts)) if sparse else "dense"
    if cplx and not np.iscomplexobj(A):
        A = A.astype(complex)
    return A, cls, cplx, sparse, fmt, info, left


def wrap(A, sparse, fmt):
    # dense matrices: C order, Fortran order or a transposed view (same logical matrix)
    return SPFORMATS[fmt](A) if sparse else vary_layout(A.copy(), (A.shape, float(np.abs(A).sum())))


def build(spec):
    rng = np.random.default_rng(spec["seed"])
    st = spec["stream"]
    c = Case()
    c.spec = spec
    c.stream = st
    if st == "linsolve":
        A, cls, cplx, sparse, fmt, info, _ = _matrix_for(rng, spec, ["spd", "symindef", "general", "diag", "fe", "tri", "blocktri", "ferow", "femixed"])
        n = A.shape[0]
        k = spec.get("k", [None, 1, 2, 3][int(rng.integers(0, 4))])
        bcplx = spec.get("bcplx", cplx or bool(rng.random() < 0.3))
        if sparse and not cplx:
            bcplx = False   # real sparse matrix with complex rhs: documented TypeError (malformed stream)
        shp = (n,) if k is None else (n, k)
        b = rng.standard_normal(shp) + (1j * rng.standard_normal(shp) if bcplx else 0)
        if k is not None and k >= 2 and spec.get("colscale", bool(rng.random() < 0.35)):
            # load cases of very different magnitude in ONE block (exact power-of-two factors): every column is its own system
            cs = np.array(([1.0, 2.0 ** -30, 2.0 ** -37] * k)[:k])
            b = b * rng.permutation(cs)[None, :]
        rng2 = np.random.default_rng(spec["seed"] + 7919)     # (a second stream: the cases of earlier corpora stay what they were)
        if k is not None and k >= 2 and spec.get("zerocol", bool(rng2.random() < 0.3)):
            # a load case WITHOUT load inside a block (an all-zero column needs no solve; its neighbours do)
            b[:, int(rng2.integers(0, k))] = 0
        # the same LinSolve instance has solved a system of a NARROWER class before (diagonal before coupled, complex symmetric
        # before complex general, ...): whatever it chose for that matrix must not be used for this one
        c.prime = spec.get("prime", bool(rng2.random() < 0.35))
        c.prime_kind = str(rng2.choice(["diag", "spd", "csym", "symindef"]))
        c.prime_seed = int(rng2.integers(0, 2 ** 31))
        choices = solver_choices(cls, sparse, cplx)
        sname = spec.get("solver", choices[int(rng.integers(0, len(choices)))] if rng.random() < 0.6 else None)
        flagmode = spec.get("flags", str(rng.choice(["none", "none", "hermitian", "symmetric", "both"])))
        wcplx = bool(cplx or bcplx or (rng.random() < 0.15 and not (sname or "").startswith("CG")))
        w = rng.standard_normal(shp) + (1j * rng.standard_normal(shp) if wcplx else 0)
        c.A, c.b, c.w = A, b, w
        c.cls, c.cplx, c.sparse, c.fmt, c.k, c.bcplx, c.solver, c.flagmode = cls, cplx, sparse, fmt, k, bcplx, sname, flagmode
        c.lda = spec.get("lda", bool(rng.random() < 0.85))
        c.name = f"linsolve.{cls}{info}.n{n}.{fmt}.{'c' if cplx else 'r'}{'c' if bcplx else 'r'}.k{k}.{sname}.{flagmode}.{'lda' if c.lda else 'nolda'}.s{spec['seed']}"
        c.condmat = A
    elif st == "inverse":
        cplx = spec.get("cplx", bool(rng.random() < 0.35))
        n = spec.get("n") or int(rng.integers(1, 7))
        cls = str(rng.choice(["general", "spd", "symindef"]))
        A = rand_matrix(rng, n, cls, cplx)
        wc = bool(cplx or rng.random() < 0.2)
        c.A = A
        c.w = rng.standard_normal((n, n)) + (1j * rng.standard_normal((n, n)) if wc else 0)
        c.cplx = cplx
        c.name = f"inverse.{cls}.n{n}.{'c' if cplx else 'r'}{'c' if wc else 'r'}.s{spec['seed']}"
        c.condmat = A
    elif st == "soe":
        A, cls, cplx, sparse, fmt, info, left = _matrix_for(rng, spec, ["spd", "general", "symindef", "fe", "tri", "blocktri", "ferow", "femixed"])
        if cls == "fe" and "bc" not in spec:  # regenerate without bc: the prescribed dofs take their place
            rng = np.random.default_rng(spec["seed"])
            A, cls, cplx, sparse, fmt, info, left = _matrix_for(rng, dict(spec, bc=False, cls="fe", cplx=cplx, sparse=sparse), ["fe"])
        n = A.shape[0]
        if "mask" in spec:
            mask = np.array(spec["mask"], dtype=bool)
        elif cls == "fe":
            mask = np.ones(n, dtype=bool)
            mask[left] = False
            extra = rng.random(n) < 0.1
            mask[extra] = False
            if not mask.any():
                mask[-1] = True
        else:
            nf = int(rng.integers(1, n)) if n > 1 else 1
            mask = np.zeros(n, dtype=bool)
            mask[rng.choice(n, size=nf, replace=False)] = True
        f, p = np.flatnonzero(mask), np.flatnonzero(~mask)
        if spec.get("shuffle", rng.random() < 0.3):
            f, p = rng.permutation(f), rng.permutation(p)
        k = spec.get("k", [None, 1, 2][int(rng.integers(0, 3))])
        # dtypes of the loads / prescribed values: with a real DENSE matrix either may be complex (the outputs take the
        # common dtype); a real SPARSE matrix with complex data is rejected by the inner LinSolve (malformed stream)
        if cplx:
            bfc, xpc = True, True
        elif sparse:
            bfc, xpc = False, False
        else:
            bfc, xpc = [(False, False), (False, False), (True, True), (True, False), (False, True)][
                spec.get("rhsdtype", int(rng.integers(0, 5)))]
        bcplx = bfc or xpc or cplx
        shf = (len(f),) if k is None else (len(f), k)
        shp = (len(p),) if k is None else (len(p), k)
        c.bf = rng.standard_normal(shf) + (1j * rng.standard_normal(shf) if bfc else 0)
        c.xp = rng.standard_normal(shp) + (1j * rng.standard_normal(shp) if xpc else 0)
        give = spec.get("give", str(rng.choice(["both", "free", "prescribed"])))
        if give != "both":  # the complement computed by the code is sorted
            if give == "free":
                p = np.sort(p)
            else:
                f = np.sort(f)
        seeds = spec.get("seeds", str(rng.choice(["both", "x", "b"])))
        sh = (n,) if k is None else (n, k)
        c.gx = (rng.standard_normal(sh) + (1j * rng.standard_normal(sh) if bcplx else 0)) if seeds in ("both", "x") else None
        c.gb = (rng.standard_normal(sh) + (1j * rng.standard_normal(sh) if bcplx else 0)) if seeds in ("both", "b") else None
        choices = solver_choices(cls, sparse, cplx)
        c.solver = spec.get("solver", choices[int(rng.integers(0, len(choices)))] if rng.random() < 0.3 else None)
        c.A, c.f, c.p, c.k, c.give = A, f, p, k, give
        c.cls, c.cplx, c.sparse, c.fmt, c.bcplx = cls, cplx, sparse, fmt, bcplx
        c.name = (f"soe.{cls}{info}.n{n}.f{''.join(str(int(v)) for v in mask) if n <= 12 else len(f)}.{fmt}.{'c' if cplx else 'r'}."
                  f"k{k}.{give}.{seeds}.{c.solver}.bf{'c' if bfc else 'r'}xp{'c' if xpc else 'r'}.s{spec['seed']}")
        c.condmat = A[np.ix_(f, f)]
        c.condfull = A
    elif st == "staticcond":
        A, cls, cplx, sparse, fmt, info, left = _matrix_for(rng, dict(spec, bc=False), ["spd", "general", "symindef", "fe", "tri", "blocktri", "ferow", "femixed"], sparse_only=True)
        n = A.shape[0]
        if "roles" in spec:
            roles = np.array(spec["roles"])
        elif cls == "fe":
            roles = np.ones(n, dtype=int)          # 1 = free
            roles[left] = 0                        # 0 = prescribed to zero
            cand = np.flatnonzero(roles == 1)
            nm = int(rng.integers(1, max(2, min(4, len(cand)))))
            roles[rng.choice(cand, size=min(nm, len(cand) - 1) if len(cand) > 1 else 0, replace=False)] = 2
            if not (roles == 2).any():
                roles[cand[0]] = 2
                if not (roles == 1).any():
                    roles[left[0]] = 1
        else:
            while True:
                roles = rng.integers(0, 3, n)
                if (roles == 1).any() and (roles == 2).any():
                    break
        main, free = np.flatnonzero(roles == 2), np.flatnonzero(roles == 1)
        if spec.get("shuffle", rng.random() < 0.3):
            main, free = rng.permutation(main), rng.permutation(free)
        nm = len(main)
        c.seedkind = spec.get("seedkind", str(rng.choice(["dense", "dyad"])))
        if c.seedkind == "dense":
            c.G = rng.standard_normal((nm, nm)) + (1j * rng.standard_normal((nm, nm)) if cplx else 0)
        else:
            nd = int(rng.integers(1, 4))
            c.G = [(rng.standard_normal(nm) + (1j * rng.standard_normal(nm) if cplx else 0),
                    rng.standard_normal(nm) + (1j * rng.standard_normal(nm) if cplx else 0)) for _ in range(nd)]
        choices = solver_choices(cls, True, cplx)
        c.solver = spec.get("solver", choices[int(rng.integers(0, len(choices)))] if rng.random() < 0.3 else None)
        c.A, c.main, c.free = A, main, free
        c.cls, c.cplx, c.sparse, c.fmt = cls, cplx, True, fmt
        c.name = (f"staticcond.{cls}{info}.n{n}.r{''.join(str(int(v)) for v in roles) if n <= 12 else nm}.{fmt}.{'c' if cplx else 'r'}."
                  f"{c.seedkind}.{c.solver}.s{spec['seed']}")
        c.condmat = A[np.ix_(free, free)]
    else:
        raise ValueError(st)
    # the same system in other units (exact power-of-two factor on the matrix): classification, solver choice and every
    # tolerance inside the library must be relative
    ue = spec.get("units", int(rng.choice([0, 0, 0, -40, -27, 30])) if st in ("linsolve", "inverse", "staticcond") else 0)
    if ue:
        c.A = c.A * 2.0 ** ue
        c.condmat = c.condmat * 2.0 ** ue
        c.name += f".units2^{ue}"
    with np.errstate(all="ignore"):
        try:
            c.cond = float(np.linalg.cond(c.condmat)) if c.condmat.size else 1.0
        except np.linalg.LinAlgError:
            c.cond = np.inf
    return c


def tol_of(c):
    base = 1e-5 if (getattr(c, "solver", None) or "").startswith("CG") else 2e-11
    return base * max(1.0, c.cond)


# ----------------------------------------------------------------------------------------------
# running the real code
# ----------------------------------------------------------------------------------------------
def run_impl(c):
    pm = _pm()
    out = {}
    with warnings.catch_warnings():
        warnings.simplefilter("ignore")
        if c.stream == "linsolve":
            sA, sb = pm.Signal("A", wrap(c.A, c.sparse, c.fmt)), pm.Signal("b", c.b.copy())
            kw = {}
            if c.solver is not None:
                kw["solver"] = make_solver(c.solver)
            at = 1e-12 * float(np.abs(c.A).max())   # (relative to the matrix: the flags must be truthful in any units)
            herm = bool(np.allclose(c.A, c.A.conj().T, rtol=0.0, atol=at))
            symm = bool(np.allclose(c.A, c.A.T, rtol=0.0, atol=at))
            # truthful user flags (they only save the detection)
            if c.flagmode in ("hermitian", "both"):
                kw["hermitian"] = herm
            if c.flagmode in ("symmetric", "both"):
                kw["symmetric"] = symm
            m = pm.LinSolve([sA, sb], **kw)
            if not c.lda:
                m.use_lda_solver = False
            if getattr(c, "prime", False) and c.solver is None and c.flagmode == "none":
                # (only with the automatic solver choice and without user flags: both would be tied to the first matrix by design)
                rp = np.random.default_rng(c.prime_seed)
                n_ = c.A.shape[0]
                pc = c.prime_kind == "csym" and (c.cplx or not c.sparse)
                if c.prime_kind == "diag":
                    Ap = np.diag(rp.uniform(1.0, 2.0, n_)) * (1.0 + 0j if c.cplx else 1.0)
                elif c.prime_kind == "csym" and pc:
                    Bp = rp.standard_normal((n_, n_)) + 1j * rp.standard_normal((n_, n_))
                    Ap = (Bp + Bp.T) / 2 + n_ * np.eye(n_)
                else:
                    Ap = rand_matrix(rp, n_, "spd" if c.prime_kind in ("spd", "csym") else "symindef", c.cplx)
                if c.sparse and not np.iscomplexobj(Ap) and np.iscomplexobj(c.b):
                    Ap = Ap.astype(complex)
                sA.state = wrap(Ap * float(np.abs(c.A).max()), c.sparse, c.fmt)
                try:
                    m.response()
                    m.sig_out[0].sensitivity = c.w.copy()
                    m.sensitivity()
                    m.reset()
                except Exception:
                    m = pm.LinSolve([sA, sb], **kw)
                    if not c.lda:
                        m.use_lda_solver = False
                sA.sensitivity, sb.sensitivity = None, None
                sA.state, sb.state = wrap(c.A, c.sparse, c.fmt), c.b.copy()
            snapA = frozen(sA.state)
            m.response()
            out["input_clobbered"] = (not c.sparse) and frozen(sA.state) != snapA
            out["x"] = np.array(m.sig_out[0].state)
            m.sig_out[0].sensitivity = c.w.copy()
            m.sensitivity()
            out["dA"], out["db"] = sA.sensitivity, sb.sensitivity
        elif c.stream == "inverse":
            sA = pm.Signal("A", c.A.copy())
            m = pm.Inverse([sA])
            m.response()
            out["B"] = np.array(m.sig_out[0].state)
            m.sig_out[0].sensitivity = c.w.copy()
            m.sensitivity()
            out["dA"] = sA.sensitivity
        elif c.stream == "soe":
            sA = pm.Signal("A", wrap(c.A, c.sparse, c.fmt))
            s1, s2 = pm.Signal("bf", c.bf.copy()), pm.Signal("xp", c.xp.copy())
            kw = {}
            if c.give in ("both", "free"):
                kw["free"] = c.f.copy()
            if c.give in ("both", "prescribed"):
                kw["prescribed"] = c.p.copy()
            if c.solver is not None:
                kw["solver"] = make_solver(c.solver)
            m = pm.SystemOfEquations([sA, s1, s2], **kw)
            if c.spec["seed"] % 2 == 0 and (np.iscomplexobj(c.bf) or np.iscomplexobj(c.xp) or np.iscomplexobj(c.A)) \
                    and not (c.sparse and not np.iscomplexobj(c.A)) and c.solver is None:
                # (only with the automatic solver choice: a user-supplied solver OBJECT keeps what it detected for its first
                #  matrix -- SolverDenseLDL's `hermitian` flag -- which is that object's documented behaviour, modelled in C05)
                # the same instance has solved the REAL part of this problem before (same shapes, other dtype): storage kept
                # between calls must follow the dtype of the current data
                sA.state, s1.state, s2.state = wrap(np.real(c.A).copy(), c.sparse, c.fmt), np.real(c.bf).copy(), np.real(c.xp).copy()
                try:
                    m.response()
                    m.reset()
                except Exception:   # (the real part alone may be singular: then there simply is no earlier call)
                    m = pm.SystemOfEquations([sA, s1, s2], **kw)
                sA.state, s1.state, s2.state = wrap(c.A, c.sparse, c.fmt), c.bf.copy(), c.xp.copy()
            m.response()
            out["x"], out["b"] = np.array(m.sig_out[0].state), np.array(m.sig_out[1].state)
            if sps.issparse(sA.state) != c.sparse or sA.state.shape != c.A.shape:
                out["input_clobbered"] = True
            if c.gx is not None:
                m.sig_out[0].sensitivity = c.gx.copy()
            if c.gb is not None:
                m.sig_out[1].sensitivity = c.gb.copy()
            m.sensitivity()
            out["dA"], out["dbf"], out["dxp"] = sA.sensitivity, s1.sensitivity, s2.sensitivity
        elif c.stream == "staticcond":
            sA = pm.Signal("A", wrap(c.A, True, c.fmt))
            kw = {}
            if c.solver is not None:
                kw["solver"] = make_solver(c.solver)
            m = pm.StaticCondensation([sA], main=c.main.copy(), free=c.free.copy(), **kw)
            m.response()
            out["Ared"] = dense(m.sig_out[0].state)
            if c.seedkind == "dense":
                m.sig_out[0].sensitivity = c.G.copy()
            else:
                m.sig_out[0].sensitivity = pm.DyadCarrier([u.copy() for u, _ in c.G], [v.copy() for _, v in c.G])
            m.sensitivity()
            out["dA"] = sA.sensitivity
    return out


# ----------------------------------------------------------------------------------------------
# the property oracle on the real outputs
# ----------------------------------------------------------------------------------------------
def _rel(r, *scales):
    s = max([1e-300] + [float(np.max(np.abs(v))) if np.size(v) else 0.0 for v in scales])
    return float(np.max(np.abs(r))) / s if np.size(r) else 0.0


def oracle(c, out):
    """None, or a description of how the defining equations are violated by the real outputs"""
    tol = 50 * tol_of(c)
    A = c.A
    if c.stream == "linsolve":
        x = out["x"]
        if out.get("input_clobbered"):
            return "LinSolve.response() wrote into the matrix held by its input signal"
        if x.shape != c.b.shape:
            return f"x has shape {x.shape}, rhs has shape {c.b.shape}"
        X2, B2 = x.reshape(x.shape[0], -1), c.b.reshape(c.b.shape[0], -1)
        for j in range(B2.shape[1]):   # column by column: each right-hand side is its own system
            r = _rel(A @ X2[:, j] - B2[:, j], B2[:, j], np.abs(A).max() * np.abs(X2[:, j]).max())
            if not r <= tol:
                return f"LinSolve: column {j}: |A x - b| / scale = {r:.3e} > {tol:.1e}"
    elif c.stream == "inverse":
        B = out["B"]
        r = _rel(A @ B - np.eye(A.shape[0]), [1.0])
        if not r <= tol:
            return f"Inverse: |A B - I| = {r:.3e} > {tol:.1e}"
    elif c.stream == "soe":
        x, b = out["x"], out["b"]
        if out.get("input_clobbered"):
            return "SystemOfEquations replaced the state of its matrix input signal"
        tol = tol * max(1.0, np.abs(A).max())
        r = _rel(A @ x - b, b, np.abs(A).max() * np.abs(x).max())
        if not r <= tol:
            return f"SystemOfEquations: |A x - b| / scale = {r:.3e} > {tol:.1e}"
        if not np.array_equal(x[c.p, ...], c.xp):
            return f"SystemOfEquations: x[p] != xp (max diff {np.abs(x[c.p, ...] - c.xp).max():.3e})"
        if not np.array_equal(b[c.f, ...], c.bf):
            return f"SystemOfEquations: b[f] != bf (max diff {np.abs(b[c.f, ...] - c.bf).max():.3e})"
    elif c.stream == "staticcond":
        m, f = c.main, c.free
        Amm, Amf, Afm, Aff = A[np.ix_(m, m)], A[np.ix_(m, f)], A[np.ix_(f, m)], A[np.ix_(f, f)]
        S = Amm - Amf @ np.linalg.solve(Aff, Afm)
        r = _rel(out["Ared"] - S, S, Amm)
        if not r <= tol:
            return f"StaticCondensation: |Ared - Schur complement| / scale = {r:.3e} > {tol:.1e}"
        # the condensed system reproduces the main-dof response of the full system (zero load on the free dofs)
        rng = np.random.default_rng(c.spec["seed"] + 17)
        bm = rng.standard_normal(len(m)) + (1j * rng.standard_normal(len(m)) if c.cplx else 0)
        act = np.concatenate([m, f])
        try:
            full = np.linalg.solve(A[np.ix_(act, act)], np.concatenate([bm, np.zeros(len(f))]))
        except np.linalg.LinAlgError:
            return None
        condfull = np.linalg.cond(A[np.ix_(act, act)])
        if condfull > MAXCOND:
            return None
        xm = full[:len(m)]
        r = _rel(out["Ared"] @ xm - bm, bm, np.abs(out["Ared"]).max() * np.abs(xm).max())
        if not r <= 50 * 2e-11 * max(c.cond, condfull) * (1e6 if (c.solver or "").startswith("CG") else 1):
            return f"StaticCondensation: condensed system does not reproduce the main-dof response: residual {r:.3e}"
    return None


# ----------------------------------------------------------------------------------------------
# model requests and comparison
# ----------------------------------------------------------------------------------------------
def model_req(c):
    if c.stream == "linsolve":
        return {"m": "c07.linsolve", "n": c.A.shape[0], "k": 1 if c.k is None else c.k, "sparse": c.sparse, "cplx": c.cplx,
                "bcplx": bool(np.iscomplexobj(c.b)), "A": enc(c.A), "b": enc_col(c.b), "w": enc_col(c.w)}
    if c.stream == "inverse":
        return {"m": "c07.inverse", "n": c.A.shape[0], "cplx": c.cplx, "A": enc(c.A), "w": enc(c.w)}
    if c.stream == "soe":
        return {"m": "c07.soe", "n": c.A.shape[0], "k": 1 if c.k is None else c.k, "sparse": c.sparse, "cplx": c.cplx,
                "bcplx": bool(np.iscomplexobj(c.bf) or np.iscomplexobj(c.xp) or c.cplx), "A": enc(c.A),
                "free": [int(v) for v in c.f] if c.give in ("both", "free") else None,
                "prescribed": [int(v) for v in c.p] if c.give in ("both", "prescribed") else None,
                "bf": enc_col(c.bf), "xp": enc_col(c.xp), "dbf": c.bf.ndim, "dxp": c.xp.ndim, "sens": True,
                "gx": None if c.gx is None else enc_col(c.gx), "gb": None if c.gb is None else enc_col(c.gb)}
    if c.stream == "staticcond":
        r = {"m": "c07.staticcond", "n": c.A.shape[0], "sparse": True, "A": enc(c.A),
             "main": [int(v) for v in c.main], "free": [int(v) for v in c.free]}
        if c.seedkind == "dense":
            r["gdense"] = enc(c.G)
        else:
            r["gdyad"] = [[enc(u), enc(v)] for u, v in c.G]
        return r
    raise ValueError(c.stream)


def _cmp(ctx, c, what, impl, model, tol, percol=False):
    """normwise comparison |impl - model| <= tol * max|model|"""
    I = np.asarray(dense(impl))
    M = dec(model)
    if I.size == 0 and M.size == 0:
        ctx.agree((c.name, what), nontrivial=False)
        return True
    I2 = I.reshape(I.shape[0], -1) if I.ndim >= 1 else I.reshape(1, 1)
    if I2.shape != M.shape:
        ctx.disagree(c.stream, {"spec": c.spec, "name": c.name, "what": what}, list(I.shape), list(M.shape), "shape mismatch")
        return False
    if percol and M.ndim == 2 and M.shape[1] > 1:
        ok = True
        for j in range(M.shape[1]):
            scj = max(float(np.max(np.abs(M[:, j]))), 1e-300)
            ok = ctx.compare_close(c.stream, {"spec": c.spec, "name": c.name, "what": f"{what}[:, {j}]"}, I2[:, j].astype(complex).flatten(),
                                   [complex(v) for v in M[:, j].flatten()], rtol=0.0, atol=tol, scale=scj,
                                   key=(c.name, what, j)) and ok
        return ok
    sc = max(float(np.max(np.abs(M))) if M.size else 0.0, 1e-30)
    return ctx.compare_close(c.stream, {"spec": c.spec, "name": c.name, "what": what}, I2.astype(complex).flatten(),
                             [complex(v) for v in M.flatten()], rtol=0.0, atol=tol, scale=sc,
                             key=(c.name, what))


def compare(ctx, c, out, mres):
    pm = _pm()
    if "ok" not in mres:
        ctx.disagree(c.stream, {"spec": c.spec, "name": c.name}, "ok", mres, "model rejects what the code accepts")
        return
    mo = mres["ok"]
    tol = tol_of(c)
    tol2 = tol * max(1.0, c.cond) if c.stream != "inverse" else tol * max(1.0, c.cond)
    if c.stream == "linsolve":
        _cmp(ctx, c, "x", out["x"], mo["x"], tol, percol=True)
        _cmp(ctx, c, "db", out["db"], mo["db"], tol)
        _cmp(ctx, c, "dA", out["dA"], mo["dA"], tol2)
        if isinstance(out["dA"], pm.DyadCarrier) != bool(mo["dA_dyad"]):
            ctx.disagree(c.stream, {"spec": c.spec, "name": c.name, "what": "dA type"}, type(out["dA"]).__name__, mo["dA_dyad"], "DyadCarrier vs dense")
        # dtype rules (`.real`): real matrix -> real matrix sensitivity; real rhs -> real rhs sensitivity
        if not c.cplx and np.iscomplexobj(dense(out["dA"])):
            ctx.disagree(c.stream, {"spec": c.spec, "name": c.name, "what": "dA dtype"}, "complex", "real", "real matrix, complex sensitivity")
        if not np.iscomplexobj(c.b) and np.iscomplexobj(out["db"]):
            ctx.disagree(c.stream, {"spec": c.spec, "name": c.name, "what": "db dtype"}, "complex", "real", "real rhs, complex sensitivity")
    elif c.stream == "inverse":
        _cmp(ctx, c, "B", out["B"], mo["B"], tol)
        _cmp(ctx, c, "dA", out["dA"], mo["dA"], tol2)
        if not c.cplx and np.iscomplexobj(out["dA"]):
            ctx.disagree(c.stream, {"spec": c.spec, "name": c.name, "what": "dA dtype"}, "complex", "real", "real matrix, complex sensitivity")
    elif c.stream == "soe":
        if c.give != "both":
            if mo["f"] != [int(v) for v in c.f] or mo["p"] != [int(v) for v in c.p]:
                ctx.disagree(c.stream, {"spec": c.spec, "name": c.name, "what": "index complement"}, [c.f.tolist(), c.p.tolist()], [mo["f"], mo["p"]], "")
        an = max(1.0, float(np.abs(c.A).max()))
        _cmp(ctx, c, "x", out["x"], mo["x"], tol)
        _cmp(ctx, c, "b", out["b"], mo["b"], tol * an)
        _cmp(ctx, c, "dA", out["dA"], mo["dA"], tol2)
        _cmp(ctx, c, "dbf", out["dbf"], mo["dbf"], tol * an)
        _cmp(ctx, c, "dxp", out["dxp"], mo["dxp"], tol * an * an)
    elif c.stream == "staticcond":
        an = max(1.0, float(np.abs(c.A).max()))
        _cmp(ctx, c, "Ared", out["Ared"], mo["Ared"], tol * an)
        _cmp(ctx, c, "dA", out["dA"], mo["dA"], tol2 * an)


# ----------------------------------------------------------------------------------------------
# malformed stream: the model rejects what the code rejects
# ----------------------------------------------------------------------------------------------
def malformed(ctx):
    pm = _pm()
    rng = np.random.default_rng(ctx.rng.randrange(2 ** 31))
    cases = []
    for t in range(6 if ctx.quick else 30):
        n = int(rng.integers(2, 6))
        A = rand_matrix(rng, n, "general", False)
        k = [None, 2][int(rng.integers(0, 2))]
        # 1. real sparse matrix, complex rhs: documented TypeError (LinSolve)
        b = rng.standard_normal((n,) if k is None else (n, k)) + 1j
        cases.append(("linsolve.sparse_real_complex_rhs",
                      lambda A=A, b=b: pm.LinSolve([pm.Signal("A", sps.csc_matrix(A)), pm.Signal("b", b)]).response(),
                      {"m": "c07.linsolve", "n": n, "k": 1 if k is None else k, "sparse": True, "cplx": False, "bcplx": True,
                       "A": enc(A), "b": enc_col(b)}))
        nf = int(rng.integers(1, n))
        perm = rng.permutation(n)
        f, p = np.sort(perm[:nf]), np.sort(perm[nf:])
        bf, xp = rng.standard_normal(nf), rng.standard_normal(n - nf)

        def soe(A=A, bf=bf, xp=xp, sparse=True, **kw):
            m = pm.SystemOfEquations([pm.Signal("A", sps.csc_matrix(A) if sparse else A.copy()), pm.Signal("bf", bf), pm.Signal("xp", xp)], **kw)
            m.response()

        def req(bf=bf, xp=xp, free=None, prescribed=None, sparse=True, bcplx=False, n=n, A=A):
            return {"m": "c07.soe", "n": n, "k": 1 if np.ndim(bf) == 1 else np.shape(bf)[1], "sparse": sparse, "cplx": False, "bcplx": bcplx, "A": enc(A),
                    "free": None if free is None else [int(v) for v in free], "prescribed": None if prescribed is None else [int(v) for v in prescribed],
                    "bf": enc_col(bf), "xp": enc_col(xp) if np.ndim(xp) == np.ndim(bf) else enc_col(np.asarray(xp).reshape(len(xp), -1)[:, :1]),
                    "dbf": int(np.ndim(bf)), "dxp": int(np.ndim(xp)), "sens": False}
        # 2. SoE with a complex load on a real sparse matrix: TypeError of the inner LinSolve
        cases.append(("soe.sparse_real_complex_rhs", lambda f=f, bfc=bf + 1j, xpc=xp + 0j, s=soe: s(bf=bfc, xp=xpc, free=f),
                      req(bf=bf + 1j, xp=xp + 0j, free=f, bcplx=True)))
        # 3. neither free nor prescribed
        cases.append(("soe.no_indices", lambda s=soe: s(), req()))
        # 4. sizes of bf and xp do not add up to n
        cases.append(("soe.size_mismatch", lambda s=soe, f=f, nf=nf: s(bf=np.ones(nf + 1), free=f), req(bf=np.ones(nf + 1), free=f)))
        # 5. different number of dimensions
        cases.append(("soe.ndim_mismatch", lambda s=soe, f=f, n=n, nf=nf: s(xp=np.ones((n - nf, 2)), free=f), req(xp=np.ones((n - nf, 2)), free=f)))
        # 6. free and prescribed sizes do not add up to n
        if nf >= 2:
            cases.append(("soe.index_count", lambda s=soe, f=f, p=p: s(free=f[:-1], prescribed=p), req(free=f[:-1], prescribed=p)))
        # 7. StaticCondensation with a dense matrix: AttributeError (`.toarray()` on an ndarray)
        cases.append(("staticcond.dense", lambda A=A, n=n: pm.StaticCondensation([pm.Signal("A", A.copy())], main=np.array([0]), free=np.arange(1, n)).response(),
                      {"m": "c07.staticcond", "n": n, "sparse": False, "A": enc(A), "main": [0], "free": list(range(1, n))}))
    reqs = [c[2] for c in cases]
    impls = []
    with _Stub(), warnings.catch_warnings():
        warnings.simplefilter("ignore")
        for name, fn, _ in cases:
            impls.append(call_impl(fn))
    res = ctx.model(reqs)
    for (name, _, rq), im, mr in zip(cases, impls, res):
        ctx.branch("malformed." + name)
        ie = im[1] if im[0] == "err" else "ok"
        me = mr.get("err", "ok")
        ctx.compare_exact("malformed", {"name": name}, ie, me, key=("malformed", name))


# ----------------------------------------------------------------------------------------------
# spec streams
# ----------------------------------------------------------------------------------------------
def specs(ctx):
    out = []
    R = ctx.rng
    quick = ctx.quick

    def seed():
        return R.randrange(2 ** 31)
    # LinSolve: every solver override on a matching class, both rhs dtypes and shapes
    for sparse in (False, True):
        for cls in ("spd", "symindef", "general", "diag", "fe"):
            if cls == "fe" and not sparse:
                continue
            for cplx in (False, True):
                for sname in solver_choices(cls, sparse, cplx):
                    for rep in range(1 if quick else 4):
                        out.append({"stream": "linsolve", "seed": seed(), "cls": cls, "sparse": sparse, "cplx": cplx, "solver": sname})
    # self-adjoint INDEFINITE matrices (LDL with 2x2 pivots) in very small and very large units, dense and sparse
    for cls, cplx in (("symindef", False), ("symzd", False), ("symzd", True), ("csymindef", True), ("csym", True)):
        for ue in (-40, -30, 30):
            for k in ((None, 2) if not quick else (None if R.random() < 0.5 else 2,)):
                out.append({"stream": "linsolve", "seed": seed(), "cls": cls, "cplx": cplx, "sparse": False, "solver": None, "k": k,
                            "units": ue, "decouple": False, "lda": bool(R.random() < 0.7), "n": int(R.choice([2, 3, 4, 6]))})
    # SQUARE blocks of right-hand sides (k == n), with and without the LDA wrapper: the "vector or block" distinction of a solver
    # must go by the number of dimensions, never by a length that happens to coincide
    for cls in ("diag", "spd", "general"):
        for n_ in (2, 3, 4):
            for lda in (False, True):
                for sparse in ((False, True) if not quick else (bool(R.random() < 0.5),)):
                    out.append({"stream": "linsolve", "seed": seed(), "cls": cls, "sparse": sparse, "cplx": bool(R.random() < 0.3),
                                "solver": None, "n": n_, "k": n_, "lda": lda, "decouple": False})
    # truthful user flags x matrix class, automatic solver choice (no override): complex symmetric (damped dynamic stiffness,
    # indefinite, shifted), complex Hermitian, real symmetric; dense and sparse; vector and block right-hand sides
    for cls, cplx in (("dynstiff", True), ("csymindef", True), ("csym", True), ("spd", True), ("symindef", True),
                      ("spd", False), ("symindef", False), ("general", True), ("general", False)):
        for flags in ("none", "symmetric", "hermitian", "both"):
            for k in (None, 2):
                for sparse in (False, True):
                    if sparse and quick and (k is None) != (flags in ("none", "both")):
                        continue     # quick tier: half of the sparse combinations
                    for _ in range(1 if quick else 3):
                        out.append({"stream": "linsolve", "seed": seed(), "cls": cls, "cplx": cplx, "sparse": sparse, "solver": None,
                                    "flags": flags, "k": k, "decouple": False, "lda": True})
    # dofs decoupled in the ROW only (row-replacement Dirichlet conditions), in the COLUMN only, or in both; triangular and
    # block-triangular matrices; FE stiffness with row-/column-replacement conditions. Random right-hand sides are non-zero
    # on those dofs. Automatic solver with the default LDA wrapping, dense and every sparse format, vector and block rhs.
    for cls in ("spd", "general", "symindef", "tri", "blocktri", "ferow", "fecol", "femixed"):
        for dm in (("row", "col", "both", "mixed") if not cls.startswith("fe") else (False,)):
            for sparse in (False, True):
                for k in (None, 2):
                    for cplx in ((False, True) if not quick else (bool(R.random() < 0.35),)):
                        out.append({"stream": "linsolve", "seed": seed(), "cls": cls, "cplx": cplx, "sparse": sparse, "solver": None,
                                    "flags": "none", "k": k, "decouple": dm, "lda": True})
    for cls in ("spd", "general", "tri", "blocktri", "ferow", "femixed"):
        for dm in (("row", "col", "mixed") if not cls.startswith("fe") else (False,)):
            for sparse in (False, True):
                for _ in range(1 if quick else 3):
                    out.append({"stream": "soe", "seed": seed(), "cls": cls, "sparse": sparse, "decouple": dm, "solver": None})
            for _ in range(1 if quick else 3):
                out.append({"stream": "staticcond", "seed": seed(), "cls": cls, "decouple": dm, "solver": None})
    for _ in range(40 if quick else 600):
        out.append({"stream": "linsolve", "seed": seed()})
    for _ in range(12 if quick else 120):
        out.append({"stream": "inverse", "seed": seed()})
    # SystemOfEquations: ALL partitions of small index sets
    nmax = 4 if quick else 5
    for n in range(2, nmax + 1):
        for bits in itertools.product([0, 1], repeat=n):
            if sum(bits) == 0:
                continue   # at least one free dof (an empty free set has no inner system)
            if sum(bits) == n and quick:
                continue
            reps = 1 if quick else 2
            for _ in range(reps):
                out.append({"stream": "soe", "seed": seed(), "n": n, "mask": list(bits), "cls": R.choice(["spd", "general", "symindef"])})
    for _ in range(40 if quick else 500):
        out.append({"stream": "soe", "seed": seed()})
    for _ in range(6 if quick else 60):
        out.append({"stream": "soe", "seed": seed(), "cls": "fe"})
    # StaticCondensation: all role assignments (prescribed / free / main) of small index sets
    for n in range(2, nmax + 1):
        for roles in itertools.product([0, 1, 2], repeat=n):
            if 1 not in roles or 2 not in roles:
                continue
            if quick and R.random() < 0.5:
                continue
            out.append({"stream": "staticcond", "seed": seed(), "n": n, "roles": list(roles), "cls": R.choice(["spd", "general", "symindef"])})
    for _ in range(25 if quick else 300):
        out.append({"stream": "staticcond", "seed": seed()})
    for _ in range(5 if quick else 40):
        out.append({"stream": "staticcond", "seed": seed(), "cls": "fe"})
    # StaticCondensation with every solver override valid for the class (incl. CG with each preconditioner)
    for cls in ("spd", "general", "symindef", "fe"):
        for cplx in (False, True):
            for sname in solver_choices(cls, True, cplx):
                for _ in range(1 if quick else 3):
                    out.append({"stream": "staticcond", "seed": seed(), "cls": cls, "cplx": cplx, "solver": sname})
    # SystemOfEquations: real dense matrix with every dtype combination of bf / xp
    for rd in range(1, 5):
        for _ in range(3 if quick else 15):
            out.append({"stream": "soe", "seed": seed(), "cplx": False, "sparse": False, "rhsdtype": rd})
    return out


def model_balanced(ctx, reqs, shards=14):
    """the driver cost of a case grows like n^3..n^4: deal the requests round-robin by decreasing size so that the
    contiguous shards of `ctx.model` are balanced, and restore the order afterwards"""
    if not reqs:
        return []
    order = sorted(range(len(reqs)), key=lambda i: -(reqs[i].get("n", 1) ** 3 * (2 if reqs[i].get("cplx") else 1)))
    shards = max(1, min(shards, len(reqs) // 4))
    buckets = [order[i::shards] for i in range(shards)]
    # ctx.model cuts at (n*i)//shards: make the buckets exactly those sizes
    n = len(reqs)
    bounds = [(n * i) // shards for i in range(shards + 1)]
    sizes = [bounds[i + 1] - bounds[i] for i in range(shards)]
    flat_sorted = list(order)
    buckets = [[] for _ in range(shards)]
    i = 0
    while flat_sorted:
        for b in range(shards):
            if flat_sorted and len(buckets[b]) < sizes[b]:
                buckets[b].append(flat_sorted.pop(0))
    perm = [i for b in buckets for i in b]
    res = ctx.model([reqs[i] for i in perm], shards)
    out = [None] * n
    for i, r in zip(perm, res):
        out[i] = r
    return out


def run_specs(ctx, speclist, record=True):
    """build, run implementation + oracle, send to the model, compare"""
    cases, outs = [], []
    with _Stub():
        for sp in speclist:
            c = build(sp)
            if not np.isfinite(c.cond) or c.cond > MAXCOND:
                ctx.skipped_boundary += 1
                continue
            r = call_impl(run_impl, c)
            if r[0] == "err":
                ctx.disagree(c.stream, {"spec": sp, "name": c.name}, r[1], "ok", r[2][:600])
                ctx.oracle_fail(f"{c.stream}: the module raises {r[2][:300]} on an admissible input", {"spec": sp, "name": c.name})
                continue
            why = oracle(c, r[1])
            if why:
                ctx.oracle_fail(why, {"spec": sp, "name": c.name})
            cases.append(c)
            outs.append(r[1])
            if record:
                ctx.branch(f"{c.stream}.{c.cls if hasattr(c, 'cls') else 'dense'}.{getattr(c, 'fmt', 'dense')}")
                if getattr(c, "solver", None):
                    ctx.branch(f"solver.{c.solver}")
                if c.stream == "soe":
                    ctx.branch(f"soe.dtype.A{'c' if c.cplx else 'r'}.bf{'c' if np.iscomplexobj(c.bf) else 'r'}.xp{'c' if np.iscomplexobj(c.xp) else 'r'}.{'sp' if c.sparse else 'de'}")
                if c.stream == "linsolve":
                    ctx.branch(f"linsolve.rhs.{'block' if c.k else 'vector'}.{'c' if np.iscomplexobj(c.b) else 'r'}.A{'c' if c.cplx else 'r'}")
    res = model_balanced(ctx, [model_req(c) for c in cases])
    for c, o, m in zip(cases, outs, res):
        if m.get("err") == "singular":
            ctx.skipped_boundary += 1
            continue
        compare(ctx, c, o, m)
    return cases, outs


def correspondence(ctx):
    sp = specs(ctx)
    cases, outs = run_specs(ctx, sp)
    for c, o in list(zip(cases, outs))[:3]:
        ctx.sample({"case": c.name, "cond": c.cond, "first_output": np.asarray(dense(next(iter(o.values())))).flatten()[:4].astype(complex).real.tolist()})
    malformed(ctx)
    ctx.notes.append(f"{len(sp)} specs, {len(cases)} compared")


def search(ctx, disagreements):
    """the defining-equation oracle on the disagreeing cases, then a fresh sweep"""
    found = []
    seen = set()
    specl = []
    for d in disagreements:
        sp = (d.get("case") or {}).get("spec")
        if sp and str(sp) not in seen:
            seen.add(str(sp))
            specl.append(sp)
    R = ctx.rng
    for st in ("linsolve", "soe", "staticcond", "inverse"):
        for _ in range(40):
            specl.append({"stream": st, "seed": R.randrange(2 ** 31)})
    with _Stub():
        for sp in specl:
            c = build(sp)
            if not np.isfinite(c.cond) or c.cond > MAXCOND:
                continue
            r = call_impl(run_impl, c)
            if r[0] == "err":
                found.append({"what": f"{c.stream}: raises {r[2][:300]}", "witness": {"spec": sp, "name": c.name}})
                continue
            why = oracle(c, r[1])
            if why:
                found.append({"what": why, "witness": {"spec": sp, "name": c.name}})
            if len(found) >= 5:
                break
    found.sort(key=lambda w: len(str(w["witness"])))
    return found


def replay(ctx, data):
    w = data.get("witness", {})
    w = w.get("witness", w)
    sp = w.get("spec")
    if not sp and w.get("script"):   # a regression witness of the defect corpus
        import os
        import subprocess
        import sys
        from ..common import VERIF
        p = subprocess.run([sys.executable, os.path.join(VERIF, w["script"])], capture_output=True, text=True, timeout=600)
        return {"still_failing": p.returncode != 0, "what": (p.stdout + p.stderr)[-600:], "case": w["script"]}
    if not sp:
        return {"still_failing": False, "note": "replay file names no failing input (see no_longer_checks)"}
    with _Stub():
        c = build(sp)
        r = call_impl(run_impl, c)
    if r[0] == "err":
        return {"still_failing": True, "what": r[2][:500], "case": c.name}
    why = oracle(c, r[1])
    return {"still_failing": bool(why), "what": why, "case": c.name}
