"""C08 -- finite-element assembly (pymoto/modules/assembly.py: AssembleGeneral, get_B, get_D,
AssembleStiffness, AssembleMass, AssemblePoisson)

correspondence: real code vs Lean model `Core/Assembly.lean` (driver ops c08.getB, c08.getD, c08.elmat,
                c08.assemble); streams getB, getD, elmat, general (exact + float), physical, malformed
oracle/search : on the real code only: (1) dense re-assembly by explicit loops with bc rows/cols zeroed,
                bc diagonal and the constant, (2) stiffness: symmetry, x >= 0 -> PSD, rigid-body modes in the
                null space, (3) mass: total mass rho*V*sum(x) per direction, (4) Poisson: constants annihilated,
                energy of a linear field k*|a|^2*V*sum(x), (5) element matrices vs their DEFINITION (int B^T D B dV,
                rho int N^T N dV, k int grad N^T grad N dV) by an independent 4-point Gauss-Legendre rule with B and the
                textbook D written out in the harness
"""
import hashlib
import json
import math
from concurrent.futures import ThreadPoolExecutor
from fractions import Fraction

import numpy as np
import scipy.sparse as sp

from ..common import q, qlist, fr, frlist, call_impl, vary_layout

RULE = ("getB: random ndim 2/3 (and ndim 4 -> ValueError), nshape 1..9, small-integer / dyadic dN, voigt on/off (exact); "
        "getD: random E in (0.1,10), nu in (-0.9,0.49) x 14 mode strings (tolerance) and exactly-representable (E,nu) "
        "(exact) plus the ZeroDivisionError / ValueError cases; elmat: stiffness/mass/poisson element matrices in 2-D "
        "and 3-D for random float and power-of-two sizes and materials, evaluated by the model in Q(sqrt 3) "
        "(irrational part must vanish; rational part compared with tolerance); general: AssembleGeneral with random "
        "small-integer element matrices (also non-symmetric), ndof 1..3, integer x (zeros, negatives), bc sets (none, "
        "empty, subsets, node, duplicates, all), bcdiagval None/integer, add_constant None/csc/csr/coo/dense, "
        "matrix_type csc/csr/coo -> exact comparison of the dense matrix and (coo, no constant) of the raw triplets; "
        "a float variant in tolerance mode; physical: AssembleStiffness/Mass/Poisson end to end with x in [0,1]; "
        "malformed: wrong len(x), bc index >= n, bad plane, nu = -1, 1/2, 1, 2-D with plane='3d'; "
        "sens: AssembleGeneral._sensitivity with integer dense / DyadCarrier / symmetric-dyad / empty-carrier seeds, bc sets, "
        "constants, real data, complex x + complex element matrix, real x with complex element matrix and seed (np.real path): "
        "sensitivity, the seed after the call (in-place bc masking) compared exactly with the model; oracle <W, A(x+v)-A(x)> = "
        "<sens(W), v> and second call on the changed seed gives the same result. "
        "distinct = distinct generating parameter sets (hash of the full case) whose result is not identically zero")
EXTRA_LEAN_MODULES = ("PymotoVerif.Props.C01Assembly",)   # adjoint theorems of this family (property C01)
ASSUMPTIONS = [
    "instance isolation: every module under test is preceded (and, between construction and response, interleaved) by decoy "
    "modules of the same class differing in one configuration parameter, and by an identically configured decoy whose results "
    "are scaled in place; a leak from a decoy shows up as a correspondence disagreement / oracle failure of the module under test",
    "1-D domains (nely = 0) are outside the property's quantifier and are not generated; get_B with n_dim = 1 is not modelled",
    "bc indices are non-negative integers (negative indices are rejected by scipy and are not modelled / not generated)",
    "matrix_type is one of scipy.sparse csc_matrix / csr_matrix / coo_matrix; add_constant is None, one of those, or a dense ndarray",
    "the element matrix given to AssembleGeneral is square of size elemnodes*ndof (ndof in {1,2,3})",
    "IEEE rounding of the element matrices (float sqrt(3), products of sizes) is replaced by exact arithmetic in Q(sqrt 3) + tolerance",
    "positive semi-definiteness / rigid-body / mass / energy oracles are floating point checks with relative tolerance 1e-9",
]

MT = {"csc": sp.csc_matrix, "csr": sp.csr_matrix, "coo": sp.coo_matrix}
MODES = ["strain", "stress", "3d", "3D", "Plane-STRESS", "plane strain", "stress-strain", "STRAIN3d", "3d-stress",
         "PlaneStress", "foo", "", "stres", "2d"]


def _pm():
    import pymoto
    return pymoto


def _assembly():
    import pymoto.modules.assembly as a
    return a


def _key(stream, gen):
    return (stream, hashlib.sha1(json.dumps(gen, sort_keys=True, default=str).encode()).hexdigest()[:20])


# ------------------------------------------------------------------------------------------------
# batching of model requests: all streams are evaluated by the model in ONE balanced parallel run
# ------------------------------------------------------------------------------------------------
class Batch:
    def __init__(self):
        self.jobs = []  # (request, estimated cost in s, callback(answer))

    def add(self, req, cost, cb):
        self.jobs.append((req, cost, cb))

    def run(self, ctx):
        if not self.jobs:
            return
        total = sum(j[1] for j in self.jobs)
        nb = max(1, min(12, int(total / 2.0) + 1, len(self.jobs)))
        bins = [[] for _ in range(nb)]
        load = [0.0] * nb
        for idx in sorted(range(len(self.jobs)), key=lambda i: -self.jobs[i][1]):
            b = min(range(nb), key=lambda k: load[k])
            bins[b].append(idx)
            load[b] += self.jobs[idx][1]
        answers = [None] * len(self.jobs)

        def work(b):
            return ctx.model([self.jobs[i][0] for i in b], shards=1)
        if nb == 1:
            res = [work(bins[0])]
        else:
            with ThreadPoolExecutor(max_workers=nb) as ex:
                res = list(ex.map(work, bins))
        for b, r in zip(bins, res):
            for i, a in zip(b, r):
                answers[i] = a
        for (req, cost, cb), a in zip(self.jobs, answers):
            cb(a)
        self.jobs = []


# ------------------------------------------------------------------------------------------------
# the real code
# ------------------------------------------------------------------------------------------------
def _domain(gen):
    pm = _pm()
    sz = [float(v) for v in gen["s"]]
    if all(v == int(v) and abs(v) < 2 ** 30 for v in sz) and (gen["nelx"] + 2 * gen["nely"] + int(sum(sz))) % 2 == 0:
        sz = [int(v) for v in sz]      # whole-number element sizes handed over as Python ints (unitx=2): same domain
    return pm.DomainDefinition(gen["nelx"], gen["nely"], gen["nelz"], *sz)


def _dim(gen):
    return 2 if gen["nelz"] == 0 else 3


def _ndof(gen):
    if gen["op"] in ("general", "sens"):
        return len(gen["elmat"]) // (2 ** _dim(gen))
    if gen["kind"] == "stiffness":
        return _dim(gen)
    if gen["kind"] == "mass":
        return gen["ndof"]
    return 1


def _nsize(gen):
    return _ndof(gen) * (gen["nelx"] + 1) * (gen["nely"] + 1) * (gen["nelz"] + 1)


def addc_dense(spec, n, dtype=float):
    M = np.zeros((n, n), dtype=dtype)
    for r, c, v in spec["trip"]:
        M[r, c] += v
    return M


def build_addc(spec, n):
    if spec is None:
        return None
    M = addc_dense(spec, n)
    if spec["fmt"] == "dense":
        return M
    return MT[spec["fmt"]](M)


def _build_module(gen, plain=False):
    """construct the module of a case (plain: without bc / bcdiagval / constant / matrix_type)"""
    pm = _pm()
    dom = _domain(gen)
    xdt = int if gen.get("dtype") == "int" else float
    s = pm.Signal('x', np.array(gen["x"], dtype=xdt))
    kw = {}
    if not plain:
        if gen.get("bc") is not None:
            kw["bc"] = np.array(gen["bc"], dtype=int) if gen.get("bc_np") else list(gen["bc"])
        if gen.get("bcdiag", "default") != "default":
            kw["bcdiagval"] = gen["bcdiag"]
        if gen.get("addc") is not None:
            kw["add_constant"] = build_addc(gen["addc"], _nsize(gen))
        if gen.get("mtype", "default") != "default":
            kw["matrix_type"] = MT[gen["mtype"]]
    if gen["op"] == "general":
        kdt = int if gen.get("kdtype", gen.get("dtype")) == "int" else float
        Ke = vary_layout(np.array(gen["elmat"], dtype=kdt), (gen["nelx"], gen["nely"], gen["nelz"], len(gen["elmat"]), str(gen["elmat"][0][:3])))
        m = pm.AssembleGeneral(s, domain=dom, element_matrix=Ke, **kw)
    elif gen["kind"] == "stiffness":
        m = pm.AssembleStiffness(s, domain=dom, e_modulus=float(gen["E"]), poisson_ratio=float(gen["nu"]),
                                 plane=gen["plane"], **kw)
    elif gen["kind"] == "mass":
        m = pm.AssembleMass(s, domain=dom, material_property=float(gen["mat"]), ndof=int(gen["ndof"]), **kw)
    elif gen["kind"] == "poisson":
        m = pm.AssemblePoisson(s, domain=dom, material_property=float(gen["mat"]), **kw)
    else:
        raise KeyError(gen["kind"])
    return m, dom


# ------------------------------------------------------------------------------------------------
# instance isolation: DECOY modules.  Before the module under test is constructed (and once more between its
# construction and its response()) modules of the SAME class are constructed and run whose configuration differs
# from the one under test in exactly ONE parameter that a careless cache key could omit (2-D thickness unitz, another
# element size, a material constant, plane mode, ndof, bc set, bcdiagval, add_constant, matrix_type, nelx<->nely,
# element matrix of the same shape with other values), plus one decoy with the IDENTICAL configuration whose
# element matrix and output are scaled in place afterwards (a cache handing out shared arrays).  Nothing a decoy
# computed may leak: the module under test must still agree with the model and pass every oracle.
# The choice of decoys is a deterministic function of the case (hash), so search / replay see the same decoys.
# ------------------------------------------------------------------------------------------------
DECOYS = True


def _decoy_getD(asm, E, nu, mode):
    """decoy calls of get_D: identical arguments (result scaled in place afterwards), then one argument changed"""
    if not DECOYS:
        return
    for args in ((E * 2.0 + 0.5, nu, mode), (E, 0.2 if nu != 0.2 else 0.3, mode),
                 (E, nu, "stress" if "strain" in str(mode).lower() else "strain"), (E, nu, mode)):
        try:
            D = asm.get_D(*args)
            D *= 7.0
        except Exception:
            pass


def _decoy_getB(asm, arr, voigt):
    if not DECOYS:
        return
    for a, v in ((arr, not voigt), (arr + 1, voigt), (arr, voigt)):
        try:
            B = asm.get_B(np.array(a), v)
            B *= 7
        except Exception:
            pass


def decoy_variants(gen):
    """list of (name, gen') ; gen' differs from gen in exactly one configuration parameter"""
    out = []
    s = [float(v) for v in gen["s"]]
    dim = _dim(gen)
    for a, nm in enumerate(("unitx", "unity", "unitz")):
        t = list(s)
        t[a] = s[a] * 2.0 if s[a] <= 1.0 else s[a] * 0.5
        out.append((nm, dict(gen, s=t)))
    if gen["nelx"] != gen["nely"]:
        out.append(("nelx<->nely", dict(gen, nelx=gen["nely"], nely=gen["nelx"])))
    n = _nsize(gen)
    op = gen["op"]
    if op in ("general", "sens"):
        K = len(gen["elmat"])
        out.append(("elmat values", dict(gen, elmat=[[v + 1 + ((i + 2 * j) % 3) for j, v in enumerate(r)] for i, r in enumerate(gen["elmat"])])))
        out.append(("elmat transposed", dict(gen, elmat=[[gen["elmat"][j][i] + (1 if i == j else 0) for j in range(K)] for i in range(K)])))
    elif gen["kind"] == "stiffness":
        out.append(("E", dict(gen, E=float(gen["E"]) * 1.5 + 0.25)))
        nu = float(gen["nu"])
        out.append(("nu", dict(gen, nu=(0.1 if abs(nu - 0.1) > 0.05 else 0.35))))
        if dim == 2:
            p = str(gen.get("plane", "strain")).lower()
            out.append(("plane", dict(gen, plane=("stress" if "strain" in p else "strain"))))
    elif gen["kind"] == "mass":
        out.append(("rho", dict(gen, mat=float(gen["mat"]) * 1.5 + 0.25)))
        out.append(("ndof", dict(gen, ndof=(int(gen["ndof"]) % 3) + 1)))
    else:
        out.append(("k", dict(gen, mat=float(gen["mat"]) * 1.5 + 0.25)))
    # assembly options
    bc = gen.get("bc")
    out.append(("bc", dict(gen, bc=([0] if not bc else [b for b in bc if b != bc[0]] + [(bc[0] + 1) % n]), bc_np=False)))
    out.append(("bc none<->some", dict(gen, bc=(None if bc is not None else [n - 1]), bc_np=False)))
    out.append(("bcdiagval", dict(gen, bcdiag=(3 if gen.get("bcdiag", "default") in ("default", None) else None),
                                  bc=(bc if bc else [0]), bc_np=False)))
    out.append(("add_constant", dict(gen, addc=(None if gen.get("addc") is not None
                                                else {"fmt": "csc", "trip": [[0, 0, 2], [n - 1, 0, -1]]}))))
    out.append(("matrix_type", dict(gen, mtype=("csr" if gen.get("mtype", "default") in ("default", "csc") else "csc"))))
    return out


def _decoy_pick(gen, when, k):
    """deterministic choice of k variants (the thickness / unitz variant always comes first for the pre-decoys)"""
    vs = decoy_variants(gen)
    h = int(hashlib.sha1((when + json.dumps(gen, sort_keys=True, default=str)).encode()).hexdigest(), 16)
    picked = []
    if when == "pre":
        picked.append(next(v for v in vs if v[0] == "unitz"))
        vs = [v for v in vs if v[0] != "unitz"]
    while len(picked) < k and vs:
        picked.append(vs.pop(h % len(vs)))
        h //= 7
    return picked


def _run_decoy(dgen, plain, scale_after=False):
    """construct + response of one decoy; whatever it raises is irrelevant for the module under test"""
    try:
        g = dict(dgen)
        if g["op"] == "sens":
            g.update(op="general", dtype="float")
        elif g["op"] == "elmat":
            g.update(op="physical")
        if g["op"] == "physical" and "x" not in g:
            g["x"] = [1.0]
        nel = g["nelx"] * g["nely"] * max(g["nelz"], 1)
        x = list(g.get("x", [1.0]))
        g["x"] = (x * nel)[:nel] if len(x) != nel else x
        m, _ = _build_module(g, plain)
        m.response()
        if scale_after:
            try:
                m.elmat *= 3.0
            except Exception:
                pass
            A = m.sig_out[0].state
            if sp.issparse(A):
                A.data *= 5.0
    except Exception:
        pass


def run_decoys(gen, when, plain=False):
    if not DECOYS:
        return
    # the differing decoys come FIRST (a cache with an incomplete key is then primed with the wrong entry), the
    # identically configured one last (it must not repair such a cache before the module under test is built)
    for _, dgen in _decoy_pick(gen, when, 2 if when == "pre" else 1):
        _run_decoy(dgen, plain)
    if when == "pre":
        _run_decoy(gen, plain, scale_after=True)          # identical configuration, results scaled in place afterwards


def decoy_note(gen):
    """human-readable list of the decoys that ran around the module under test (they are re-created on replay)"""
    if not DECOYS or not isinstance(gen, dict) or gen.get("op") not in ("general", "physical", "elmat", "sens"):
        return ""
    try:
        g = dict(gen, x=[1.0]) if gen.get("op") == "elmat" else gen
        pre = [n for n, _ in _decoy_pick(g, "pre", 2)]
        post = [n for n, _ in _decoy_pick(g, "post", 1)]
        return f" [decoy modules of the same class ran first: differing in {pre}, then identical; before response(): {post}]"
    except Exception:
        return ""


def make_module(gen, plain=False):
    """module under test, constructed after its decoys (see above)"""
    run_decoys(gen, "pre", plain)
    return _build_module(gen, plain)


def dense_of(A):
    if sp.issparse(A):
        return np.asarray(A.todense())
    return np.asarray(A)


def run_case(gen, plain=False):
    m, dom = make_module(gen, plain)
    run_decoys(gen, "post", plain)      # a decoy between construction and response() of the module under test
    m.response()
    A = m.sig_out[0].state
    return A, m, dom


def impl_elmat(gen):
    """element matrix of the module built on a 1 x 1 (x 1) domain"""
    m, dom = make_module(dict(gen, x=[1.0]), plain=True)
    run_decoys(dict(gen, x=[1.0]), "post", True)
    return np.array(m.elmat, dtype=float), m


# ------------------------------------------------------------------------------------------------
# oracles on the real code
# ------------------------------------------------------------------------------------------------
def reassemble(dom, Ke, x, bc, diagval, addc):
    """A_ref = sum_e x_e Ke scattered through the dof connectivity; bc rows / cols zeroed; diagonal; constant"""
    Ke = np.asarray(Ke, dtype=float)
    K = Ke.shape[0]
    ndof = K // dom.elemnodes
    n = ndof * dom.nnodes
    dc = np.asarray(dom.get_dofconnectivity(ndof))
    A = np.zeros((n, n))
    for e in range(dom.nel):
        for a in range(K):
            ra = int(dc[e, a])
            for b in range(K):
                A[ra, int(dc[e, b])] += x[e] * Ke[a, b]
    if bc is not None:
        for b in bc:
            A[b, :] = 0.0
            A[:, b] = 0.0
        for b in bc:
            A[b, b] += diagval
    if addc is not None:
        A = A + addc
    return A


def expected_diag(gen, Ke):
    bd = gen.get("bcdiag", "default")
    if bd == "default":
        return 0.0 if (gen["op"] == "physical" and gen["kind"] == "mass") else float(np.max(Ke))
    if bd is None:
        return float(np.max(Ke))
    return float(bd)


def oracle_reassembly(gen, A, m, dom, exact):
    Ke = np.asarray(m.elmat, dtype=float)
    n = _nsize(gen)
    addc = addc_dense(gen["addc"], n) if gen.get("addc") is not None else None
    ref = reassemble(dom, Ke, [float(v) for v in gen["x"]], gen.get("bc"), expected_diag(gen, Ke), addc)
    D = dense_of(A)
    if D.shape != ref.shape:
        return f"assembled matrix has shape {D.shape}, expected {ref.shape}"
    if exact:
        if not np.array_equal(D, ref):
            r, c = np.argwhere(D != ref)[0]
            return f"A[{r},{c}] = {D[r, c]} but sum_e x_e K_e (bc, constant applied) gives {ref[r, c]}"
        return None
    sc = max(1e-300, float(np.abs(ref).max()) if ref.size else 0.0)
    err = np.abs(D - ref)
    if err.size and not err.max() <= 1e-11 * sc:
        r, c = np.unravel_index(np.argmax(err), err.shape)
        return f"A[{r},{c}] = {D[r, c]!r} but sum_e x_e K_e (bc, constant applied) gives {ref[r, c]!r}"
    return None


def oracle_stiffness(gen, K, dom):
    dim = dom.dim
    n = K.shape[0]
    sc = float(np.abs(K).max())
    if sc == 0.0:
        return None
    asym = float(np.abs(K - K.T).max())
    if not asym <= 1e-12 * sc:
        return f"stiffness matrix is not symmetric: max|K - K^T| = {asym:.3e} (scale {sc:.3e})"
    if all(float(v) >= 0 for v in gen["x"]):
        ev = np.linalg.eigvalsh((K + K.T) / 2)
        if not ev[0] >= -1e-9 * max(abs(ev[-1]), 1e-300):
            return f"stiffness matrix is not positive semi-definite for x >= 0: min eigenvalue {ev[0]:.6e}, max {ev[-1]:.6e}"
        for kk in range(3):  # fixed (not random) probe vectors, so a replay sees the same check
            v = np.cos((kk + 1) * 0.7391 * (np.arange(n) + 0.5)) + 0.3 * np.sin((2 * kk + 1) * 1.1173 * np.arange(n))
            e = float(v @ K @ v)
            if not e >= -1e-9 * sc * float(v @ v):
                return f"v^T K v = {e:.6e} < 0 for x >= 0"
    pos = np.asarray(dom.get_node_position(), dtype=float)  # (dim, nnodes)
    cen = pos.mean(axis=1)
    modes = []
    for d in range(dim):
        u = np.zeros(n)
        u[d::dim] = 1.0
        modes.append((f"translation {d}", u))
    rel = pos - cen[:, None]
    if dim == 2:
        u = np.zeros(n)
        u[0::2] = -rel[1]
        u[1::2] = rel[0]
        modes.append(("rotation", u))
    else:
        for ax in range(3):
            w = np.zeros(3)
            w[ax] = 1.0
            rot = np.cross(w[:, None], rel, axis=0)  # w x r
            u = np.zeros(n)
            for d in range(3):
                u[d::3] = rot[d]
            modes.append((f"rotation about axis {ax}", u))
    for name, u in modes:
        res = float(np.abs(K @ u).max())
        un = float(np.abs(u).max())
        if not res <= 1e-9 * sc * max(un, 1e-300):
            return f"rigid-body mode ({name}) is not in the null space: max|K u| = {res:.3e} (scale {sc:.3e}, |u| {un:.3e})"
    return None


def _volume(gen):
    sx, sy, sz = [float(v) for v in gen["s"]]
    return sx * sy * sz   # 2-D: the thickness sz counts


def oracle_mass(gen, M, dom):
    ndof = gen["ndof"]
    n = M.shape[0]
    want = float(gen["mat"]) * _volume(gen) * float(sum(float(v) for v in gen["x"]))
    ref = abs(float(gen["mat"])) * _volume(gen) * float(sum(abs(float(v)) for v in gen["x"]))
    for d in range(ndof):
        one_d = np.zeros(n)
        one_d[d::ndof] = 1.0
        for e in range(ndof):
            one_e = np.zeros(n)
            one_e[e::ndof] = 1.0
            got = float(one_d @ M @ one_e)
            if d == e:
                if not abs(got - want) <= 1e-10 * max(ref, 1e-300):
                    return f"total mass in direction {d}: 1^T M 1 = {got!r}, expected rho*V*sum(x) = {want!r}"
            elif not abs(got) <= 1e-12 * max(ref, 1e-300):
                return f"mass couples directions {d},{e}: 1_d^T M 1_e = {got!r}, expected 0"
    return None


def oracle_poisson(gen, P, dom):
    n = P.shape[0]
    sc = float(np.abs(P).max())
    if sc == 0.0:
        return None
    r = float(np.abs(P @ np.ones(n)).max())
    if not r <= 1e-10 * sc:
        return f"Poisson matrix does not annihilate constants: max|P 1| = {r:.3e} (scale {sc:.3e})"
    pos = np.asarray(dom.get_node_position(), dtype=float)
    dim = dom.dim
    k = float(gen["mat"])
    for a, b in (([1.0, -0.5, 0.75][:dim], 0.25), ([0.0, 1.0, 0.0][:dim], 0.0), ([-2.0, 0.5, 1.5][:dim], -1.0)):
        a = np.array(a)
        u = a @ pos + b
        got = float(u @ P @ u)
        want = k * float(a @ a) * _volume(gen) * float(sum(float(v) for v in gen["x"]))
        if not abs(got - want) <= 1e-9 * abs(want) + 1e-12 * sc * float(u @ u):
            return f"energy of the linear field a={a.tolist()}, b={b}: u^T P u = {got!r}, expected k|a|^2 V sum(x) = {want!r}"
    return None


# ------------------------------------------------------------------------------------------------
# independent element matrices FROM THE DEFINITION (not from the code's integration routine):
#   K_e = int B^T D B dV,  M_e = rho int N^T N dV,  P_e = k int grad N^T grad N dV
# evaluated with a 4-point Gauss-Legendre rule per axis (exact: the integrands are polynomials of degree <= 2
# per coordinate), B written out here from the shape-function derivatives, D from the textbook formulas.
# ------------------------------------------------------------------------------------------------
def textbook_D(E, nu, kind):
    """kind in {'strain', 'stress', '3d'}; engineering-shear convention"""
    E, nu = float(E), float(nu)
    if kind == "stress":
        c = E / (1.0 - nu ** 2)
        return c * np.array([[1.0, nu, 0.0], [nu, 1.0, 0.0], [0.0, 0.0, (1.0 - nu) / 2.0]])
    c = E / ((1.0 + nu) * (1.0 - 2.0 * nu))
    if kind == "strain":
        return c * np.array([[1.0 - nu, nu, 0.0], [nu, 1.0 - nu, 0.0], [0.0, 0.0, (1.0 - 2.0 * nu) / 2.0]])
    D = np.zeros((6, 6))
    D[:3, :3] = c * nu
    D[np.arange(3), np.arange(3)] = c * (1.0 - nu)
    D[np.arange(3, 6), np.arange(3, 6)] = c * (1.0 - 2.0 * nu) / 2.0
    return D


def strain_displacement(dN):
    """B for u = [u0x, u0y(, u0z), u1x, ...]: rows [xx, yy, (zz, yz, zx,) xy], engineering shear"""
    dim, nn = dN.shape
    if dim == 2:
        B = np.zeros((3, 2 * nn))
        B[0, 0::2] = dN[0]
        B[1, 1::2] = dN[1]
        B[2, 0::2] = dN[1]
        B[2, 1::2] = dN[0]
        return B
    B = np.zeros((6, 3 * nn))
    B[0, 0::3] = dN[0]
    B[1, 1::3] = dN[1]
    B[2, 2::3] = dN[2]
    B[3, 1::3] = dN[2]
    B[3, 2::3] = dN[1]
    B[4, 0::3] = dN[2]
    B[4, 2::3] = dN[0]
    B[5, 0::3] = dN[1]
    B[5, 1::3] = dN[0]
    return B


def plane_kind(plane, dim):
    if dim == 3:
        return "3d"
    p = str(plane).lower()
    if "strain" in p:
        return "strain"
    if "stress" in p:
        return "stress"
    return None


def reference_elmat(gen, dom):
    """element matrix from the definition; None when the case has no defined reference (invalid plane mode)"""
    from numpy.polynomial.legendre import leggauss
    dim = dom.dim
    siz = [float(v) for v in gen["s"]]
    thick = siz[2] if dim == 2 else 1.0
    xi, wq = leggauss(4)
    kind = gen["kind"]
    nn = 2 ** dim
    if kind == "stiffness":
        pk = plane_kind(gen.get("plane", "strain"), dim)
        if pk is None:
            return None
        D = textbook_D(gen["E"], gen["nu"], pk) * thick
        ref = np.zeros((nn * dim, nn * dim))
    elif kind == "mass":
        ndof = int(gen["ndof"])
        ref = np.zeros((nn * ndof, nn * ndof))
    else:
        ref = np.zeros((nn, nn))
    import itertools
    for idx in itertools.product(range(4), repeat=dim):
        pos = np.zeros(3)
        w = 1.0
        for a, i in enumerate(idx):
            pos[a] = xi[i] * siz[a] / 2.0
            w *= wq[i] * siz[a] / 2.0
        if kind == "mass":
            N = np.asarray(dom.eval_shape_fun(pos), dtype=float)
            Nm = np.zeros((ndof, nn * ndof))
            for c in range(ndof):
                Nm[c, c::ndof] = N
            ref += w * float(gen["mat"]) * thick * (Nm.T @ Nm)
        else:
            dN = np.asarray(dom.eval_shape_fun_der(pos), dtype=float)
            if kind == "stiffness":
                B = strain_displacement(dN)
                ref += w * (B.T @ D @ B)
            else:
                ref += w * float(gen["mat"]) * thick * (dN.T @ dN)
    return ref


def oracle_definition(gen, m, dom):
    """the module's element matrix equals the integral that defines it"""
    kind = gen.get("kind")
    if kind not in ("stiffness", "mass", "poisson"):
        return None
    if kind == "stiffness":
        nu = float(gen["nu"])
        if nu in (-1.0, 0.5, 1.0):
            return None
    ref = reference_elmat(gen, dom)
    if ref is None:
        return None
    Ke = np.asarray(m.elmat, dtype=float)
    if Ke.shape != ref.shape:
        return f"{kind} element matrix has shape {Ke.shape}, the definition gives {ref.shape}"
    sc = float(np.abs(ref).max())
    err = float(np.abs(Ke - ref).max())
    if not err <= 1e-11 * max(sc, 1e-300):
        i, j = np.unravel_index(np.argmax(np.abs(Ke - ref)), ref.shape)
        what = {"stiffness": "int B^T D B dV", "mass": "rho int N^T N dV", "poisson": "k int grad N^T grad N dV"}[kind]
        mat = ({"E": gen["E"], "nu": gen["nu"], "plane": gen.get("plane")} if kind == "stiffness" else {"mat": gen["mat"]})
        return (f"{kind} element matrix differs from its definition {what}: entry [{i},{j}] = {float(Ke[i, j])!r}, definition "
                f"{float(ref[i, j])!r} (max diff {err:.3e}, scale {sc:.3e}); sizes {[float(v) for v in gen['s']]}, {mat}")
    return None


def property_oracles(gen):
    """oracles 2-4 on the unconstrained matrix of a physical case (valid material data assumed)"""
    if gen["op"] != "physical":
        return []
    r = call_impl(run_case, gen, True)
    if r[0] == "err":
        return [f"assembling without bc / constant raises {r[2][:300]}"]
    A, m, dom = r[1]
    K = dense_of(A)
    out = []
    why = oracle_definition(gen, m, dom)
    if why:
        out.append(why)
    why = oracle_reassembly(dict(gen, bc=None, addc=None, bcdiag="default"), A, m, dom, exact=False)
    if why:
        out.append(why)
    if gen["kind"] == "stiffness":
        if float(gen["E"]) > 0 and -1 < float(gen["nu"]) < 0.5:
            why = oracle_stiffness(gen, K, dom)
        else:
            why = None
    elif gen["kind"] == "mass":
        why = oracle_mass(gen, K, dom)
    else:
        why = oracle_poisson(gen, K, dom)
    if why:
        out.append(why)
    return out


def oracle_case(gen):
    """all oracles for one generated case; list of failure descriptions"""
    op = gen.get("op")
    if op == "getD":
        r = call_impl(_assembly().get_D, float(gen["E"]), float(gen["nu"]), gen["mode"])
        if r[0] == "ok" and float(gen["E"]) > 0 and -1 < float(gen["nu"]) < 0.5:
            D = np.asarray(r[1], dtype=float)
            if np.abs(D - D.T).max() > 1e-12 * np.abs(D).max():
                return ["constitutive matrix is not symmetric"]
            if np.linalg.eigvalsh((D + D.T) / 2)[0] <= 0:
                return ["constitutive matrix is not positive definite for E > 0, -1 < nu < 1/2"]
        return []
    if op == "elmat":  # the element matrix is the assembled matrix of a single-element grid
        g = dict(gen, op="physical", x=[1.0], bc=None, addc=None)
        r = call_impl(run_case, g, True)
        if r[0] == "err":
            return []
        return property_oracles(g)
    if op == "sens":
        r = call_impl(run_sens, gen)
        if r[0] == "err":
            return [f"sensitivity raises {r[2][:300]}"]
        why = oracle_sens(gen, r[1])
        return [why] if why else []
    if op not in ("general", "physical"):
        return []
    out = []
    r = call_impl(run_case, gen)
    if r[0] == "err":
        return [f"assembly raises {r[2][:300]}"]
    A, m, dom = r[1]
    why = oracle_reassembly(gen, A, m, dom, exact=bool(gen.get("exact")))
    if why:
        out.append(why)
    out.extend(property_oracles(gen))
    return out


# ------------------------------------------------------------------------------------------------
# generators
# ------------------------------------------------------------------------------------------------
def gen_grid(rng, dim, maxnel, quick):
    while True:
        if dim == 2:
            hi = 6 if quick else 9
            g = (rng.randint(1, hi), rng.randint(1, hi), 0)
        else:
            hi = 3 if quick else 4
            g = (rng.randint(1, hi), rng.randint(1, hi), rng.randint(1, hi))
        if g[0] * g[1] * max(g[2], 1) <= maxnel:
            return g


def gen_sizes(rng):
    r = rng.random()
    if r < 0.15:
        return [1.0, 1.0, 1.0]
    if r < 0.45:
        return [2.0 ** rng.randint(-2, 2) for _ in range(3)]
    if r < 0.6:
        return [rng.randint(1, 12) / 4 for _ in range(3)]
    return [rng.uniform(0.1, 4.0) for _ in range(3)]


def gen_bc(rng, n, ndof):
    r = rng.random()
    if r < 0.2:
        return None, "none"
    if r < 0.27:
        return [], "empty"
    if r < 0.57:
        k = rng.randint(1, max(1, n // 3))
        bc = rng.sample(range(n), k)
        if rng.random() < 0.5:
            bc.sort()
        return bc, "subset"
    if r < 0.77:
        nn = n // ndof
        nodes = rng.sample(range(nn), rng.randint(1, max(1, min(3, nn // 2))))
        return [nd * ndof + d for nd in nodes for d in range(ndof)], "node"
    if r < 0.93:
        k = rng.randint(1, max(1, n // 4))
        bc = rng.sample(range(n), k)
        bc = bc + [rng.choice(bc) for _ in range(rng.randint(1, 3))]
        rng.shuffle(bc)
        return bc, "dups"
    return list(range(n)), "all"


def gen_addc(rng, n, integer, mag=1.0):
    r = rng.random()
    if r < 0.4:
        return None
    fmt = rng.choice(["csc", "csr", "coo", "dense"])
    k = rng.randint(0, 2 * n)
    trip = []
    for _ in range(k):
        v = rng.choice([-5, -3, -2, -1, 1, 2, 3, 4, 7]) if integer else rng.uniform(-1, 1) * mag
        trip.append([rng.randrange(n), rng.randrange(n), v])
    return {"fmt": fmt, "trip": trip}


def gen_general(ctx, exact):
    rng = ctx.rng
    dim = 2 if rng.random() < 0.6 else 3
    ndof = rng.choice([1, 1, 2, 3])
    en = 2 ** dim
    K = en * ndof
    budget = 4200 if ctx.quick else 9000
    maxnel = max(1, min(24 if ctx.quick else 48, budget // (K * K)))
    nelx, nely, nelz = gen_grid(rng, dim, maxnel, ctx.quick)
    nel = nelx * nely * max(nelz, 1)
    sym = rng.random() < 0.25
    if exact:
        Ke = [[rng.randint(-4, 4) for _ in range(K)] for _ in range(K)]
        x = [rng.choice([-3, -2, -1, 0, 0, 1, 1, 2, 3, 5]) for _ in range(nel)]
    else:
        Ke = [[rng.uniform(-2, 2) for _ in range(K)] for _ in range(K)]
        x = [rng.choice([0.0, 1.0, rng.uniform(-1, 2), rng.uniform(0, 1)]) for _ in range(nel)]
    if sym:
        Ke = [[Ke[min(i, j)][max(i, j)] for j in range(K)] for i in range(K)]
    n = ndof * (nelx + 1) * (nely + 1) * (nelz + 1)
    bc, bckind = gen_bc(rng, n, ndof)
    if exact:
        bcdiag = rng.choice(["default", None, None, 1, 0, 7, -2])
    else:
        bcdiag = rng.choice(["default", None, 1.0, 0.0, rng.uniform(-3, 3)])
    dt = "int" if (exact and rng.random() < 0.3) else "float"
    kdt = dt
    if exact and dt == "float" and rng.random() < 0.35:
        # an INTEGER-typed element matrix (a stencil) scaled by non-integer (dyadic) values: x_e * K_e must not be truncated
        kdt = "int"
        x = [rng.choice([-1.5, -0.5, 0.25, 0.5, 0.75, 1.0, 1.5, 2.25, 0.0]) for _ in range(nel)]
        if isinstance(bcdiag, int) and rng.random() < 0.5:
            bcdiag = None
    gen = {"op": "general", "exact": bool(exact), "nelx": nelx, "nely": nely, "nelz": nelz, "s": [1.0, 1.0, 1.0],
           "elmat": Ke, "dtype": dt, "kdtype": kdt, "x": x,
           "bc": bc, "bc_np": bool(bc is not None and rng.random() < 0.4), "bckind": bckind, "bcdiag": bcdiag,
           "addc": gen_addc(rng, n, exact, 2.0), "mtype": rng.choice(["default", "csc", "csr", "coo", "coo"])}
    return gen


def gen_material(rng, kind, dim, gen):
    if kind == "stiffness":
        gen["E"] = rng.choice([1.0, 2.0, rng.uniform(0.1, 10.0), rng.uniform(0.1, 10.0)])
        gen["nu"] = rng.choice([0.3, 0.0, 0.25, rng.uniform(-0.9, 0.49), rng.uniform(0.0, 0.45)])
        if dim == 2:
            gen["plane"] = rng.choice(["strain", "stress", "Plane-STRESS", "plane strain", "stress-strain", "PlaneStress"])
        else:
            gen["plane"] = rng.choice(["strain", "stress", "3d", "foo", ""])
    elif kind == "mass":
        gen["mat"] = rng.choice([1.0, 2.0, rng.uniform(0.1, 10.0)])
        gen["ndof"] = rng.choice([1, 2, 3])
    else:
        gen["mat"] = rng.choice([1.0, 0.5, rng.uniform(0.1, 10.0)])


def elmat_cost(gen):
    if gen["nelz"] == 0:
        return 0.06
    if gen["kind"] == "stiffness":
        return 1.0
    if gen["kind"] == "mass":
        return 0.15 + 0.2 * gen["ndof"]
    return 0.3


def gen_physical(ctx, kind, dim):
    rng = ctx.rng
    gen = {"op": "physical", "kind": kind}
    gen_material(rng, kind, dim, gen)
    ndof = dim if kind == "stiffness" else (gen["ndof"] if kind == "mass" else 1)
    K = (2 ** dim) * ndof
    budget = 3000 if ctx.quick else 8000
    maxnel = max(1, min(20 if ctx.quick else 48, budget // (K * K)))
    nelx, nely, nelz = gen_grid(rng, dim, maxnel, ctx.quick)
    nel = nelx * nely * max(nelz, 1)
    n = ndof * (nelx + 1) * (nely + 1) * (nelz + 1)
    bc, bckind = gen_bc(rng, n, ndof)
    gen.update({"nelx": nelx, "nely": nely, "nelz": nelz, "s": gen_sizes(rng),
                "x": [rng.choice([0.0, 1.0, rng.random(), rng.random(), rng.random()]) for _ in range(nel)],
                "bc": bc, "bc_np": bool(bc is not None and rng.random() < 0.4), "bckind": bckind,
                "bcdiag": rng.choice(["default", "default", None, 1.0, 0.0, rng.uniform(0.1, 5)]),
                "addc": gen_addc(rng, n, False, 1.0), "mtype": rng.choice(["default", "csc", "csr", "coo"])})
    if rng.random() < 0.3:
        rescale_units(rng, gen)
    return gen


def rescale_units(rng, gen):
    """the same problem in other units (exact power-of-two factors): micrometre elements, material data of 1e-9 or 1e11.
    Nothing in the assembly is allowed to depend on the absolute magnitude of the element-matrix entries"""
    fs = 2.0 ** rng.choice([-20, -17, -10, 7])
    fm = 2.0 ** rng.choice([-40, -30, 0, 36])
    gen["s"] = [float(v) * fs for v in gen["s"]]
    if gen["kind"] == "stiffness":
        gen["E"] = float(gen["E"]) * fm
    else:
        gen["mat"] = float(gen["mat"]) * fm
    gen["addc"] = None
    if not (gen.get("bcdiag") in ("default", None)):
        gen["bcdiag"] = "default"
    gen["units"] = [fs, fm]


# ------------------------------------------------------------------------------------------------
# model requests
# ------------------------------------------------------------------------------------------------
def elmat_fields(gen):
    d = {"kind": gen["kind"], "dim": _dim(gen), "s": qlist([float(v) for v in gen["s"]])}
    if gen["kind"] == "stiffness":
        d.update({"E": q(float(gen["E"])), "nu": q(float(gen["nu"])), "plane": gen["plane"]})
    elif gen["kind"] == "mass":
        d.update({"mat": q(float(gen["mat"])), "ndof": int(gen["ndof"])})
    else:
        d.update({"mat": q(float(gen["mat"]))})
    return d


def assemble_request(gen):
    """returns (request, want_dense, estimated cost)"""
    n = _nsize(gen)
    dim = _dim(gen)
    K = (2 ** dim) * _ndof(gen)
    nel = len(gen["x"])
    ntrip = nel * K * K
    dense = n * n * ntrip <= 250000
    bd = gen.get("bcdiag", "default")
    if bd == "default":
        bdq = 0 if (gen["op"] == "physical" and gen["kind"] == "mass") else None
    else:
        bdq = None if bd is None else q(bd)
    req = {"m": "c08.assemble", "nelx": gen["nelx"], "nely": gen["nely"], "nelz": gen["nelz"],
           "x": qlist(gen["x"]), "bc": None if gen.get("bc") is None else [int(b) for b in gen["bc"]],
           "bcdiag": bdq, "addc": None, "dense": bool(dense)}
    if dense and gen.get("addc") is not None:
        req["addc"] = qlist(addc_dense(gen["addc"], n).tolist())
    cost = 1.6e-4 * ntrip + (1e-5 * n * n * ntrip / 10 if dense else 0.0) + 0.01
    if gen["op"] == "general":
        req["elmat"] = qlist(gen["elmat"])
    else:
        req.update(elmat_fields(gen))
        cost += elmat_cost(gen)
    return req, dense, cost


def sum_triplets(ans, gen):
    """duplicates summed + constant, exactly: dict (r, c) -> Fraction"""
    d = {}
    for r, c, v in zip(ans["rows"], ans["cols"], ans["vals"]):
        d[(r, c)] = d.get((r, c), 0) + fr(v)
    if gen.get("addc") is not None:
        for r, c, v in gen["addc"]["trip"]:
            d[(r, c)] = d.get((r, c), 0) + Fraction(v)
    return d


def entries_union(D, md):
    """positions where the implementation or the model has a (structural) entry"""
    pos = set(md.keys())
    rr, cc = np.nonzero(D)
    pos.update(zip(rr.tolist(), cc.tolist()))
    return sorted(pos)


def short_case(stream, gen):
    return {"stream": stream, "gen": gen}


# ------------------------------------------------------------------------------------------------
# streams
# ------------------------------------------------------------------------------------------------
def stream_getB(ctx, batch):
    asm = _assembly()
    n = 70 if ctx.quick else 1500
    first = [True]
    for t in range(n):
        rng = ctx.rng
        if t % 12 == 11:
            ndim = 4
        else:
            ndim = 2 if rng.random() < 0.5 else 3
        nsh = rng.choice([4, 8, 2 ** ndim, rng.randint(1, 9)]) if ndim < 4 else rng.randint(1, 4)
        dyadic = rng.random() < 0.5
        if dyadic:
            dN = [[rng.randint(-16, 16) / 8 for _ in range(nsh)] for _ in range(ndim)]
        else:
            dN = [[rng.randint(-9, 9) for _ in range(nsh)] for _ in range(ndim)]
        voigt = rng.random() < 0.5
        arr = np.array(dN, dtype=float if (dyadic or rng.random() < 0.5) else int)
        gen = {"op": "getB", "dN": dN, "voigt": voigt}
        _decoy_getB(asm, arr, voigt)
        r = call_impl(asm.get_B, arr, voigt)
        req = {"m": "c08.getB", "dN": qlist(dN), "voigt": voigt}
        ctx.branch(f"getB.ndim{ndim}" + ("" if ndim == 4 else (".voigt" if voigt else ".standard")))

        def cb(ans, r=r, gen=gen, ndim=ndim, nsh=nsh):
            case = short_case("getB", gen)
            if r[0] == "err":
                ctx.compare_exact("getB", case, r[1], ans.get("err", "ok"), key=_key("getB", gen), nontrivial=False)
                return
            if "ok" not in ans:
                ctx.disagree("getB", case, "ok", ans, "model error")
                return
            B = np.asarray(r[1])
            nst = ndim * (ndim + 1) // 2
            if B.shape != (nst, ndim * nsh):
                ctx.disagree("getB", case, list(B.shape), [nst, ndim * nsh], "shape")
                return
            ctx.compare_exact("getB", case, [[Fraction(v) for v in row] for row in B.tolist()], frlist(ans["ok"]),
                              key=_key("getB", gen), nontrivial=bool(np.any(B != 0)))
            if first[0]:
                first[0] = False
                ctx.sample({"stream": "getB", "dN": gen["dN"], "voigt": gen["voigt"], "B": B.tolist()})
        batch.add(req, 0.002, cb)


def stream_getD(ctx, batch):
    asm = _assembly()
    rng = ctx.rng
    cases = []
    nrand = 60 if ctx.quick else 1500
    for _ in range(nrand):
        cases.append((rng.uniform(0.1, 10.0), rng.uniform(-0.9, 0.49), rng.choice(MODES), False))
    # exactly representable data: every float operation of get_D is exact
    for mode in MODES:
        for E in ([1.0, 4.0, 0.5] if ctx.quick else [1.0, 2.0, 4.0, 0.5, 0.25, 3.0, 96.0]):
            cases.append((E, 0.0, mode, True))
        for k in ([1, 6] if ctx.quick else [1, 2, 3, 6, 11, 20]):
            cases.append((15.0 * k, 0.25, mode, True))   # 1 - nu^2 = 15/16
            cases.append((3.0 * k, -0.5, mode, True))    # 1 - nu^2 = 3/4
    # division by zero / unknown mode
    for mode in MODES:
        cases.append((1.0, -1.0, mode, True))
        cases.append((2.0, 0.5, mode, True))
        cases.append((4.0, 1.0, mode, True))   # stress: ZeroDivisionError, strain / 3d: fine
    cases.append((0.0, -1.0, "strain", True))
    cases.append((0.0, 0.25, "stress", True))
    first = [True]
    for E, nu, mode, exact in cases:
        gen = {"op": "getD", "E": E, "nu": nu, "mode": mode, "exact": exact}
        _decoy_getD(asm, float(E), float(nu), mode)
        r = call_impl(asm.get_D, float(E), float(nu), mode)
        req = {"m": "c08.getD", "E": q(float(E)), "nu": q(float(nu)), "mode": mode}
        ml = mode.lower()
        ctx.branch("getD." + ("strain" if "strain" in ml else "stress" if "stress" in ml else "3d" if "3d" in ml else "unknown")
                   + (".err" if r[0] == "err" else ""))

        def cb(ans, r=r, gen=gen):
            case = short_case("getD", gen)
            if r[0] == "err":
                ctx.compare_exact("getD", case, r[1], ans.get("err", "ok"), key=_key("getD", gen), nontrivial=False)
                return
            if "ok" not in ans:
                ctx.disagree("getD", case, "ok", ans, "model error")
                return
            D = np.asarray(r[1], dtype=float)
            M = frlist(ans["ok"])
            if [len(M), len(M[0])] != list(D.shape):
                ctx.disagree("getD", case, list(D.shape), [len(M), len(M[0])], "shape")
                return
            if gen["exact"]:
                ok = ctx.compare_exact("getD", case, [[Fraction(v) for v in row] for row in D.tolist()], M, key=_key("getD", gen))
            else:
                sc = max(abs(float(v)) for row in M for v in row)
                ok = ctx.compare_close("getD", case, D.tolist(), M, rtol=1e-12, atol=1e-15, scale=sc, key=_key("getD", gen))
            if ok:
                for why in oracle_case(gen):
                    ctx.oracle_fail(why + decoy_note(gen), gen)
            if first[0]:
                first[0] = False
                ctx.sample({"stream": "getD", "E": gen["E"], "nu": gen["nu"], "mode": gen["mode"], "D": D.tolist()})
        batch.add(req, 0.002, cb)


def elmat_gens(ctx):
    rng = ctx.rng
    n2, n3 = (14, 4) if ctx.quick else (240, 60)
    for kind in ("stiffness", "mass", "poisson"):
        for dim, cnt in ((2, n2), (3, n3)):
            for _ in range(cnt):
                gen = {"op": "elmat", "kind": kind, "nelx": 1, "nely": 1, "nelz": 0 if dim == 2 else 1, "s": gen_sizes(rng)}
                gen_material(rng, kind, dim, gen)
                if kind == "stiffness" and dim == 2 and rng.random() < 0.2:
                    gen["plane"] = rng.choice(["stress", "strain", "STRESS", "my plane-strain"])
                if rng.random() < 0.3:
                    gen["addc"], gen["bcdiag"] = None, "default"
                    rescale_units(rng, gen)
                    gen.pop("addc"); gen.pop("bcdiag")
                yield gen
    # error cases of the element matrix
    base = {"op": "elmat", "kind": "stiffness", "nelx": 1, "nely": 1, "nelz": 0, "s": [1.0, 0.5, 2.0], "E": 1.0, "nu": 0.3}
    for plane in ("3d", "3D", "foo", "", "stres"):
        yield dict(base, plane=plane)
    for nu, plane in ((-1.0, "strain"), (0.5, "strain"), (0.5, "foo"), (0.5, "stress"), (1.0, "stress"), (-1.0, "3d")):
        yield dict(base, nu=nu, plane=plane)
    yield dict(base, nu=1.0, plane="strain")            # valid (negative moduli)
    yield dict(base, nelz=1, nu=0.5, plane="strain")    # 3-D: ZeroDivisionError
    yield dict(base, nelz=1, nu=-1.0, plane="whatever")


def stream_elmat(ctx, batch):
    first = [True]
    for gen in elmat_gens(ctx):
        r = call_impl(impl_elmat, gen)
        if r[0] == "ok":   # oracle on the real code: element matrix vs its defining integral
            rr = call_impl(oracle_definition, gen, r[1][1], _domain(gen))
            why = f"definition oracle raised {rr[2][:300]}" if rr[0] == "err" else rr[1]
            if why:
                ctx.oracle_fail(why + decoy_note(gen), gen)
            ctx.branch("oracle.definition")
        req = dict({"m": "c08.elmat"}, **elmat_fields(gen))
        ctx.branch(f"elmat.{gen['kind']}.{_dim(gen)}d" + (".err" if r[0] == "err" else ""))

        def cb(ans, r=r, gen=gen):
            case = short_case("elmat", gen)
            if r[0] == "err":
                ctx.compare_exact("elmat", case, r[1], ans.get("err", "ok"), key=_key("elmat", gen), nontrivial=False)
                return
            if "ok" not in ans:
                ctx.disagree("elmat", case, "ok", ans, "model error")
                return
            Ke = r[1][0]
            ir = ans["ok"]["ir"]
            if any(v != 0 for row in ir for v in row):
                ctx.disagree("elmat", case, "rational", ir, "model element matrix has an irrational (sqrt 3) part")
                return
            re_ = frlist(ans["ok"]["re"])
            if [len(re_), len(re_[0])] != list(Ke.shape):
                ctx.disagree("elmat", case, list(Ke.shape), [len(re_), len(re_[0])], "shape")
                return
            sc = max(abs(float(v)) for row in re_ for v in row)
            ctx.compare_close("elmat", case, Ke.tolist(), re_, rtol=1e-11, atol=1e-13, scale=sc, key=_key("elmat", gen))
            if first[0]:
                first[0] = False
                ctx.sample({"stream": "elmat", "gen": gen, "first_row": Ke[0].tolist()})
        batch.add(req, elmat_cost(gen), cb)


def compare_assembled(ctx, stream, gen, r, ans, want_dense, exact):
    """one assembled case: implementation result r = call_impl(run_case), model answer ans"""
    case = short_case(stream, gen)
    key = _key(stream, gen)
    if r[0] == "err":
        ctx.compare_exact(stream, case, r[1], ans.get("err", "ok"), key=key, nontrivial=False)
        return
    if "ok" not in ans:
        ctx.disagree(stream, case, "ok", ans, "model error")
        return
    A, m, dom = r[1]
    a = ans["ok"]
    n = _nsize(gen)
    D = dense_of(A)
    if list(D.shape) != [a["n"], a["n"]] or a["n"] != n:
        ctx.disagree(stream, case, list(D.shape), a["n"], "matrix size")
        return
    md = sum_triplets(a, gen)
    # protocol sanity: the model's own dense view equals the summed triplets (+ constant)
    if want_dense:
        dm = frlist(a["dense"])
        mine = [[md.get((i, j), Fraction(0)) for j in range(n)] for i in range(n)]
        if dm != mine:
            ctx.disagree(stream, case, "triplets summed in the harness", "model dense", "model dense view != its triplets summed + constant")
            return
    pos = entries_union(D, md)
    impl_vals = [D[i, j] for (i, j) in pos]
    model_vals = [md.get(p, Fraction(0)) for p in pos]
    nontrivial = bool(np.any(D != 0))
    bcd_model = fr(a["bcdiag"])
    if exact:
        ok = ctx.compare_exact(stream, case, {"pos": [list(p) for p in pos], "vals": [Fraction(float(v)) for v in impl_vals],
                                              "bcdiag": Fraction(float(m.bcdiagval))},
                               {"pos": [list(p) for p in pos], "vals": model_vals, "bcdiag": bcd_model}, key=key, nontrivial=nontrivial)
    else:
        sc = max([abs(float(v)) for v in model_vals] + [1e-300])
        ok = ctx.compare_close(stream, case, impl_vals + [float(m.bcdiagval)], model_vals + [bcd_model],
                               rtol=1e-10, atol=1e-12, scale=sc, key=key, nontrivial=nontrivial)
    # raw triplets of a coo result (order of the entries, bcselect, bc diagonal entries)
    if ok and sp.issparse(A) and A.format == "coo" and gen.get("addc") is None:
        rows, cols, data = A.row.tolist(), A.col.tolist(), A.data.tolist()
        ctx.branch(f"{stream}.coo_raw")
        if exact:
            ctx.compare_exact(stream + ".coo", case, [rows, cols, [Fraction(float(v)) for v in data]],
                              [a["rows"], a["cols"], frlist(a["vals"])], key=_key(stream + ".coo", gen), nontrivial=nontrivial)
        else:
            if ctx.compare_exact(stream + ".coo", case, [rows, cols], [a["rows"], a["cols"]],
                                 key=_key(stream + ".coo.idx", gen), nontrivial=nontrivial):
                mv = frlist(a["vals"])
                sc = max([abs(float(v)) for v in mv] + [1e-300])
                ctx.compare_close(stream + ".coo", case, data, mv, rtol=1e-10, atol=1e-12, scale=sc,
                                  key=_key(stream + ".coo", gen), nontrivial=nontrivial)


def add_assembled(ctx, batch, stream, gen, run_property_oracles):
    r = call_impl(run_case, gen)
    exact = bool(gen.get("exact"))
    if r[0] == "ok":
        A, m, dom = r[1]
        why = oracle_reassembly(gen, A, m, dom, exact)
        if why:
            ctx.oracle_fail(why + decoy_note(gen), gen)
        if run_property_oracles:
            for why in property_oracles(gen):
                ctx.oracle_fail(why + decoy_note(gen), gen)
    req, want_dense, cost = assemble_request(gen)

    def cb(ans, r=r, gen=gen, want_dense=want_dense, exact=exact):
        compare_assembled(ctx, stream, gen, r, ans, want_dense, exact)
    batch.add(req, cost, cb)
    return r


def stream_general(ctx, batch):
    nex, nfl = (100, 30) if ctx.quick else (2200, 600)
    sampled = False
    for t in range(nex + nfl):
        exact = t < nex
        gen = gen_general(ctx, exact)
        tag = "general" if exact else "generalf"
        r = add_assembled(ctx, batch, tag, gen, False)
        dim = _dim(gen)
        ctx.branch(f"{tag}.{dim}d.ndof{_ndof(gen)}")
        ctx.branch(f"{tag}.bc.{gen['bckind']}")
        ctx.branch(f"{tag}.bcdiag.{'default' if gen['bcdiag'] == 'default' else 'None' if gen['bcdiag'] is None else 'value'}")
        ctx.branch(f"{tag}.addc.{gen['addc']['fmt'] if gen['addc'] else 'none'}")
        ctx.branch(f"{tag}.mtype.{gen['mtype']}")
        if r[0] == "err":
            ctx.branch(f"{tag}.unexpected_error")
        if not sampled and exact and r[0] == "ok" and gen["bc"] and _nsize(gen) <= 12:
            sampled = True
            ctx.sample({"stream": "general", "gen": gen, "A": dense_of(r[1][0]).tolist()})


def stream_physical(ctx, batch):
    per = (12, 5) if ctx.quick else (220, 90)
    sampled = set()
    for kind in ("stiffness", "mass", "poisson"):
        for dim, cnt in ((2, per[0]), (3, per[1])):
            for _ in range(cnt):
                gen = gen_physical(ctx, kind, dim)
                r = add_assembled(ctx, batch, "physical", gen, True)
                ctx.branch(f"physical.{kind}.{dim}d")
                ctx.branch(f"physical.bc.{gen['bckind']}")
                ctx.branch(f"physical.addc.{gen['addc']['fmt'] if gen['addc'] else 'none'}")
                ctx.branch(f"physical.mtype.{gen['mtype']}")
                if r[0] == "err":
                    ctx.branch("physical.unexpected_error")
                if kind not in sampled and r[0] == "ok" and dim == 2:
                    sampled.add(kind)
                    if kind == "stiffness":
                        ctx.sample({"stream": "physical", "gen": {k: v for k, v in gen.items() if k != "addc"},
                                    "trace": float(dense_of(r[1][0]).trace())})


def malformed_gens(ctx):
    rng = ctx.rng
    reps = 2 if ctx.quick else 12
    for _ in range(reps):
        # AssembleGeneral: wrong len(x), bc index >= n
        for variant in ("xlen", "bcbig", "both"):
            g = gen_general(ctx, True)
            g["addc"] = None
            if 2 ** _dim(g) * _ndof(g) > 12:   # keep these cheap
                g["elmat"] = [row[:2 ** _dim(g)] for row in g["elmat"][:2 ** _dim(g)]]
                if g["bc"] is not None:
                    g["bc"] = [b for b in g["bc"] if b < _nsize(g)]
            n = _nsize(g)
            if variant in ("xlen", "both"):
                g["x"] = rng.choice([g["x"] + [1], g["x"][:-1], []])
            if variant in ("bcbig", "both"):
                g["bc"] = rng.choice([[n], [n + 3], [0, n], [n, 0], (g["bc"] or []) + [n + rng.randint(0, 5)]])
            g["why"] = variant
            yield g
        # physical modules
        for kind in ("stiffness", "mass", "poisson"):
            g = gen_physical(ctx, kind, 2)
            g["addc"] = None
            v = rng.choice(["xlen", "bcbig"])
            if v == "xlen":
                g["x"] = g["x"] + [0.5]
            else:
                g["bc"] = [_nsize(g) + rng.randint(0, 3)]
            g["why"] = v
            yield g
        for nu, plane in ((-1.0, "strain"), (0.5, "stress"), (1.0, "stress"), (0.3, "foo"), (0.3, "3d"), (0.5, "foo"), (0.3, "3D-solid")):
            g = gen_physical(ctx, "stiffness", 2)
            g.update({"nu": nu, "plane": plane, "addc": None, "why": f"nu={nu},plane={plane}"})
            if rng.random() < 0.3:
                g["x"] = g["x"] + [1.0]    # the constructor error wins
            yield g
    g = gen_physical(ctx, "stiffness", 3)
    g.update({"nu": 0.5, "addc": None, "why": "3d nu=0.5", "nelx": 1, "nely": 1, "nelz": 1, "x": [1.0], "bc": None})
    yield g


def stream_malformed(ctx, batch):
    for gen in malformed_gens(ctx):
        r = call_impl(run_case, gen)
        req, want_dense, cost = assemble_request(gen)
        req["dense"] = False
        req["addc"] = None
        ctx.branch("malformed." + (r[1] if r[0] == "err" else "no_error"))

        def cb(ans, r=r, gen=gen):
            case = short_case("malformed", gen)
            impl = r[1] if r[0] == "err" else "ok"
            model = ans.get("err", "ok")
            ctx.compare_exact("malformed", case, impl, model, key=_key("malformed", gen), nontrivial=(impl != "ok"))
        batch.add(req, cost, cb)


# ------------------------------------------------------------------------------------------------
# AssembleGeneral._sensitivity (model ops c08.sens): dense and DyadCarrier seeds, bc sets, constants,
# complex data; oracle: <W, A(x+v) - A(x)> == <sens(W), v>, seed change idempotent
# ------------------------------------------------------------------------------------------------
def _cx(v):
    v = complex(v)
    return [q(v.real), q(v.imag)]


def _enc(a, cx):
    a = np.asarray(a)
    if cx:
        return [_enc(r, cx) for r in a] if a.ndim > 1 else [_cx(v) for v in a.tolist()]
    return qlist(a.real if np.iscomplexobj(a) else a)


def _dec(v, cx):
    """model answer -> list of exact python numbers (Fraction or (Fraction, Fraction))"""
    if cx:
        if isinstance(v, list) and len(v) == 2 and not isinstance(v[0], list):
            return (fr(v[0]), fr(v[1]))
        return [_dec(w, cx) for w in v]
    return frlist(v)


def _exact(a, cx):
    a = np.asarray(a)
    if a.ndim > 1:
        return [_exact(r, cx) for r in a]
    if cx:
        return [(Fraction(complex(v).real), Fraction(complex(v).imag)) for v in a.tolist()]
    return [Fraction(float(np.real(v))) for v in a.tolist()]


def _canon_num(v):
    if isinstance(v, tuple):
        return [str(v[0]), str(v[1])]
    if isinstance(v, list):
        return [_canon_num(w) for w in v]
    return str(v)


def _rint(rng, lo=-3, hi=3, nonzero=False):
    v = rng.randint(lo, hi)
    while nonzero and v == 0:
        v = rng.randint(lo, hi)
    return v


def gen_sens(ctx):
    rng = ctx.rng
    gen = gen_general(ctx, True)
    gen["op"] = "sens"
    gen["dtype"] = "float"
    K = len(gen["elmat"])
    nel = len(gen["x"])
    n = K // (2 ** _dim(gen)) * (gen["nelx"] + 1) * (gen["nely"] + 1) * (gen["nelz"] + 1)
    mode = rng.choice(["real", "real", "real", "cx", "realx"])   # cx: complex x; realx: real x, complex elmat/seed
    gen["mode"] = mode
    cplx = mode != "real"
    if cplx:
        gen["elmat_im"] = [[_rint(rng, -2, 2) for _ in range(K)] for _ in range(K)]
    if mode == "cx":
        gen["x_im"] = [_rint(rng, -2, 2) for _ in range(nel)]
    gen["v"] = [_rint(rng, -3, 3) for _ in range(nel)]
    if mode == "cx":
        gen["v_im"] = [_rint(rng, -2, 2) for _ in range(nel)]
    seed = rng.choice(["dense", "dense", "dyad", "dyad", "dyad_sym", "empty"])
    gen["seed"] = seed
    if seed == "dense":
        gen["W"] = [[_rint(rng) for _ in range(n)] for _ in range(n)]
        if cplx:
            gen["W_im"] = [[_rint(rng, -2, 2) for _ in range(n)] for _ in range(n)]
    elif seed in ("dyad", "dyad_sym"):
        nd = rng.randint(1, 3)
        gen["us"] = [[_rint(rng) for _ in range(n)] for _ in range(nd)]
        for u in gen["us"]:
            u[rng.randrange(n)] = _rint(rng, nonzero=True)
        if cplx:
            gen["us_im"] = [[_rint(rng, -2, 2) for _ in range(n)] for _ in range(nd)]
        if seed == "dyad":
            gen["vs"] = [[_rint(rng) for _ in range(n)] for _ in range(nd)]
            for u in gen["vs"]:
                u[rng.randrange(n)] = _rint(rng, nonzero=True)
    if gen.get("bcdiag", "default") == "default" and cplx:
        gen["bcdiag"] = 1      # np.max of a complex element matrix is not part of the model
    return gen


def _sens_arrays(gen):
    cplx = gen["mode"] != "real"
    Ke = np.array(gen["elmat"], dtype=float)
    if cplx:
        Ke = Ke + 1j * np.array(gen["elmat_im"], dtype=float)
    x = np.array(gen["x"], dtype=float)
    v = np.array(gen["v"], dtype=float)
    if gen["mode"] == "cx":
        x = x + 1j * np.array(gen["x_im"], dtype=float)
        v = v + 1j * np.array(gen["v_im"], dtype=float)
    return Ke, x, v


def _sens_module(gen, Ke, x):
    pm = _pm()
    dom = _domain(gen)
    sx = pm.Signal('x', np.array(x))
    kw = {}
    if gen.get("bc") is not None:
        kw["bc"] = np.array(gen["bc"], dtype=int) if gen.get("bc_np") else list(gen["bc"])
    if gen.get("bcdiag", "default") != "default":
        kw["bcdiagval"] = gen["bcdiag"]
    if gen.get("addc") is not None:
        kw["add_constant"] = build_addc(gen["addc"], _nsize_sens(gen))
    if gen.get("mtype", "default") != "default":
        kw["matrix_type"] = MT[gen["mtype"]]
    run_decoys(gen, "pre")
    m = pm.AssembleGeneral(sx, domain=dom, element_matrix=Ke, **kw)
    run_decoys(gen, "post")
    m.response()
    return m, sx, dom


def _nsize_sens(gen):
    return len(gen["elmat"]) // (2 ** _dim(gen)) * (gen["nelx"] + 1) * (gen["nely"] + 1) * (gen["nelz"] + 1)


def _make_seed(gen):
    """returns (seed object, dense equivalent W0)"""
    pm = _pm()
    cplx = gen["mode"] != "real"
    if gen["seed"] == "dense":
        W = np.array(gen["W"], dtype=float)
        if cplx:
            W = W + 1j * np.array(gen["W_im"], dtype=float)
        return W, W.copy()
    if gen["seed"] == "empty":
        return pm.DyadCarrier(), np.zeros((_nsize_sens(gen),) * 2)
    us = [np.array(u, dtype=float) for u in gen["us"]]
    if cplx:
        us = [u + 1j * np.array(ui, dtype=float) for u, ui in zip(us, gen["us_im"])]
    if gen["seed"] == "dyad_sym":
        D = pm.DyadCarrier(us)
        vs = us
    else:
        vs = [np.array(u, dtype=float) for u in gen["vs"]]
        D = pm.DyadCarrier(us, vs)
    W0 = sum(np.outer(u, w) for u, w in zip(us, vs))
    return D, W0


def run_sens(gen):
    """real code: sensitivity, the seed after the call, a second call (idempotence), and the adjoint pairing"""
    Ke, x, v = _sens_arrays(gen)
    m, sx, dom = _sens_module(gen, Ke, x)
    seed, W0 = _make_seed(gen)
    m.sig_out[0].sensitivity = seed
    m.sensitivity()
    dx = sx.sensitivity
    out = {"dx": None if dx is None else np.array(dx).copy()}
    if gen["seed"] == "dense":
        out["seed_after"] = np.array(seed).copy()
    elif gen["seed"] != "empty":
        out["us_after"] = [np.array(u).copy() for u in seed.u]
        out["vs_after"] = [np.array(u).copy() for u in seed.v]
    # second call with the (already changed) seed object
    sx.reset()
    m.sig_out[0].sensitivity = seed
    m.sensitivity()
    dx2 = sx.sensitivity
    out["dx2"] = None if dx2 is None else np.array(dx2).copy()
    # adjoint pairing on the real code:  <W0, A(x+v) - A(x)>  vs  <dx, v>
    A0 = dense_of(m.sig_out[0].state)
    m2, _, _ = _sens_module(gen, Ke, x + v)
    A1 = dense_of(m2.sig_out[0].state)
    lhs = complex(np.sum(W0 * (A1 - A0)))
    rhs = 0j if dx is None else complex(np.sum(np.asarray(dx) * v))
    out["lhs"], out["rhs"] = lhs, rhs
    return out


def oracle_sens(gen, out):
    """property C01 on the real code (exact on this integer data)"""
    if gen["seed"] == "empty":
        return None if out["dx"] is None else "empty DyadCarrier seed produced a sensitivity"
    lhs, rhs = out["lhs"], out["rhs"]
    if gen["mode"] == "realx":
        lhs = complex(lhs.real, 0.0)
        if abs(rhs.imag) > 0:
            return f"sensitivity of a real x is complex: {rhs}"
    if lhs != rhs:
        return f"<W, A(x+v) - A(x)> = {lhs} but <sens(W), v> = {rhs}"
    if out["dx2"] is None or not np.array_equal(out["dx"], out["dx2"]):
        return f"second sensitivity() call with the same seed object gives {None if out['dx2'] is None else out['dx2'].tolist()}, first gave {out['dx'].tolist()}"
    return None


def stream_sens(ctx):
    n = 40 if ctx.quick else 500
    gens, impls, reqs = [], [], []
    for _ in range(n):
        gen = gen_sens(ctx)
        r = call_impl(run_sens, gen)
        if r[0] == "err":
            ctx.disagree("sens", short_case("sens", gen), r[1], "ok", r[2])
            continue
        out = r[1]
        why = oracle_sens(gen, out)
        if why:
            ctx.oracle_fail(why + decoy_note(gen), gen)
        cplx = gen["mode"] != "real"
        Ke, _, _ = _sens_arrays(gen)
        req = {"m": "c08.sens", "nelx": gen["nelx"], "nely": gen["nely"], "nelz": gen["nelz"], "elmat": _enc(Ke, cplx),
               "bc": gen["bc"], "cx": cplx, "xreal": gen["mode"] == "realx",
               "seed": "dense" if gen["seed"] == "dense" else "dyad"}
        seed, W0 = _make_seed(gen)
        if gen["seed"] == "dense":
            req["W"] = _enc(W0, cplx)
        elif gen["seed"] == "empty":
            req.update(shape_set=False, us=[], vs=[])
        else:
            req.update(shape_set=True, us=[_enc(u, cplx) for u in seed.u], vs=[_enc(u, cplx) for u in seed.v])
        gens.append(gen)
        impls.append(out)
        reqs.append(req)
        ctx.branch(f"sens.{gen['seed']}.{gen['mode']}.bc_{gen['bckind']}")
    res = ctx.model(reqs)
    for gen, out, req, ans in zip(gens, impls, reqs, res):
        case = {"stream": "sens", "gen": gen}
        key = _key("sens", gen)
        if "ok" not in ans:
            ctx.disagree("sens", case, "ok", ans, "model error")
            continue
        a = ans["ok"]
        cplx = gen["mode"] != "real"
        if gen["seed"] == "empty":
            ctx.compare_exact("sens", case, out["dx"] is None, a["dx"] is None, key=key)
            continue
        res_cx = cplx and gen["mode"] == "cx"
        impl = {"dx": _canon_num(_exact(out["dx"], cplx))}
        model = {"dx": _canon_num(_dec(a["dx"], cplx))}
        if gen["seed"] == "dense":
            impl["seed_after"] = _canon_num(_exact(out["seed_after"], cplx))
            model["seed_after"] = _canon_num(_dec(a["seed_after"], cplx))
        else:
            impl["us_after"] = _canon_num([_exact(u, cplx) for u in out["us_after"]])
            impl["vs_after"] = _canon_num([_exact(u, cplx) for u in out["vs_after"]])
            model["us_after"] = _canon_num(_dec(a["us_after"], cplx))
            model["vs_after"] = _canon_num(_dec(a["vs_after"], cplx))
        ctx.compare_exact("sens", case, impl, model, key=key)
    if reqs:
        ctx.sample({"request": {k: v for k, v in reqs[0].items() if k not in ("elmat", "W", "us", "vs")},
                    "impl_dx": np.asarray(impls[0]["dx"]).tolist() if impls[0]["dx"] is not None else None})


def correspondence(ctx):
    batch = Batch()
    stream_getB(ctx, batch)
    stream_getD(ctx, batch)
    stream_elmat(ctx, batch)
    stream_general(ctx, batch)
    stream_physical(ctx, batch)
    stream_malformed(ctx, batch)
    batch.run(ctx)
    stream_sens(ctx)


# ------------------------------------------------------------------------------------------------
# search / replay
# ------------------------------------------------------------------------------------------------
def sweep_gens(ctx):
    """small fresh cases for the search"""
    for kind in ("stiffness", "mass", "poisson"):
        for (nelx, nely, nelz) in ((1, 1, 0), (2, 2, 0), (3, 2, 0), (1, 1, 1), (2, 1, 1)):
            dim = 2 if nelz == 0 else 3
            nel = nelx * nely * max(nelz, 1)
            for s in ([1.0, 1.0, 1.0], [0.5, 2.0, 0.25]):
                gen = {"op": "physical", "kind": kind, "nelx": nelx, "nely": nely, "nelz": nelz, "s": s,
                       "x": [((7 * e + 3) % 5) / 4 for e in range(nel)], "bc": [0, 1] if nel > 1 else None,
                       "bc_np": False, "bcdiag": "default", "addc": None, "mtype": "default"}
                if kind == "stiffness":
                    for plane in (("strain", "stress") if dim == 2 else ("3d",)):
                        yield dict(gen, E=2.0, nu=0.3, plane=plane)
                elif kind == "mass":
                    for ndof in (1, dim):
                        yield dict(gen, mat=1.5, ndof=ndof)
                else:
                    yield dict(gen, mat=0.75)
    for _ in range(12):
        g = gen_general(ctx, True)
        if _nsize(g) <= 40:
            yield g


def search(ctx, disagreements):
    """run the oracles on the disagreeing cases, then on a sweep of small fresh cases"""
    found = []
    seen = set()

    def try_gen(gen):
        k = json.dumps(gen, sort_keys=True, default=str)
        if k in seen:
            return
        seen.add(k)
        r = call_impl(oracle_case, gen)
        whys = [f"oracle raised {r[2][:300]}"] if r[0] == "err" else r[1]
        for why in whys[:1]:
            found.append({"what": why + decoy_note(gen), "witness": gen})
    for d in disagreements:
        gen = (d.get("case") or {}).get("gen") if isinstance(d.get("case"), dict) else None
        if isinstance(gen, dict) and gen.get("why") is None:   # malformed cases have no property to check
            try_gen(gen)
        if len(found) >= 6:
            break
    if len(found) < 3:
        for gen in sweep_gens(ctx):
            try_gen(gen)
            if len(found) >= 6:
                break
    found.sort(key=lambda w: len(json.dumps(w["witness"], default=str)))
    return found[:6]


def replay(ctx, data):
    w = data.get("witness", {})
    if isinstance(w, dict) and isinstance(w.get("witness"), dict):
        w = w["witness"]
    if not isinstance(w, dict) or w.get("op") not in ("general", "physical", "elmat", "getD", "sens"):
        return {"still_failing": False, "note": "replay file names no failing input (see no_longer_checks)"}
    r = call_impl(oracle_case, w)
    whys = [f"oracle raised {r[2][:300]}"] if r[0] == "err" else r[1]
    return {"still_failing": bool(whys), "what": whys[0] if whys else None}
