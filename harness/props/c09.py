"""C09 — density filters are the normalised local averages they are defined to be (pymoto/modules/filter.py:8-343)

correspondence: real FilterConv / DensityFilter vs the Lean model `Core/Filter.lean` (driver ops c09.conv, c09.dens):
                padded index map `el3d_pad`, kernel shape / weights, forward values AND sensitivities.
oracle/search : the property itself on the real code with explicit Python loops: padded convolution from the defining
                formula (closed-form extension rules), cone average over ALL elements, constants preserved, range
                [min x, max x], volume preservation (symmetric padding + mirror-symmetric kernel), adjoint identity
                with complete Jacobians on small grids.
"""
import itertools
import math
from fractions import Fraction

import numpy as np

from ..common import q, qlist, frlist, call_impl

RULE = ("FilterConv: random 2-D/3-D grids (incl. one-element-wide), all 6 boundary modes drawn from {symmetric, edge, wrap, "
        "constants}, odd dyadic kernels with pad widths up to 3x the array (exact comparison of el3d_pad, y, dx), value "
        "overrides through override_values, radius kernels 0.3..3x the domain in relative and absolute units (tolerance); "
        "exhaustive boundary-mode combinations on small grids (5^4 in 2-D, 4^6 in 3-D; thorough tier, sampled in quick); "
        "DensityFilter: radii 0.3..3x the domain, optional nonpadding; malformed: even kernels, wrong vector lengths. "
        "distinct = distinct case keys (configuration + data)")
FINDING_KEY = "filterconv-wide-pad-mixed-modes"
ASSUMPTIONS = [
    "boundary modes are from the documented set {'symmetric', 'edge', 'wrap', real number}; radius > 0",
    "np.pad closed forms (reflection with period 2n, clamping, modulo) are model assumptions about numpy, validated here for pad widths up to 3x the array",
    "sqrt in the model is a rational approximation with absolute error < 1e-40; radius kernels / DensityFilter are compared with tolerance 1e-9",
    "open known finding filterconv-wide-pad-mixed-modes: for pad > array size with the mode pairs (symmetric, non-symmetric) / "
    "(wrap, symmetric) on an axis the real code deviates from the padded-convolution formula (each face extended by ITS rule applied "
    "to the field itself); such deviations are tagged with the finding key, the model follows the code there",
]

BCN = ['xmin_bc', 'xmax_bc', 'ymin_bc', 'ymax_bc', 'zmin_bc', 'zmax_bc']


def _pm():
    import pymoto
    return pymoto


# ----------------------------------------------------------------------------------------------
# case specification (pure JSON) -> implementation / model request
# ----------------------------------------------------------------------------------------------
def enc_mode(m):
    return m if isinstance(m, str) else {"c": q(float(m))}


def build_conv(spec):
    pm = _pm()
    nelx, nely, nelz = spec["dom"]
    es = spec.get("es") or [1.0, 1.0, 1.0]
    d = pm.DomainDefinition(nelx, nely, nelz, unitx=es[0], unity=es[1], unitz=es[2])
    x = np.array(spec["x"], dtype=float)
    kw = dict(zip(BCN, spec["bc"]))
    if spec.get("weights") is not None:
        m = pm.FilterConv(pm.Signal('x', x), domain=d, weights=np.array(spec["weights"], dtype=float), **kw)
    else:
        m = pm.FilterConv(pm.Signal('x', x), domain=d, radius=spec["radius"], relative_units=spec["rel"], **kw)
    for ov in spec.get("ov", []):
        pts = ov["pts"]
        idx = (np.array([p[0] for p in pts], dtype=int), np.array([p[1] for p in pts], dtype=int),
               np.array([p[2] for p in pts], dtype=int))
        m.override_values(idx, ov["v"])
    return m, d


def impl_conv(spec):
    m, d = build_conv(spec)
    m.response()
    y = np.array(m.sig_out[0].state, dtype=float).copy()
    g = np.array(spec["g"], dtype=float)
    m.sig_out[0].sensitivity = g.copy()
    m.sensitivity()
    dx = np.array(m.sig_in[0].sensitivity, dtype=float).copy()
    return {"y": y, "dx": dx, "pad": np.asarray(m.el3d_pad).flatten().tolist(), "k": list(m.weights.shape),
            "w": np.asarray(m.weights, dtype=float)}, m


def req_conv(spec):
    r = {"m": "c09.conv", "nelx": spec["dom"][0], "nely": spec["dom"][1], "nelz": spec["dom"][2],
         "bc": [enc_mode(b) for b in spec["bc"]], "x": qlist(spec["x"]), "g": qlist(spec["g"]),
         "ov": [{"pts": ov["pts"], "v": q(float(ov["v"]))} for ov in spec.get("ov", [])]}
    if spec.get("weights") is not None:
        w = np.array(spec["weights"], dtype=float)
        while w.ndim < 3:
            w = np.expand_dims(w, axis=-1)
        r["k"] = list(w.shape)
        r["w"] = qlist(w.flatten())
    else:
        r["radius"] = {"r": q(float(spec["radius"])), "rel": bool(spec["rel"]), "tiny": q(1e-10),
                       "es": qlist([float(v) for v in (spec.get("es") or [1.0, 1.0, 1.0])])}
    return r


def build_dens(spec):
    pm = _pm()
    nelx, nely, nelz = spec["dom"]
    d = pm.DomainDefinition(nelx, nely, nelz)
    x = np.array(spec["x"], dtype=float)
    npd = spec.get("nonpadding")
    # instance isolation: a DECOY filter with the same radius, dimension and number of elements but another grid shape
    # (axes rotated) is constructed and evaluated first; nothing it computed may leak into the filter under test
    rot = (nely, nelx, nelz) if nelz == 0 else (nely, nelz, nelx)
    if rot != (nelx, nely, nelz) and min(rot[:2]) > 0:
        dd = pm.DomainDefinition(*rot)
        decoy = pm.DensityFilter(pm.Signal('xd', np.linspace(0.0, 1.0, dd.nel)), domain=dd, radius=spec["radius"])
        decoy.response()
    rad = spec["radius"]
    if float(rad) == int(rad) and (nelx + nely + int(rad)) % 2 == 0:
        rad = int(rad)          # a whole-number radius handed over as a Python int (radius=2): same filter
    m = pm.DensityFilter(pm.Signal('x', x), domain=d, radius=rad,
                         nonpadding=(np.array(npd, dtype=int) if npd is not None else None))
    return m, d


def impl_dens(spec):
    m, d = build_dens(spec)
    m.response()
    y = np.array(m.sig_out[0].state, dtype=float).copy()
    m.sig_out[0].sensitivity = np.array(spec["g"], dtype=float)
    m.sensitivity()
    dx = np.array(m.sig_in[0].sensitivity, dtype=float).copy()
    return {"y": y, "dx": dx, "Hs": np.asarray(m.Hs, dtype=float).flatten()}, m


def req_dens(spec):
    return {"m": "c09.dens", "nelx": spec["dom"][0], "nely": spec["dom"][1], "nelz": spec["dom"][2],
            "radius": q(float(spec["radius"])), "nonpadding": spec.get("nonpadding"),
            "x": qlist(spec["x"]), "g": qlist(spec["g"])}


# ----------------------------------------------------------------------------------------------
# the defining formulas with explicit loops (oracle)
# ----------------------------------------------------------------------------------------------
def ext1(e0, e1, n, t):
    """extension rule of one axis: ('i', index) or ('c', value); closed forms, independent of np.pad"""
    if 0 <= t < n:
        return ('i', t)
    e = e0 if t < 0 else e1
    if e == 'symmetric':
        r = t % (2 * n)
        return ('i', r if r < n else 2 * n - 1 - r)
    if e == 'edge':
        return ('i', 0 if t < 0 else n - 1)
    if e == 'wrap':
        return ('i', t % n)
    return ('c', float(e))


def axis_clean(e0, e1, n, p):
    """inputs for which the three successive np.pad calls of _process_padding give the per-face rule"""
    if p <= n:
        return True
    if e0 == 'symmetric':
        return e1 == 'symmetric'
    if e0 == 'wrap' and e1 == 'symmetric':
        return False
    return True


def has_nonclean_axis(spec, kshape):
    """True iff some axis has pad > size with a mode pair of the open finding `filterconv-wide-pad-mixed-modes`"""
    nelx, nely, nelz = spec["dom"]
    n = [nelx, nely, max(nelz, 1)]
    p = [k // 2 for k in kshape]
    bc = spec["bc"]
    return not all(axis_clean(bc[2 * a], bc[2 * a + 1], n[a], p[a]) for a in range(3))


def brute_conv(spec, w):
    """y[el(i,j,k)] = sum_{a,b,c} w[a,b,c] * xt[i+px-a, j+py-b, k+pz-c], xt = field extended in x, then y, then z;
    value overrides replace the field inside the domain."""
    nelx, nely, nelz = spec["dom"]
    n = [nelx, nely, max(nelz, 1)]
    bc = spec["bc"]
    x = spec["x"]
    K = w.shape
    p = [k // 2 for k in K]
    over = {}
    for ov in spec.get("ov", []):
        for pt in ov["pts"]:
            over[tuple(pt)] = float(ov["v"])

    def xt(tx, ty, tz):
        sz_ = ext1(bc[4], bc[5], n[2], tz)
        if sz_[0] == 'c':
            return sz_[1]
        sy = ext1(bc[2], bc[3], n[1], ty)
        if sy[0] == 'c':
            return sy[1]
        sx = ext1(bc[0], bc[1], n[0], tx)
        if sx[0] == 'c':
            return sx[1]
        if 0 <= tx < n[0] and 0 <= ty < n[1] and 0 <= tz < n[2] and (tx, ty, tz) in over:
            return over[(tx, ty, tz)]
        return x[(sz_[1] * nely + sy[1]) * nelx + sx[1]]

    y = [0.0] * len(x)
    for i in range(n[0]):
        for j in range(n[1]):
            for k in range(n[2]):
                s = 0.0
                for a in range(K[0]):
                    for b in range(K[1]):
                        for c in range(K[2]):
                            wv = w[a, b, c]
                            if wv != 0.0:
                                s += wv * xt(i + p[0] - a, j + p[1] - b, k + p[2] - c)
                y[(k * nely + j) * nelx + i] = s
    return y


def brute_dens(spec):
    nelx, nely, nelz = spec["dom"]
    nz = max(nelz, 1)
    r = float(spec["radius"])
    x = spec["x"]
    nel = nelx * nely * nz
    y = []
    for e in range(nel):
        ie, je, ke = e % nelx, (e // nelx) % nely, e // (nelx * nely)
        num = den = 0.0
        for j in range(nel):
            ij, jj, kj = j % nelx, (j // nelx) % nely, j // (nelx * nely)
            h = max(0.0, r - math.sqrt((ie - ij) ** 2 + (je - jj) ** 2 + (ke - kj) ** 2))
            num += h * x[j]
            den += h
        y.append(num / den)
    return y


def _run(m, x):
    m.sig_in[0].state = np.array(x, dtype=float)
    m.response()
    return np.array(m.sig_out[0].state, dtype=float).copy()


def _sens(m, g):
    m.sig_in[0].sensitivity = None
    m.sig_out[0].sensitivity = np.array(g, dtype=float)
    m.sensitivity()
    return np.array(m.sig_in[0].sensitivity, dtype=float).copy()


def oracle_common(m, spec, y, tol, nonneg_sum_one, no_const, jac=True):
    """constants, range, adjoint (complete Jacobian) on the real module `m`; returns failure text or None"""
    x = np.array(spec["x"], dtype=float)
    n = len(x)
    if nonneg_sum_one and no_const:
        lo, hi = x.min(), x.max()
        sc = max(1.0, abs(lo), abs(hi))
        if not (y.min() >= lo - tol * sc and y.max() <= hi + tol * sc):
            return f"output range [{y.min()!r}, {y.max()!r}] not within [min x, max x] = [{lo!r}, {hi!r}]"
        for v in (1.0, -0.75):
            yc = _run(m, np.full(n, v))
            if not (np.abs(yc - v).max() <= tol):
                return f"constant field {v} is mapped to {yc.tolist()}"
    if jac and n <= 36:
        y0 = _run(m, np.zeros(n))
        J = np.zeros((n, n))
        for j in range(n):
            e = np.zeros(n)
            e[j] = 1.0
            J[:, j] = _run(m, e) - y0
        _run(m, x)
        JT = np.zeros((n, n))
        for i in range(n):
            e = np.zeros(n)
            e[i] = 1.0
            JT[:, i] = _sens(m, e)
        sc = max(1.0, np.abs(J).max())
        if not (np.abs(J.T - JT).max() <= tol * sc):
            i, j = np.unravel_index(np.abs(J.T - JT).argmax(), J.shape)
            return (f"sensitivity is not the adjoint: d y[{j}]/d x[{i}] = {J[j, i]!r} but sensitivity(e_{j})[{i}] = {JT[i, j]!r}")
        # <w, F x - F 0> = <F^T w, x>
        g = np.array(spec["g"], dtype=float)
        lhs = float(g @ (_run(m, x) - y0))
        rhs = float(_sens(m, g) @ x)
        if not (abs(lhs - rhs) <= tol * max(1.0, abs(lhs)) * n):
            return f"adjoint identity fails: <w, F x - F 0> = {lhs!r}, <F^T w, x> = {rhs!r}"
    return None


def oracle_conv(spec, m=None, exact=False):
    """the property on the real FilterConv; returns (failure text or None, known-finding key or None)"""
    if m is None:
        m, _ = build_conv(spec)
    tol = 1e-12 if exact else 1e-9
    x = np.array(spec["x"], dtype=float)
    y = _run(m, x)
    w = np.asarray(m.weights, dtype=float)
    bc = spec["bc"]
    sc = max(1.0, np.abs(x).max()) * max(1.0, np.abs(w).sum())
    # the defining formula, per the property's reading: each face extended by ITS rule applied to the field itself
    yb = np.array(brute_conv(spec, w))
    if not (np.abs(yb - y).max() <= tol * sc):
        e = int(np.nan_to_num(np.abs(yb - y), nan=np.inf).argmax())
        why = f"output[{e}] = {y[e]!r} but the padded convolution formula gives {yb[e]!r}"
        if has_nonclean_axis(spec, w.shape):
            return why + " (pad wider than the array with mixed boundary modes on an axis)", FINDING_KEY
        return why, None
    no_const = all(isinstance(b, str) for b in bc) and not spec.get("ov")
    nonneg_sum_one = bool(w.min() >= 0.0) and abs(w.sum() - 1.0) <= 1e-12
    if spec.get("weights") is None:
        # "as every radius kernel does": non-negative, sums to one, mirror-symmetric in every axis
        if not nonneg_sum_one:
            return f"radius kernel is not a non-negative kernel summing to one: min {w.min()!r}, sum {w.sum()!r}", None
        if not all(np.abs(w - np.flip(w, axis=a)).max() <= 1e-15 for a in range(3)):
            return "radius kernel is not mirror-symmetric", None
        # the radius kernel is THE cone: weight max(0, r - d) at every element offset (distances in element sizes for absolute
        # units), normalised, offsets limited to one domain width per axis; evaluated here offset by offset, independent of the
        # code's half-width arithmetic
        nelx, nely, nelz = spec["dom"]
        es_ = [1.0, 1.0, 1.0] if spec.get("rel", True) else list(spec.get("es") or [1.0, 1.0, 1.0])
        r_ = float(spec["radius"])
        lim = [nelx, nely, nelz]
        ref = {}
        for a in range(-lim[0], lim[0] + 1):
            for b in range(-lim[1], lim[1] + 1):
                for c in range(-lim[2], lim[2] + 1):
                    v = r_ - float(np.sqrt((a * es_[0]) ** 2 + (b * es_[1]) ** 2 + (c * es_[2]) ** 2))
                    if v > 0:
                        ref[(a, b, c)] = v
        tot = sum(ref.values())
        hw = [k // 2 for k in w.shape]
        if tot > 0:
            for (a, b, c), v in ref.items():
                inside = abs(a) <= hw[0] and abs(b) <= hw[1] and abs(c) <= hw[2]
                got = float(w[a + hw[0], b + hw[1], c + hw[2]]) if inside else 0.0
                if abs(got - v / tot) > 1e-9:
                    return (f"radius kernel is not the normalised cone max(0, r - d): weight at element offset {(a, b, c)} is {got!r}, "
                            f"the cone gives {v / tot!r} (radius {r_!r}, element sizes {es_}, kernel shape {list(w.shape)})"), None
    why = oracle_common(m, spec, y, tol, nonneg_sum_one, no_const)
    if why:
        return why, None
    # volume: symmetric padding everywhere + kernel mirror-symmetric in every axis  =>  sum y = sum(w) * sum x
    if all(b == 'symmetric' for b in bc) and not spec.get("ov"):
        msym = all(np.abs(w - np.flip(w, axis=a)).max() <= 1e-15 for a in range(3))
        if msym:
            if not (abs(y.sum() - w.sum() * x.sum()) <= tol * sc * len(x)):
                return f"volume not preserved: sum y = {y.sum()!r}, sum(w)*sum x = {(w.sum() * x.sum())!r}", None
    return None, None


def oracle_dens(spec, m=None):
    if m is None:
        m, _ = build_dens(spec)
    x = np.array(spec["x"], dtype=float)
    y = _run(m, x)
    sc = max(1.0, np.abs(x).max())
    if spec.get("nonpadding") is None:
        yb = np.array(brute_dens(spec))
        if not (np.abs(yb - y).max() <= 1e-9 * sc):
            e = int(np.nan_to_num(np.abs(yb - y), nan=np.inf).argmax())
            return f"output[{e}] = {y[e]!r} but the cone-weighted average over all elements is {yb[e]!r}"
    return oracle_common(m, spec, y, 1e-9, spec.get("nonpadding") is None, True)


# ----------------------------------------------------------------------------------------------
# generators
# ----------------------------------------------------------------------------------------------
CONSTS = [1.0, 0.0, 0.25, -0.5]


def gen_dom(rng, small=False):
    if rng.random() < 0.45:
        hi = 3 if small else 4
        dom = [rng.randint(1, hi), rng.randint(1, hi), rng.randint(1, 3)]
    else:
        hi = 4 if small else 6
        dom = [rng.randint(1, hi), rng.randint(1, hi), 0]
    if rng.random() < 0.25:  # one-element-wide
        dom[rng.randrange(2)] = 1
    return dom


def gen_mode(rng):
    r = rng.random()
    if r < 0.3:
        return 'symmetric'
    if r < 0.5:
        return 'edge'
    if r < 0.7:
        return 'wrap'
    return rng.choice(CONSTS)


def gen_field(rng, n, dyadic=True):
    if dyadic:
        return [rng.randint(-8, 8) / 4 for _ in range(n)]
    return [rng.uniform(-1.0, 2.0) for _ in range(n)]


def gen_pad(rng, n):
    r = rng.random()
    if r < 0.15:
        return 0
    if r < 0.65:
        return rng.randint(1, max(1, n))
    return rng.randint(n + 1, 3 * n)


def gen_kernel(rng, dom, kind):
    n = [dom[0], dom[1], max(dom[2], 1)]
    for _ in range(50):
        p = [gen_pad(rng, n[0]), gen_pad(rng, n[1]), gen_pad(rng, n[2]) if dom[2] > 0 or rng.random() < 0.3 else 0]
        K = [2 * v + 1 for v in p]
        if K[0] * K[1] * K[2] * n[0] * n[1] * n[2] <= 6000:
            break
    else:
        K = [3, 1, 1]
    size = K[0] * K[1] * K[2]
    if kind == "general":
        w = np.array([rng.randint(-4, 8) / 8 for _ in range(size)]).reshape(K)
    elif kind == "sumone":  # non-negative, sums to one exactly (multiples of 1/64)
        cnt = [0] * size
        for _ in range(64):
            cnt[rng.randrange(size)] += 1
        w = np.array(cnt, dtype=float).reshape(K) / 64
    else:  # mirror-symmetric, non-negative dyadic
        h = np.array([rng.randint(0, 6) / 8 for _ in range(size)]).reshape(K)
        w = h.copy()
        for a in range(3):
            w = w + np.flip(w, axis=a)
        if w.sum() == 0:
            w[K[0] // 2, K[1] // 2, K[2] // 2] = 1.0
    return w


def gen_overrides(rng, dom):
    n = [dom[0], dom[1], max(dom[2], 1)]
    out = []
    for _ in range(rng.randint(1, 2)):
        kind = rng.random()
        if kind < 0.5:
            pts = [[rng.randrange(n[0]), rng.randrange(n[1]), rng.randrange(n[2])] for _ in range(rng.randint(1, 3))]
        elif kind < 0.8:  # a slab (as a slice would select)
            a = rng.randrange(3)
            v = rng.randrange(n[a])
            pts = [[i, j, k] for i in range(n[0]) for j in range(n[1]) for k in range(n[2]) if [i, j, k][a] == v]
        else:  # a random mask
            pts = [[i, j, k] for i in range(n[0]) for j in range(n[1]) for k in range(n[2]) if rng.random() < 0.3]
            if not pts:
                pts = [[0, 0, 0]]
        out.append({"pts": pts, "v": rng.choice([0.0, 1.0, 0.25])})
    return out


def near_multiple(r, d):
    v = (r - 1e-10 * d) / d
    return abs(v - round(v)) < 1e-9


# ----------------------------------------------------------------------------------------------
# comparison of one FilterConv case
# ----------------------------------------------------------------------------------------------
def compare_conv(ctx, stream, spec, out, mres, exact):
    if "ok" not in mres:
        ctx.disagree(stream, spec, "ok", mres, "model error")
        return
    mo = mres["ok"]
    if "error" in mo:
        ctx.disagree(stream, spec, "ok", mo, "model rejects, implementation accepts")
        return
    key = (stream, str(spec["dom"]), str(spec["bc"]), str(spec.get("weights") if spec.get("weights") is None else out["k"]),
           str(spec.get("radius")), str(spec.get("rel")), str(spec.get("es")), str(spec["x"][:6]), len(spec.get("ov", [])))
    if mo["k"] != out["k"] or mo["pad"] != out["pad"]:
        ctx.disagree(stream, spec, {"k": out["k"], "pad": out["pad"]}, {"k": mo["k"], "pad": mo["pad"]},
                     "kernel shape / padded index map differ")
        return
    my, mdx = frlist(mo["y"]), frlist(mo["dx"])
    if exact:
        ctx.compare_exact(stream, spec, [[Fraction(v) for v in out["y"].tolist()], [Fraction(v) for v in out["dx"].tolist()]],
                          [my, mdx], key=key)
    else:
        mw = frlist(mo["w"])
        sc = max(1.0, max(abs(v) for v in spec["x"]), max(abs(v) for v in spec["g"])) * max(1.0, float(np.abs(out["w"]).sum()))
        ctx.compare_close(stream, spec, out["w"].flatten().tolist() + out["y"].tolist() + out["dx"].tolist(),
                          mw + my + mdx, rtol=1e-9, atol=1e-11, scale=sc, key=key)


def uses_fft(m, spec):
    """scipy.signal.convolve(method='auto') may pick the FFT for larger arrays: then the float result is not exact"""
    try:
        from scipy.signal import choose_conv_method
        xp = m.get_padded_vector(np.array(spec["x"], dtype=float))
        a = choose_conv_method(xp, m.weights, mode='valid')
        g = np.array(spec["g"], dtype=float)[m.el3d_orig]
        b = choose_conv_method(g, m.weights, mode='full')
        return a != 'direct' or b != 'direct'
    except Exception:
        return True


def run_conv_cases(ctx, stream, specs, exact, oracle_every=1):
    reqs, outs = [], []
    for t, spec in enumerate(specs):
        r = call_impl(impl_conv, spec)
        if r[0] == "err":
            ctx.disagree(stream, spec, r[1], "ok", r[2])
            continue
        out, m = r[1]
        ex = exact and not uses_fft(m, spec)
        if exact and not ex:
            ctx.branch("conv.fft_fallback_tolerance")
        if t % oracle_every == 0:
            why, fkey = oracle_conv(spec, m, exact=ex)
            if why:
                ctx.oracle_fail(why, {"op": "conv", **spec}, key=fkey)
                if fkey:
                    ctx.branch("oracle.conv.known_finding_deviation")
            ctx.branch("oracle.conv.formula_nonclean_axis" if has_nonclean_axis(spec, out["k"]) else "oracle.conv.formula")
        reqs.append(req_conv(spec))
        outs.append((spec, out, ex))
        nelx, nely, nelz = spec["dom"]
        ctx.branch("conv.3d" if nelz else "conv.2d")
        n = [nelx, nely, max(nelz, 1)]
        if 1 in (nelx, nely):
            ctx.branch("conv.one_wide")
        if any(k // 2 > nn for k, nn in zip(out["k"], n)):
            ctx.branch("conv.pad_gt_size")
        for b in spec["bc"]:
            ctx.branch("mode." + (b if isinstance(b, str) else "const"))
        if spec.get("ov"):
            ctx.branch("conv.value_override")
        if nelz == 0 and out["k"][2] > 1:
            ctx.branch("conv.3dkernel_on_2d_domain")
    res = ctx.model(reqs)
    for (spec, out, ex), mres in zip(outs, res):
        compare_conv(ctx, stream, spec, out, mres, ex)
    return outs


# ----------------------------------------------------------------------------------------------
# correspondence
# ----------------------------------------------------------------------------------------------
def correspondence(ctx):
    rng = ctx.rng
    quick = ctx.quick

    # ---- 1. dyadic kernels, exact ---------------------------------------------------------------
    specs = []
    for t in range(70 if quick else 700):
        dom = gen_dom(rng, small=True)
        nel = dom[0] * dom[1] * max(dom[2], 1)
        kind = ["general", "sumone", "mirror"][t % 3]
        w = gen_kernel(rng, dom, kind)
        if kind == "mirror" and rng.random() < 0.7:
            bc = ['symmetric'] * 6
        elif kind == "sumone" and rng.random() < 0.6:
            bc = [rng.choice(['symmetric', 'edge', 'wrap']) for _ in range(6)]
        else:
            bc = [gen_mode(rng) for _ in range(6)]
        spec = {"kind": "conv", "dom": dom, "bc": bc, "weights": w.tolist(), "x": gen_field(rng, nel), "g": gen_field(rng, nel),
                "ov": gen_overrides(rng, dom) if rng.random() < 0.25 and kind == "general" else []}
        specs.append(spec)
    outs = run_conv_cases(ctx, "conv.exact", specs, exact=True)
    if outs:
        s, o, _ = outs[0]
        ctx.sample({"stream": "conv.exact", "dom": s["dom"], "bc": s["bc"], "kernel_shape": o["k"], "y": o["y"].tolist()[:6]})

    # ---- 2. radius kernels, tolerance -----------------------------------------------------------
    specs = []
    for t in range(60 if quick else 600):
        dom = gen_dom(rng)
        nel = dom[0] * dom[1] * max(dom[2], 1)
        rel = rng.random() < 0.5
        es = [rng.choice([0.5, 1.0, 2.0, 0.7, 1.3]) for _ in range(3)] if rng.random() < 0.7 else [1.0, 1.0, 1.0]
        L = max(dom[0] * (1.0 if rel else es[0]), dom[1] * (1.0 if rel else es[1]), max(dom[2], 1) * (1.0 if rel else es[2]))
        rr = rng.random()
        if rr < 0.15:
            radius = rng.uniform(0.3, 1.0) * (1.0 if rel else min(es))
        elif rr < 0.25:   # at / next to a multiple of an element size (boundary of int())
            radius = rng.randint(1, 3) * (1.0 if rel else rng.choice(es)) + rng.choice([0.0, 1e-12, -1e-12, 1e-10, 2e-10])
        else:
            radius = rng.uniform(0.3, 3.0 * L)
        if t % 10 == 2:
            # 3-D, absolute units, three DIFFERENT element sizes in every order, radius between one and three of the smallest:
            # the kernel half-width of every axis goes by that axis' own element size
            dom = [rng.randint(2, 3), rng.randint(2, 3), rng.randint(2, 3)]
            nel = dom[0] * dom[1] * dom[2]
            rel = False
            es = list(list(itertools.permutations([1.0, 1.3, 0.5]))[(t // 10) % 6])
            radius = rng.uniform(1.05, 2.9)
            L = max(dom[i_] * es[i_] for i_ in range(3))
        if not rel and rng.random() < 0.5:
            # the same filter in other length units (exact power-of-two factor on element sizes AND radius): same kernel
            fu = 2.0 ** rng.choice([-36, -33, -33, -30, -20, 20])
            es, radius = [v * fu for v in es], radius * fu
            ctx.branch("radius.absolute.rescaled_units")
        ds = [1.0, 1.0, 1.0] if rel else es
        if any(near_multiple(radius, d) for d in ds):
            ctx.skipped_boundary += 1
            continue
        # keep the model affordable: kernel entries * elements
        h = [min(n, int(radius / d)) for n, d in zip(dom, ds)]
        if (2 * h[0] + 1) * (2 * h[1] + 1) * (2 * h[2] + 1) * nel > 9000:
            continue
        bc = ['symmetric'] * 6 if rng.random() < 0.3 else [gen_mode(rng) for _ in range(6)]
        if rng.random() < 0.3:
            bc = [rng.choice(['symmetric', 'edge', 'wrap']) for _ in range(6)]
        spec = {"kind": "conv", "dom": dom, "es": es, "bc": bc, "weights": None, "radius": radius, "rel": rel,
                "x": gen_field(rng, nel, dyadic=rng.random() < 0.5), "g": gen_field(rng, nel, dyadic=False),
                "ov": gen_overrides(rng, dom) if rng.random() < 0.15 else []}
        specs.append(spec)
        ctx.branch("radius.relative" if rel else "radius.absolute")
        ctx.branch("radius.gt_domain" if radius > L else ("radius.lt_element" if radius < min(ds) else "radius.mid"))
    outs = run_conv_cases(ctx, "conv.radius", specs, exact=False)
    if outs:
        s, o, _ = outs[0]
        ctx.sample({"stream": "conv.radius", "dom": s["dom"], "radius": s["radius"], "rel": s["rel"], "es": s["es"],
                    "kernel_shape": o["k"], "y": o["y"].tolist()[:6]})

    # ---- 3. every combination of boundary modes on small grids ----------------------------------
    m5 = ['symmetric', 'edge', 'wrap', 1.0, 0.25]
    m4 = ['symmetric', 'edge', 'wrap', 0.5]
    combos = []
    grids2 = [([3, 2, 0], [3, 3, 1]), ([1, 2, 0], [5, 3, 1]), ([2, 3, 0], [7, 1, 1])]
    for gi, (dom, K) in enumerate(grids2):
        for bc4 in itertools.product(m5, repeat=4):
            combos.append((dom, K, list(bc4) + ['symmetric', 'symmetric']))
    for bc6 in itertools.product(m4, repeat=6):
        combos.append(([2, 2, 2], [3, 3, 3], list(bc6)))
    for bc6 in itertools.product(['symmetric', 'edge', 'wrap'], repeat=6):
        combos.append(([1, 2, 1], [3, 5, 5], list(bc6)))
    for bcx in itertools.product(m5, repeat=2):       # 3-D kernel on a 2-D domain: x and z faces
        for bcz in itertools.product(m5, repeat=2):
            combos.append(([2, 1, 0], [3, 1, 3], list(bcx) + ['symmetric', 'symmetric'] + list(bcz)))
    if quick:
        combos = rng.sample(combos, 90)
    specs = []
    for dom, K, bc in combos:
        nel = dom[0] * dom[1] * max(dom[2], 1)
        w = np.array([rng.randint(-4, 8) / 8 for _ in range(K[0] * K[1] * K[2])]).reshape(K)
        specs.append({"kind": "conv", "dom": dom, "bc": bc, "weights": w.tolist(), "x": gen_field(rng, nel),
                      "g": gen_field(rng, nel), "ov": []})
    run_conv_cases(ctx, "conv.modes", specs, exact=True, oracle_every=1 if quick else 3)
    ctx.branch("modes.combinations", len(specs))

    # ---- 3b. self-test of the comparison (thorough): a deliberately wrong model input must be noticed -----------
    if not quick:
        # (symmetric vs edge cannot be told apart with pad 1, so one x face must be wrap or a constant)
        st = [sp for sp in specs if sp["bc"][0] != sp["bc"][1] and sp["dom"][0] >= 2
              and any(b == 'wrap' or not isinstance(b, str) for b in sp["bc"][:2])][:25]
        wrong = []
        for sp in st:
            r = dict(req_conv(sp))
            r["bc"] = [r["bc"][1], r["bc"][0]] + r["bc"][2:]   # swap the x faces in the model only
            wrong.append(r)
        res = ctx.model(wrong)
        seen = 0
        for sp, mres in zip(st, res):
            out = call_impl(impl_conv, sp)
            if out[0] != "ok" or "ok" not in mres or "error" in mres["ok"]:
                continue
            o = out[1][0]
            if mres["ok"]["pad"] != o["pad"] or [float(v) for v in frlist(mres["ok"]["y"])] != o["y"].tolist():
                seen += 1
        ctx.branch("selftest.swapped_faces_detected", seen)
        ctx.branch("selftest.swapped_faces_cases", len(st))
        if st and seen == 0:
            ctx.notes.append("SELF-TEST: swapping the x faces in the model input was not detected by the comparison")

    # ---- 4. DensityFilter -----------------------------------------------------------------------
    reqs, outs = [], []
    for t in range(100 if quick else 500):
        dom = gen_dom(rng)
        if t % 7 == 0:
            dom = [rng.randint(3, 7), rng.randint(3, 7), 0]
        nel = dom[0] * dom[1] * max(dom[2], 1)
        L = max(dom[0], dom[1], max(dom[2], 1))
        rr = rng.random()
        radius = rng.uniform(0.3, 1.0) if rr < 0.15 else (float(rng.randint(1, 4)) if rr < 0.3 else rng.uniform(0.3, 3.0 * L))
        if 0.3 <= rr < 0.55:
            # next to a lattice distance sqrt(m) (m = i^2 + j^2 + k^2) or just below an integer: the limits of the search window
            # and of any distance table sit exactly there
            m_ = rng.choice([1, 2, 3, 4, 5, 6, 8, 9, 10, 13, 16])
            radius = rng.choice([math.sqrt(m_) + rng.choice([-0.05, -1e-3, 1e-3, 0.05]), float(rng.randint(2, 5)) - rng.choice([0.02, 0.1, 0.2])])
        if t % 9 == 1:
            # window corners farther away than the radius: a radius just below an integer k on a domain wider than k elements in
            # two directions (2-D: k >= 4; 3-D: k >= 3)
            if t % 18 == 1:
                dom, radius = [rng.randint(5, 7), rng.randint(5, 7), 0], float(rng.randint(4, 5)) - rng.choice([0.01, 0.05, 0.09])
            else:
                dom, radius = [rng.randint(4, 5), rng.randint(4, 5), rng.randint(3, 4)], 3.0 - rng.choice([0.01, 0.05, 0.15])
            nel = dom[0] * dom[1] * max(dom[2], 1)
            L = max(dom[0], dom[1], max(dom[2], 1))
        if radius > 9.5:
            radius = rng.uniform(0.3, 9.5)
        npd = sorted(rng.sample(range(nel), rng.randint(0, nel))) if rng.random() < 0.25 else None
        spec = {"kind": "dens", "dom": dom, "radius": radius, "nonpadding": npd, "x": gen_field(rng, nel, dyadic=rng.random() < 0.5),
                "g": gen_field(rng, nel, dyadic=False)}
        r = call_impl(impl_dens, spec)
        if r[0] == "err":
            ctx.disagree("dens", spec, r[1], "ok", r[2])
            continue
        out, m = r[1]
        why = oracle_dens(spec, m)
        if why:
            ctx.oracle_fail(why, {"op": "dens", **spec})
        reqs.append(req_dens(spec))
        outs.append((spec, out))
        ctx.branch("dens.3d" if dom[2] else "dens.2d")
        ctx.branch("dens.radius_lt_1" if radius < 1 else ("dens.radius_gt_domain" if radius > L else "dens.radius_mid"))
        if npd is not None:
            ctx.branch("dens.nonpadding")
    res = ctx.model(reqs)
    for (spec, out), mres in zip(outs, res):
        if "ok" not in mres or "error" in mres["ok"]:
            ctx.disagree("dens", spec, "ok", mres, "model error")
            continue
        mo = mres["ok"]
        sc = max(1.0, max(abs(v) for v in spec["x"]), max(abs(v) for v in spec["g"]))
        ctx.compare_close("dens", spec, out["y"].tolist() + out["dx"].tolist() + out["Hs"].tolist(),
                          frlist(mo["y"]) + frlist(mo["dx"]) + frlist(mo["Hs"]), rtol=1e-9, atol=1e-11, scale=sc,
                          key=("dens", str(spec["dom"]), spec["radius"], str(spec["nonpadding"]), str(spec["x"][:6])))
    if outs:
        s, o = outs[0]
        ctx.sample({"stream": "dens", "dom": s["dom"], "radius": s["radius"], "y": o["y"].tolist()[:6]})

    # ---- 4b. DensityFilter, LARGE radii (offsets whose squared length exceeds 255 / whose components exceed 15): the definition
    #          on the real code only (brute-force cone-weighted average, range, constants) — outside the model stream because of
    #          the size of the exact rational computation
    for t in range(3 if quick else 15):
        if t % 3 == 0:
            dom, radius = [rng.randint(14, 18), rng.randint(13, 15), 0], rng.uniform(12.2, 16.0)
        elif t % 3 == 1:
            dom, radius = [rng.randint(36, 44), 1, 0], rng.uniform(16.5, 24.0)
        else:
            dom, radius = [11, rng.randint(10, 11), rng.randint(10, 11)], rng.uniform(10.1, 11.5)
        nel = dom[0] * dom[1] * max(dom[2], 1)
        spec = {"kind": "dens", "dom": dom, "radius": radius, "nonpadding": None, "x": gen_field(rng, nel, dyadic=False),
                "g": gen_field(rng, nel, dyadic=False)}
        r = call_impl(impl_dens, spec)
        if r[0] == "err":
            ctx.disagree("dens.large", spec, r[1], "ok", r[2])
            continue
        why = oracle_dens(spec, r[1][1])
        ctx.evaluations += 1
        ctx.distinct.add(("dens.large", str(dom), radius))
        if why:
            ctx.oracle_fail(why, {"op": "dens", **spec})
        ctx.branch("dens.radius_large." + ("3d" if dom[2] else "2d"))

    # ---- 5. malformed ---------------------------------------------------------------------------
    reqs, impls, specs = [], [], []
    for t in range(12 if quick else 60):
        dom = gen_dom(rng, small=True)
        nel = dom[0] * dom[1] * max(dom[2], 1)
        what = t % 4
        if what == 0:   # even kernel
            K = [rng.choice([1, 2, 3, 4]), rng.choice([2, 4]), 1]
            rng.shuffle(K)
            if dom[2] == 0:
                K = [K[0] if K[0] % 2 == 0 or K[1] % 2 == 0 else 2, K[1], 1]
            n = nel
        elif what == 1:  # too short
            K = [3, 3, 1]
            n = rng.randint(0, nel - 1)
        elif what == 2:  # too long: accepted, extra entries are zero / untouched
            K = [3, 1, 1]
            n = nel + rng.randint(1, 3)
        else:
            K = [1, 3, 1]
            n = nel
        w = np.array([rng.randint(0, 8) / 8 for _ in range(K[0] * K[1] * K[2])]).reshape(K)
        spec = {"kind": "conv", "dom": dom, "bc": [gen_mode(rng) for _ in range(6)], "weights": w.tolist(),
                "x": gen_field(rng, n), "g": gen_field(rng, n), "ov": []}
        r = call_impl(impl_conv, spec)
        reqs.append(req_conv(spec))
        impls.append(r)
        specs.append(spec)
    res = ctx.model(reqs)
    for spec, r, mres in zip(specs, impls, res):
        mo = mres.get("ok", {})
        if r[0] == "err":
            ctx.branch("malformed." + r[1])
            ctx.compare_exact("malformed", spec, r[1], mo.get("error") if isinstance(mo, dict) else None,
                              key=("malformed", r[1], str(spec["dom"]), len(spec["x"])))
        else:
            ctx.branch("malformed.accepted")
            compare_conv(ctx, "malformed", spec, r[1][0], mres, True)
    # DensityFilter with a vector of the wrong length
    reqs, impls, specs = [], [], []
    for t in range(4 if quick else 20):
        dom = gen_dom(rng, small=True)
        nel = dom[0] * dom[1] * max(dom[2], 1)
        n = nel + rng.choice([-1, 1, 2]) if nel > 1 else nel + 1
        spec = {"kind": "dens", "dom": dom, "radius": rng.uniform(0.5, 3.0), "nonpadding": None, "x": gen_field(rng, n), "g": gen_field(rng, n)}
        impls.append(call_impl(impl_dens, spec))
        reqs.append(req_dens(spec))
        specs.append(spec)
    res = ctx.model(reqs)
    for spec, r, mres in zip(specs, impls, res):
        mo = mres.get("ok", {})
        ctx.branch("malformed.dens." + (r[1] if r[0] == "err" else "accepted"))
        ctx.compare_exact("malformed", spec, r[1] if r[0] == "err" else "ok", mo.get("error", "ok") if isinstance(mo, dict) else None,
                          key=("malformed.dens", str(spec["dom"]), len(spec["x"])))


# ----------------------------------------------------------------------------------------------
# search / replay
# ----------------------------------------------------------------------------------------------
def _oracle_spec(spec):
    """returns (failure text or None, known-finding key or None)"""
    if spec.get("kind") == "dens":
        r = call_impl(oracle_dens, spec)
        if r[0] == "err":
            return f"raises {r[2]}", None
        return r[1], None
    r = call_impl(oracle_conv, spec)
    if r[0] == "err":
        return f"raises {r[2]}", None
    return r[1]


def _witness(why, fkey, spec):
    return {"what": why, "witness": {"op": spec.get("kind", "conv"), **spec}, "finding_key": fkey}


def search(ctx, disagreements):
    found = []
    seen = 0
    for dct in disagreements:
        spec = dct.get("case") or {}
        if not isinstance(spec, dict) or "dom" not in spec or dct.get("stream") == "malformed":
            continue
        seen += 1
        why, fkey = _oracle_spec(spec)
        if why:
            found.append(_witness(why, fkey, spec))
        elif spec.get("kind") == "dens" and spec.get("nonpadding") is not None:
            sp2 = dict(spec, nonpadding=None)       # the same filter without the normalisation override: defining formula applies
            why, fkey = _oracle_spec(sp2)
            if why:
                found.append(_witness(why, fkey, sp2))
        if len([f for f in found if not f["finding_key"]]) >= 3 or seen > 30:
            break
    if not [f for f in found if not f["finding_key"]]:
        # neighbours of the disagreeing cases: the same case with the element sizes permuted / absolute units / a 3-D grid
        import itertools
        tried = 0
        for dct in disagreements:
            spec = (dct or {}).get("case") or {}
            if not isinstance(spec, dict) or spec.get("kind") != "conv" or spec.get("radius") is None or "es" not in spec:
                continue
            for es in itertools.permutations(spec["es"]):
                for dom in ([spec["dom"]] + ([[spec["dom"][0], spec["dom"][1], 3]] if spec["dom"][2] in (0, 1) else [])):
                    nel = dom[0] * dom[1] * max(dom[2], 1)
                    sp = dict(spec, es=list(es), rel=False, dom=dom)
                    if nel != len(spec["x"]):
                        sp["x"], sp["g"] = gen_field(ctx.rng, nel), gen_field(ctx.rng, nel)
                    tried += 1
                    why, fkey = _oracle_spec(sp)
                    if why:
                        found.append(_witness(why, fkey, sp))
            if tried > 120 or len([f for f in found if not f["finding_key"]]) >= 3:
                break
    if not [f for f in found if not f["finding_key"]]:
        # sweep: small grids, all-symmetric / mixed modes, radius and dyadic kernels
        rng = ctx.rng
        for t in range(150):
            dom = gen_dom(rng, small=True)
            nel = dom[0] * dom[1] * max(dom[2], 1)
            if t % 3 == 0:
                spec = {"kind": "dens", "dom": dom, "radius": rng.uniform(0.3, 6.0), "nonpadding": None,
                        "x": gen_field(rng, nel), "g": gen_field(rng, nel)}
            elif t % 3 == 1:
                unit = t % 2 == 0
                spec = {"kind": "conv", "dom": dom, "es": [1.0, 1.0, 1.0] if unit else [rng.choice([0.5, 0.7, 1.0, 1.3, 2.0]) for _ in range(3)],
                        "bc": [gen_mode(rng) for _ in range(6)], "weights": None,
                        "radius": rng.uniform(0.3, 5.0), "rel": unit, "x": gen_field(rng, nel), "g": gen_field(rng, nel), "ov": []}
            else:
                w = gen_kernel(rng, dom, ["general", "sumone", "mirror"][t % 9 // 3])
                spec = {"kind": "conv", "dom": dom, "bc": ['symmetric'] * 6 if t % 2 else [gen_mode(rng) for _ in range(6)],
                        "weights": w.tolist(), "x": gen_field(rng, nel), "g": gen_field(rng, nel), "ov": []}
            why, fkey = _oracle_spec(spec)
            if why:
                found.append(_witness(why, fkey, spec))
                if len([f for f in found if not f["finding_key"]]) >= 3:
                    break
    found.sort(key=lambda w: (bool(w["finding_key"]), len(str(w["witness"]))))
    return found


def replay(ctx, data):
    w = data.get("witness", {})
    w = w.get("witness", w)
    if not isinstance(w, dict) or "dom" not in w:
        return {"still_failing": False, "note": "replay file names no failing input (see no_longer_checks)"}
    spec = dict(w)
    spec["kind"] = "dens" if w.get("op") == "dens" or w.get("kind") == "dens" else "conv"
    why, fkey = _oracle_spec(spec)
    return {"still_failing": bool(why), "what": why, "known_finding": fkey}


# ----------------------------------------------------------------------------------------------
# open known findings
# ----------------------------------------------------------------------------------------------
FINDING_WITNESS = {"kind": "conv", "dom": [2, 1, 0], "bc": ['symmetric', 7.0, 'symmetric', 'symmetric', 'symmetric', 'symmetric'],
                   "weights": [[0.0], [0.0], [0.0], [0.0], [0.0], [0.0], [1.0]], "x": [3.0, 5.0], "g": [1.0, 0.0], "ov": []}


def probe_wide_pad_mixed_modes(ctx):
    """replays the witness of corpus/defects/pending/c09_sym_const_wide_pad.py on the real code"""
    why, fkey = oracle_conv(FINDING_WITNESS)
    if why and fkey == FINDING_KEY:
        return "witness 2x1 domain, 7x1 kernel, xmin symmetric, xmax 7.0: " + why
    return None


FINDING_PROBES = {FINDING_KEY: probe_wide_pad_mixed_modes}
