"""C10 — MMA iterates respect bounds and move limits and converge on convex problems
(pymoto/common/mma.py, pymoto/routines.py minimize_mma, pymoto/utils.py)

observation: `pymoto.common.mma.subsolv` and `MMA.mmasub` are replaced by recording wrappers inside the harness
process (arguments, return value, memory `offset xold1 xold2` before the call, number of `np.linalg.solve` calls);
`fn_callback` records the states of the variable signals at every iteration.

watchdog: every run of the real optimiser is under a wall-clock budget (SIGALRM inside the harness process, >= 20 s, quick
tier; x3 thorough); the recording callback checks after EVERY write-back that the states of the variable signals are the
split of the design vector (x0, then the last sub-problem solution) and stops the run at the first violation; a run that is
stopped or times out is a correspondence disagreement, what was recorded so far goes to the oracle, and a time-out on a
problem the model completes is itself reported with the problem as failing input.  The quick tier starts no new case after
120 s of running the real code (noted in the evidence).

correspondence (model `Core/MMA.lean` run at Float)
  sens    : for EVERY recorded call, the gradients `dg` handed to mmasub vs the model's per-response sensitivity
            collection (`collectSens`: a variable signal whose sensitivity is None contributes zeros) fed with the
            independently computed gradient slices of the connected signals (tolerance 1e-9)
  mmasub  : for EVERY recorded call, the model's `mmasubPre` from the recorded memory and (xval, g, dg) vs the recorded
            arguments `low upp alfa beta P Q b epsimin` of subsolv and the new offset (tolerance 1e-9)
  subsolv : for EVERY recorded call, the model's `subsolv` on the recorded arguments vs the returned
            `x y z lam xsi eta mu zet s` (tolerance 1e-6); calls whose number of Newton steps differs between model and
            code (a line-search / stopping decision on its threshold) are counted as boundary and skipped
  run     : the model's whole outer loop on the same parametrised problem vs the states at every callback, as long as the
            steps are large (prefix rule), the scalar/array kind of every written state, the stop reason
  expand  : xmin / xmax / move given as scalar, per signal, per variable (and wrong lengths) vs `MMA.xmin/xmax/move` after
            `response()` with maxit = 0 (exact), write-back kinds
  writeback: the states the real `MMA.response()` writes in its first pass (maxit = 1, stopped at the first callback) vs the
            model's `writeBackMMA` of the same design (exact); the layouts [array, scalar], [array, scalar, array, scalar],
            [array(k), array(1), scalar] with the scalar as Python float / np.float64 / 0-d array come first in every run of
            the `expand`/`writeback` and `run` streams
oracle (on the real code, independent of the model), for every recorded call
  low < alfa <= xval <= beta < upp, xmin <= alfa, beta <= xmax, xval - alfa <= move*dx, beta - xval <= move*dx;
  the approximation reproduces g_i and grad g_i of the TEST PROBLEM at xval (value and gradient computed independently
  of the optimiser; responses are connected to random subsets of the variable signals, so None sensitivities occur),
  the dg handed to mmasub is that gradient; the returned point has alfa < x < beta and
  y z lam xsi eta mu zet s > 0 and its KKT residual (epsi = 0) is <= 20 * epsimin*sqrt(m+n);
  every iterate lies in [xmin, xmax] and moves by at most move*(xmax-xmin); states go to the right signals.
  Observed (partial): with default asymptote parameters the last iterate is close to the constructed optimum x* and the
  constraints are satisfied.
"""
import io
import math
import signal
import struct
import time
import warnings
from contextlib import redirect_stdout

import numpy as np

from ..common import call_impl, close

RULE = ("random convex problems g_i = k + l.x + x.H.x/2 + sum B/(x+s) (separable or dense PSD H) with a constructed KKT point x*, "
        "1-4 constraints (linear or convex separable, at least one active), 2-40 variables over 1-4 signals incl. python-float / "
        "numpy scalar states; with >= 2 signals 70% of the problems connect responses (constraints, 10% also the objective, then maxit <= 4) to random "
        "subsets of the signals only (one module on the subset or one module chain per signal + adder), "
        "numpy scalar states, xmin xmax move each scalar / per signal / per variable, versions Svanberg1987 / Svanberg2007, random "
        "albefa asyinit asyincr asydecr asybound, maxit 3-12 (quick) / up to 40; distinct = distinct recorded subsolv calls")
ASSUMPTIONS = [
    "m = 0 (no constraint) is outside the property (np.min / max(g[1:]) of an empty array)",
    "np.linalg.solve (LAPACK gesv) is an external contract; the model runs Gaussian elimination with partial pivoting at Float",
    "NaN propagation of np.min/np.max is not modelled (no NaN occurs in the generated problems)",
    "subsolv comparison tolerance 1e-6 (relative to the scale of each block); Newton-count mismatches are boundary skips",
    "whole-run comparison stops at the first iteration whose relative step is below 1e-3 (afterwards the sign tests of the "
    "asymptote update act on differences at rounding level)",
    "convergence to the optimum is observed only (default asymptote parameters), it is not a theorem",
    "wall-clock budget per run of the real optimiser: max(20 s, 0.02 s * n * maxit * #responses), x3 in the thorough tier "
    "(normal runs take 0.05-2 s); quick tier: no new problem after 120 s of running the real code",
]

FUEL = 60


def _pm():
    import pymoto
    return pymoto


class RunTimeout(Exception):
    """raised inside the harness process by the watchdog when a run of the real code exceeds its budget"""


class StopRun(Exception):
    """raised by the recording callback at the first observed property violation: the run is not continued"""


class watchdog:
    """SIGALRM based wall-clock budget around ONE run of the real code (main thread of the harness process)"""

    def __init__(self, seconds):
        self.seconds = float(seconds)
        self.fired = False

    def _handler(self, signum, frame):
        self.fired = True
        raise RunTimeout(f"run of the real code exceeded its budget of {self.seconds:.0f} s")

    def __enter__(self):
        self.old = signal.signal(signal.SIGALRM, self._handler)
        signal.setitimer(signal.ITIMER_REAL, self.seconds)
        return self

    def __exit__(self, *a):
        signal.setitimer(signal.ITIMER_REAL, 0)
        signal.signal(signal.SIGALRM, self.old)
        return False


def run_budget(p, quick=True):
    """calibrated per-case budget: normal runs take 0.05-2 s (slowest seen on a loaded machine: 6 s)"""
    n = sum(p["sizes"])
    return max(20.0, 0.02 * n * p["maxit"] * len(p["resp"])) * (1.0 if quick else 3.0)


class fast_init_loc:
    def __enter__(self):
        import pymoto.core_objects as co
        self.co, self.orig = co, co.get_init_str
        co.get_init_str = lambda: "File \"<verif>\", line 0, in harness"

    def __exit__(self, *a):
        self.co.get_init_str = self.orig


def bits2f(b):
    return struct.unpack("<d", struct.pack("<Q", int(b)))[0]


def dec(v):
    if isinstance(v, list):
        return [dec(w) for w in v]
    if isinstance(v, int):
        return bits2f(v)
    if isinstance(v, dict):
        return {k: dec(w) for k, w in v.items()}
    return v


# ------------------------------------------------------------------------------------------------
# recording wrappers
# ------------------------------------------------------------------------------------------------
class Recorder:
    """patches pymoto.common.mma.subsolv, MMA.mmasub and (during subsolv) numpy.linalg.solve"""

    def __init__(self):
        self.calls = []
        self.cur = None

    def __enter__(self):
        import pymoto.common.mma as mm
        self.mm = mm
        self.orig_subsolv = mm.subsolv
        self.orig_mmasub = mm.MMA.mmasub
        rec = self

        def subsolv(epsimin, low, upp, alfa, beta, P, Q, a0, a, b, c, d, x0=None):
            args = dict(epsimin=float(epsimin), low=np.array(low, dtype=float), upp=np.array(upp, dtype=float),
                        alfa=np.array(alfa, dtype=float), beta=np.array(beta, dtype=float), P=np.array(P, dtype=float),
                        Q=np.array(Q, dtype=float), a0=float(a0), a=np.array(a, dtype=float), b=np.array(b, dtype=float),
                        c=np.array(c, dtype=float), d=np.array(d, dtype=float),
                        x0=None if x0 is None else np.array(x0, dtype=float))
            cnt = [0]
            orig_solve = np.linalg.solve

            def solve(A, bvec):
                cnt[0] += 1
                return orig_solve(A, bvec)
            np.linalg.solve = solve
            try:
                ret = rec.orig_subsolv(epsimin, low, upp, alfa, beta, P, Q, a0, a, b, c, d, x0=x0)
            finally:
                np.linalg.solve = orig_solve
            x, y, z, lam, xsi, eta, mu, zet, s = ret
            out = dict(x=np.array(x, dtype=float), y=np.array(y, dtype=float), z=float(z), lam=np.array(lam, dtype=float),
                       xsi=np.array(xsi, dtype=float), eta=np.array(eta, dtype=float), mu=np.array(mu, dtype=float),
                       zet=float(zet), s=np.array(s, dtype=float))
            entry = {"args": args, "out": out, "newton": cnt[0]}
            if rec.cur is not None:
                entry.update(rec.cur)
            rec.calls.append(entry)
            return ret

        def mmasub(self_, xval, g, dg):
            cp = lambda v: None if v is None else np.array(v, dtype=float)  # noqa
            rec.cur = {"mem": {"offset": cp(self_.offset), "xold1": cp(self_.xold1), "xold2": cp(self_.xold2)},
                       "xval": np.array(xval, dtype=float), "g": np.array(g, dtype=float), "dg": np.array(dg, dtype=float),
                       "obj": self_}
            try:
                r = rec.orig_mmasub(self_, xval, g, dg)
                if rec.calls and rec.calls[-1].get("obj") is self_:
                    rec.calls[-1]["offset_after"] = cp(self_.offset)
                    rec.calls[-1]["xmin"] = np.array(self_.xmin, dtype=float)
                    rec.calls[-1]["xmax"] = np.array(self_.xmax, dtype=float)
                    rec.calls[-1]["move"] = np.array(self_.move, dtype=float) * np.ones(self_.n)
                return r
            finally:
                rec.cur = None
        mm.subsolv = subsolv
        mm.MMA.mmasub = mmasub
        return self

    def __exit__(self, *a):
        self.mm.subsolv = self.orig_subsolv
        self.mm.MMA.mmasub = self.orig_mmasub


# ------------------------------------------------------------------------------------------------
# problems
# ------------------------------------------------------------------------------------------------
def resp_value(r, x):
    v = r["k"] + float(np.dot(r["l"], x)) + float(np.sum(r["B"] / (x + r["s"])))
    if r["H"] is not None:
        v += 0.5 * float(x @ (r["H"] @ x))
    return v


def resp_grad(r, x):
    gx = r["l"] - r["B"] / ((x + r["s"]) * (x + r["s"]))
    if r["H"] is not None:
        gx = gx + r["H"] @ x
    return gx


_MOD = None


def resp_module():
    global _MOD
    if _MOD is not None:
        return _MOD
    pm = _pm()

    class Resp(pm.Module):
        """one response, connected ONLY to the variable signals it depends on (`idx` = their global variable indices);
        the other variable signals are never touched by its back-propagation (their sensitivity stays None)"""

        def _prepare(self, r, idx):
            idx = np.asarray(idx, dtype=int)
            self.r = {"k": r["k"], "l": r["l"][idx], "B": r["B"][idx], "s": r["s"],
                      "H": None if r["H"] is None else r["H"][np.ix_(idx, idx)]}

        def _cat(self):
            return np.concatenate([np.ravel(np.asarray(s.state, dtype=float)) for s in self.sig_in])

        def _response(self, *xs):
            return np.float64(resp_value(self.r, self._cat()))

        def _sensitivity(self, df):
            gx = df * resp_grad(self.r, self._cat())
            out, pos = [], 0
            for s in self.sig_in:
                st = s.state
                k = int(np.size(st))
                out.append(float(gx[pos]) if np.ndim(st) == 0 else gx[pos:pos + k].reshape(np.shape(st)))
                pos += k
            return out

    class AddUp(pm.Module):
        def _prepare(self, const):
            self.const = const

        def _response(self, *ys):
            return np.float64(self.const + sum(float(y) for y in ys))

        def _sensitivity(self, df):
            return [df for _ in self.sig_in]

    Resp.AddUp = AddUp
    _MOD = Resp
    return Resp


def spec_full(spec, sizes):
    """expand a ('s', v) / ('sig', [..]) / ('var', [..]) specification the way the property describes it"""
    n = sum(sizes)
    if spec[0] == "s":
        return np.full(n, float(spec[1]))
    if spec[0] == "sig":
        return np.concatenate([np.full(k, float(v)) for k, v in zip(sizes, spec[1])]) if sizes else np.zeros(0)
    return np.array(spec[1], dtype=float)


def spec_arg(spec):
    if spec[0] == "s":
        return float(spec[1])
    return np.array(spec[1], dtype=float) if spec[0] == "var" or len(spec[1]) % 2 else [float(v) for v in spec[1]]


def spec_req(spec):
    return {"s": float(spec[1])} if spec[0] == "s" else {"v": [float(v) for v in spec[1]]}


def gen_spec(rng, sizes, lo, hi, scalars, positive_gap=None):
    n, nsig = sum(sizes), len(sizes)
    r = rng.random()
    if r < 0.4:
        return ("s", rng.choice(scalars))
    if r < 0.7:
        return ("sig", [rng.uniform(lo, hi) for _ in range(nsig)])
    return ("var", [rng.uniform(lo, hi) for _ in range(n)])


SCALAR_KINDS = ["pyfloat", "npfloat", "0d"]


def forced_layouts(rng):
    """signal layouts in which a size-1 signal FOLLOWS a multi-entry signal (its offset in the design vector differs from
    its position in the signal list); every scalar representation occurs"""
    out = []
    for K in SCALAR_KINDS:
        out.append([(3, "arr"), (1, K)])
        out.append([(2, "arr"), (1, K), (3, "arr"), (1, rng.choice(SCALAR_KINDS))])
        out.append([(rng.randint(2, 5), "arr"), (1, "arr"), (1, K)])
    return out


def gen_problem(ctx, tiny=False, layout=None):
    rng = ctx.rng
    nsig = rng.randint(1, 4)
    nmax = 40 if not ctx.quick else 16
    sizes, kinds = [], []
    for _ in range(nsig):
        if rng.random() < 0.2:
            sizes.append(1)
            kinds.append(rng.choice(["pyfloat", "npfloat", "0d", "arr"]))
        else:
            sizes.append(rng.randint(1, max(1, nmax // nsig)))
            kinds.append("arr")
    if sum(sizes) < 2:
        sizes[0] += rng.randint(1, 4)
        kinds[0] = "arr"
    if layout is not None:
        sizes, kinds = [k for k, _ in layout], [kd for _, kd in layout]
        nsig = len(sizes)
    n = sum(sizes)
    m = rng.randint(1, 4)
    xmin_s = gen_spec(rng, sizes, -0.5, 0.3, [0.0, 0.0, 0.1, -1.0])
    xmax_s = gen_spec(rng, sizes, 1.0, 3.0, [1.0, 1.0, 2.0, 5.0])
    if nsig >= 2 and rng.random() < 0.2:
        # variables with different ranges (one signal 2^5 ... 2^7 times wider): every criterion of the optimiser works in units of
        # the per-variable range.  (Ranges beyond ~1e4 are NOT generated: there the floating-point Newton iteration of the real
        # sub-problem solver breaks down -- open known finding mma-subsolv-nan-wide-ranges.)
        his = [rng.uniform(1.0, 3.0) for _ in range(nsig)]
        his[rng.randrange(nsig)] *= 2.0 ** rng.choice([5, 6, 7])
        xmax_s = ("sig", his)
    move_s = gen_spec(rng, sizes, 0.05, 0.6, [0.1, 0.1, 0.2, 0.5, 1.0])
    xmin, xmax = spec_full(xmin_s, sizes), spec_full(xmax_s, sizes)
    dx = xmax - xmin
    # the optimum: interior, a few variables on a bound
    xs = xmin + dx * np.array([rng.uniform(0.15, 0.85) for _ in range(n)])
    onb = np.zeros(n, dtype=int)
    for j in range(n):
        r = rng.random()
        if r < 0.08:
            xs[j], onb[j] = xmin[j], -1
        elif r < 0.16:
            xs[j], onb[j] = xmax[j], 1
    shift = float(-np.min(xmin) + rng.uniform(0.5, 1.5))          # x + shift > 0 on the whole box
    kind = rng.choice(["separable", "separable", "quadratic"])
    resp = []
    # constraints first (their gradients at x* enter the objective)
    nact = rng.randint(1, min(m, 2))
    cons = []
    for k in range(m):
        if rng.random() < 0.6:
            r = {"l": np.array([rng.uniform(0.2, 1.5) for _ in range(n)]) / n, "B": np.zeros(n), "s": shift, "H": None}
        else:
            r = {"l": np.zeros(n), "B": np.array([rng.uniform(0.2, 1.5) for _ in range(n)]) / n, "s": shift, "H": None}
            if rng.random() < 0.5:
                r["l"] = np.array([rng.uniform(0.0, 0.5) for _ in range(n)]) / n
        r["k"] = 0.0
        slack = 0.0 if k < nact else rng.uniform(0.05, 0.5)
        r["k"] = -resp_value(r, xs) - slack
        cons.append(r)
    # responses that are connected to a SUBSET of the variable signals only (the others keep sensitivity None)
    cumg = np.concatenate([[0], np.cumsum(sizes)]).astype(int)
    masked = nsig >= 2 and rng.random() < 0.7
    masks = [None] * (m + 1)

    def in_mask(mask):
        v = np.zeros(n)
        for k in mask:
            v[cumg[k]:cumg[k + 1]] = 1.0
        return v
    if masked:
        for k in range(m + 1):
            if k == 0 and rng.random() < 0.9:
                continue                                       # the objective mostly sees everything
            if rng.random() < 0.8:
                cnt = rng.randint(1, nsig - 1)
                masks[k] = sorted(rng.sample(range(nsig), cnt))
        if all(mk is None for mk in masks[1:]):
            k = rng.randint(1, m)
            masks[k] = sorted(rng.sample(range(nsig), rng.randint(1, nsig - 1)))
    for k in range(m):
        if masks[k + 1] is not None:
            r = cons[k]
            keep = in_mask(masks[k + 1])
            r["l"], r["B"] = r["l"] * keep, r["B"] * keep
            r["mask"] = masks[k + 1]
            slack = 0.0 if k < nact else rng.uniform(0.05, 0.5)
            r["k"] = 0.0
            r["k"] = -resp_value(r, xs) - slack
    mu = [rng.uniform(0.3, 3.0) if k < nact else 0.0 for k in range(m)]
    obj = {"k": rng.uniform(-1, 1), "s": shift, "H": None}
    obj["B"] = np.array([rng.uniform(0.3, 3.0) for _ in range(n)]) if kind == "separable" or rng.random() < 0.3 else np.zeros(n)
    if kind == "quadratic":
        r_ = rng.randint(1, min(n, 4))
        F = np.array([[rng.uniform(-1, 1) for _ in range(n)] for _ in range(r_)])
        obj["H"] = F.T @ F / r_ + np.diag([rng.uniform(0.5, 2.0) for _ in range(n)])
    elif rng.random() < 0.3:
        obj["H"] = np.diag([rng.uniform(0.0, 2.0) for _ in range(n)])
    obj["l"] = np.zeros(n)
    g0 = resp_grad(obj, xs)
    lag = g0 + sum(mu[k] * resp_grad(cons[k], xs) for k in range(m))
    rho = np.array([rng.uniform(0.2, 1.0) for _ in range(n)])
    obj["l"] = -lag + np.where(onb == -1, rho, 0.0) - np.where(onb == 1, rho, 0.0)
    xs_valid = True
    if masks[0] is not None:
        keep = in_mask(masks[0])
        obj["l"], obj["B"] = obj["l"] * keep, obj["B"] * keep
        if obj["H"] is not None:
            obj["H"] = obj["H"] * np.outer(keep, keep)
        obj["mask"] = masks[0]
        xs_valid = False                                       # x* is no longer the KKT point of the problem
    resp = [obj] + cons
    # start
    x0 = xmin + dx * np.array([rng.uniform(0.05, 0.95) for _ in range(n)])
    wide = dx > 100.0
    if wide.any():
        # the wide-range variables start next to their optimum (a start far away makes the first sub-problems so badly scaled that
        # the floating-point Newton iteration of the sub-problem solver breaks down: outside the exact-arithmetic statement)
        x0 = np.where(wide, np.clip(xs + 1e-4 * dx * np.array([rng.uniform(-1, 1) for _ in range(n)]), xmin + 1e-3 * dx, xmax - 1e-3 * dx), x0)
    if rng.random() < 0.15:
        j = rng.randrange(n)
        x0[j] = xmin[j] if rng.random() < 0.5 else xmax[j]
    default_asy = rng.random() < 0.45
    opts = {"a0": 1.0, "epsimin": rng.choice([1e-10, 1e-10, 1e-7, 1e-9]),
            "albefa": 0.1 if default_asy else rng.choice([0.1, 0.05, 0.3, 0.5]),
            "asyinit": 0.5 if default_asy else rng.choice([0.5, 0.2, 0.9, 0.1]),
            "asyincr": 1.2 if default_asy else rng.choice([1.2, 1.1, 1.5, 1.05]),
            "asydecr": 0.7 if default_asy else rng.choice([0.7, 0.5, 0.9, 0.65]),
            "asybound": 10.0 if default_asy else rng.choice([10.0, 5.0, 100.0, 10]),
            "mmaversion": rng.choice(["Svanberg2007", "Svanberg1987", "Svanberg2007", "MMA1987", "mma2007"])}
    acoef = [0.0] * m if rng.random() < 0.8 else [rng.choice([0.0, 1.0, 0.5]) for _ in range(m)]
    ccoef = [1000.0] * m if rng.random() < 0.7 else [rng.choice([1000.0, 100.0, 1e4]) for _ in range(m)]
    maxit = rng.randint(3, 12) if ctx.quick else rng.randint(3, 40)
    if not xs_valid:
        maxit = min(maxit, 4)       # sub-problems of an objective that ignores some variables are slow to solve (Newton caps)
    # an all-integer start design handed over in integer dtype (every variable at a whole number inside its bounds)
    intstart = False
    if rng.random() < 0.2 and float(np.max(xmax - xmin)) < 100.0:
        xi = np.ceil(xmin + 1e-9)
        if np.all(xi <= xmax - 1e-9):
            x0 = np.where(np.floor(xmax - 1e-9) > xi, xi + (np.arange(n) % 2), xi).astype(float)
            x0 = np.minimum(x0, np.floor(xmax - 1e-9))
            intstart = True
    # two variable signals initialised with the SAME array object (each must still receive its own slice of every new design)
    share = []
    cum_ = np.concatenate([[0], np.cumsum(sizes)]).astype(int)
    pairs = [(i, j) for i in range(nsig) for j in range(i + 1, nsig) if kinds[i] == kinds[j] == "arr" and sizes[i] == sizes[j]]
    if pairs and rng.random() < 0.35:
        i, j = rng.choice(pairs)
        seg = np.array(x0[cum_[i]:cum_[i + 1]], dtype=float)
        if np.all(seg >= xmin[cum_[j]:cum_[j + 1]]) and np.all(seg <= xmax[cum_[j]:cum_[j + 1]]):
            x0 = np.array(x0, dtype=float)
            x0[cum_[j]:cum_[j + 1]] = seg
            share.append([i, j])
    return {"sizes": sizes, "kinds": kinds, "resp": resp, "x0": x0, "xs": xs, "xmin": xmin_s, "xmax": xmax_s, "move": move_s,
            "share": share if not intstart else [], "intstart": intstart, "opts": opts, "a": acoef, "c": ccoef, "tolx": rng.choice([1e-4, 1e-4, 0.0, 1e-6]),
            "tolf": rng.choice([0.0, 0.0, 0.0, 1e-6]), "maxit": maxit, "entry": rng.choice(["MMA", "minimize_mma"]),
            "default_asy": default_asy, "kind": kind, "mu": mu, "xs_valid": xs_valid, "chains": rng.random() < 0.5,
            "masked": masked}


def make_states(p):
    out, pos = [], 0
    for k, kind in zip(p["sizes"], p["kinds"]):
        v = p["x0"][pos:pos + k]
        if p.get("intstart"):     # integer-typed start design (np.ones(n, dtype=int), a Python int): later designs are floats
            out.append(int(round(v[0])) if kind in ("pyfloat", "npfloat") else
                       np.array(int(round(v[0])), dtype=np.int64) if kind == "0d" else np.array([int(round(t)) for t in v], dtype=np.int64))
            pos += k
            continue
        out.append(float(v[0]) if kind == "pyfloat" else np.float64(v[0]) if kind == "npfloat" else
                   np.array(v[0], dtype=float) if kind == "0d" else np.array(v, dtype=float))
        pos += k
    return out


def run_impl(p):
    """run the real optimiser; returns dict(trace, calls, states, raises?)"""
    pm = _pm()
    Resp = resp_module()
    with fast_init_loc():
        sigs = [pm.Signal(f"x{i}", st) for i, st in enumerate(make_states(p))]
        for i_, j_ in p.get("share", []):
            sigs[j_].state = sigs[i_].state
        outs = [pm.Signal(f"g{i}") for i in range(len(p["resp"]))]
        cum = np.concatenate([[0], np.cumsum(p["sizes"])]).astype(int)
        mods = []
        for ri, (o, r) in enumerate(zip(outs, p["resp"])):
            mask = r.get("mask")
            ks = list(range(len(sigs))) if mask is None else list(mask)
            if r["H"] is None and p.get("chains") and len(ks) > 1:
                # separate module chain per signal, summed up afterwards
                parts = []
                for k in ks:
                    part = pm.Signal(f"g{ri}_{k}")
                    rk = dict(r, k=0.0)
                    mods.append(Resp([sigs[k]], part, rk, np.arange(cum[k], cum[k + 1])))
                    parts.append(part)
                mods.append(Resp.AddUp(parts, o, r["k"]))
            else:
                idx = np.concatenate([np.arange(cum[k], cum[k + 1]) for k in ks])
                mods.append(Resp([sigs[k] for k in ks], o, r, idx))
        net = pm.Network(mods)
    trace = []
    info = {}
    sizes = p["sizes"]
    cum = np.concatenate([[0], np.cumsum(sizes)]).astype(int)

    def cb():
        st = [("scalar", float(s.state)) if np.ndim(s.state) == 0 else ("arr", [float(v) for v in np.ravel(s.state)])
              for s in sigs]
        trace.append(st)
        # online: the states just written must be the split of the design vector (x0, then the last sub-problem solution)
        want = np.asarray(p["x0"], dtype=float) if not rec.calls else rec.calls[-1]["out"]["x"]
        for k, (kind, val) in enumerate(st):
            w = want[cum[k]:cum[k + 1]]
            got = np.array([val] if kind == "scalar" else val, dtype=float)
            if got.size != w.size or not np.array_equal(got, w):
                info["violation"] = (f"iteration {len(trace) - 1}: state written to variable signal {k} is {got.tolist()}, but the "
                                     f"slice [{cum[k]}:{cum[k + 1]}] of the design vector is {w.tolist()} (signal sizes {sizes})")
                raise StopRun(info["violation"])
            if (kind == "scalar") != (sizes[k] == 1):
                info["violation"] = (f"iteration {len(trace) - 1}: variable signal {k} of size {sizes[k]} was written as "
                                     f"{'a scalar' if kind == 'scalar' else 'an array'}")
                raise StopRun(info["violation"])
    kw = dict(p["opts"])
    kw.update(tolx=p["tolx"], tolf=p["tolf"], maxit=p["maxit"], move=spec_arg(p["move"]), xmin=spec_arg(p["xmin"]),
              xmax=spec_arg(p["xmax"]), fn_callback=cb, verbosity=0, a=np.array(p["a"], dtype=float),
              c=np.array(p["c"], dtype=float))
    budget = p.get("_budget") or run_budget(p)
    t0 = time.time()
    wd = watchdog(budget)
    with Recorder() as rec, warnings.catch_warnings(), np.errstate(all="ignore"), redirect_stdout(io.StringIO()):
        warnings.simplefilter("ignore")
        try:
            with wd:
                if p["entry"] == "MMA":
                    import pymoto.common.mma as mm
                    r = call_impl(lambda: mm.MMA(net, sigs, outs, **kw).response())
                else:
                    r = call_impl(pm.minimize_mma, net, sigs, outs, **kw)
        except RunTimeout as e:     # the alarm went off outside call_impl
            r = ("err", "RunTimeout", str(e))
    states = [("scalar", float(s.state)) if np.ndim(s.state) == 0 else ("arr", [float(v) for v in np.ravel(s.state)]) for s in sigs]
    out = {"trace": trace, "calls": rec.calls, "states": states, "seconds": time.time() - t0}
    if r[0] == "err":
        out["raises"], out["msg"] = r[1], r[2]
    if wd.fired:
        out["timeout"] = budget
        out["raises"] = "RunTimeout"
    if "violation" in info:
        out["violation"] = info["violation"]
    return out


# ------------------------------------------------------------------------------------------------
# oracle on the recorded calls
# ------------------------------------------------------------------------------------------------
def kkt_residual(a_, o):
    """max |KKT residual| (epsi = 0) of the returned point, computed independently of pymoto.common.mma.residual"""
    x, y, z, lam, xsi, eta, mu, zet, s = (o[k] for k in ("x", "y", "z", "lam", "xsi", "eta", "mu", "zet", "s"))
    P, Q, low, upp, alfa, beta = a_["P"], a_["Q"], a_["low"], a_["upp"], a_["alfa"], a_["beta"]
    ux, xl = upp - x, x - low
    p = P[0] + lam @ P[1:]
    q = Q[0] + lam @ Q[1:]
    res = [p / ux ** 2 - q / xl ** 2 - xsi + eta,
           a_["c"] + a_["d"] * y - mu - lam,
           [a_["a0"] - zet - float(a_["a"] @ lam)],
           P[1:] @ (1 / ux) + Q[1:] @ (1 / xl) - a_["a"] * z - y + s - a_["b"],
           xsi * (x - alfa), eta * (beta - x), mu * y, [zet * z], lam * s]
    return max(float(np.max(np.abs(np.asarray(r)))) for r in res if np.size(r))


def oracle_call(p, call, idx):
    a_, o = call["args"], call["out"]
    n = a_["low"].size
    low, upp, alfa, beta = a_["low"], a_["upp"], a_["alfa"], a_["beta"]
    xval = call.get("xval", a_["x0"])
    xmin, xmax, move = call.get("xmin"), call.get("xmax"), call.get("move")
    if xmin is None:
        xmin, xmax, move = (spec_full(p[k], p["sizes"]) for k in ("xmin", "xmax", "move"))
    dx = xmax - xmin
    if not (np.all(xmin <= xval) and np.all(xval <= xmax) and np.all(dx > 0) and np.all(move > 0)):
        return None
    eps = 1e-14 * (1 + np.abs(xval) + dx)

    def first(mask):
        return int(np.argmax(mask))
    for nm, bad in (("low < alfa", ~(low < alfa)), ("alfa <= xval", ~(alfa <= xval)), ("xval <= beta", ~(xval <= beta)),
                    ("beta < upp", ~(beta < upp)), ("xmin <= alfa", ~(xmin <= alfa)), ("beta <= xmax", ~(beta <= xmax)),
                    ("xval - alfa <= move*dx", ~(xval - alfa <= move * dx + eps)),
                    ("beta - xval <= move*dx", ~(beta - xval <= move * dx + eps))):
        if np.any(bad):
            j = first(bad)
            return (f"call {idx}: {nm} fails at variable {j}: low={low[j]!r} alfa={alfa[j]!r} xval={xval[j]!r} beta={beta[j]!r} "
                    f"upp={upp[j]!r} xmin={xmin[j]!r} xmax={xmax[j]!r} move*dx={move[j] * dx[j]!r}")
    # the gradient of every response of the TEST PROBLEM at the current design, computed here (not taken from the optimiser)
    true_dg = np.array([resp_grad(r, xval) for r in p["resp"]])
    true_g = np.array([resp_value(r, xval) for r in p["resp"]])
    if true_dg.shape == a_["P"].shape:
        P, Q = a_["P"], a_["Q"]
        ux, xl = upp - xval, xval - low
        grad = P / ux ** 2 - Q / xl ** 2
        sc = 1.0 + float(np.max(np.abs(true_dg)))
        if float(np.max(np.abs(grad - true_dg))) > 1e-8 * sc:
            i, j = np.unravel_index(int(np.argmax(np.abs(grad - true_dg))), true_dg.shape)
            return (f"call {idx}: gradient of the approximation of response {i} w.r.t. variable {j} is {grad[i, j]!r}, the "
                    f"derivative of the response is {true_dg[i, j]!r}")
        val = (P[1:] @ (1 / ux) + Q[1:] @ (1 / xl)) - a_["b"]
        sv = 1.0 + float(np.max(np.abs(true_g))) + float(np.max(np.abs(P[1:] @ (1 / ux) + Q[1:] @ (1 / xl))))
        if float(np.max(np.abs(val - true_g[1:]))) > 1e-9 * sv:
            i = int(np.argmax(np.abs(val - true_g[1:])))
            return f"call {idx}: approximation of constraint {i + 1} at the current design is {val[i]!r}, the constraint value is {true_g[i + 1]!r}"
    if "g" in call:
        g, dg = call["g"], call["dg"]
        P, Q = a_["P"], a_["Q"]
        ux, xl = upp - xval, xval - low
        grad = P / ux ** 2 - Q / xl ** 2
        sc = 1.0 + float(np.max(np.abs(dg)))
        if dg.shape == true_dg.shape and float(np.max(np.abs(dg - true_dg))) > 1e-9 * sc:
            i, j = np.unravel_index(int(np.argmax(np.abs(dg - true_dg))), dg.shape)
            return (f"call {idx}: sensitivity of response {i} w.r.t. variable {j} handed to mmasub is {dg[i, j]!r}, the derivative "
                    f"of the response is {true_dg[i, j]!r}")
        if float(np.max(np.abs(grad - dg))) > 1e-8 * sc:
            i, j = np.unravel_index(int(np.argmax(np.abs(grad - dg))), dg.shape)
            return f"call {idx}: gradient of the approximation of response {i} w.r.t. variable {j} is {grad[i, j]!r}, not {dg[i, j]!r}"
        val = (P[1:] @ (1 / ux) + Q[1:] @ (1 / xl)) - a_["b"]
        sv = 1.0 + float(np.max(np.abs(g))) + float(np.max(np.abs(P[1:] @ (1 / ux) + Q[1:] @ (1 / xl))))
        if float(np.max(np.abs(val - g[1:]))) > 1e-9 * sv:
            i = int(np.argmax(np.abs(val - g[1:])))
            return f"call {idx}: approximation of constraint {i + 1} at the current design is {val[i]!r}, not {g[i + 1]!r}"
    x = o["x"]
    if not (np.all(alfa < x) and np.all(x < beta)):
        j = first(~((alfa < x) & (x < beta)))
        return f"call {idx}: returned x[{j}] = {x[j]!r} not strictly inside ({alfa[j]!r}, {beta[j]!r})"
    for nm in ("y", "lam", "xsi", "eta", "mu", "s"):
        if not np.all(o[nm] > 0):
            return f"call {idx}: returned {nm} is not positive: {o[nm].tolist()}"
    if not (o["z"] > 0 and o["zet"] > 0):
        return f"call {idx}: returned z = {o['z']!r}, zet = {o['zet']!r} not positive"
    res = kkt_residual(a_, o)
    lim = 20 * a_["epsimin"] * (1 + 0.0) + 1e-13 * (1 + float(np.max(np.abs(a_["b"]))) + float(np.max(np.abs(a_["c"]))))
    if call["newton"] < 390 and res > lim:
        return f"call {idx}: KKT residual {res!r} of the returned point exceeds {lim!r} (epsimin = {a_['epsimin']!r})"
    return None


def flat_state(st):
    return [v for kind, val in st for v in ([val] if kind == "scalar" else val)]


def oracle_run(p, out):
    if "violation" in out:
        return out["violation"]
    if "raises" in out and not out.get("timeout"):
        return None
    sizes = p["sizes"]
    xmin, xmax, move = (spec_full(p[k], sizes) for k in ("xmin", "xmax", "move"))
    dx = xmax - xmin
    for idx, call in enumerate(out["calls"]):
        why = oracle_call(p, call, idx)
        if why:
            return why
    designs = [np.array(flat_state(st)) for st in out["trace"]]
    for k, (st, x) in enumerate(zip(out["trace"], designs)):
        if [1 if kind == "scalar" else len(val) for kind, val in st] != sizes:
            return f"iteration {k}: sizes of the written states {[1 if kind == 'scalar' else len(val) for kind, val in st]} != {sizes}"
        if not (np.all(x >= xmin) and np.all(x <= xmax)):
            j = int(np.argmax((x < xmin) | (x > xmax)))
            return f"iteration {k}: x[{j}] = {x[j]!r} outside [{xmin[j]!r}, {xmax[j]!r}]"
        if k > 0:
            d = np.abs(x - designs[k - 1])
            lim = move * dx * (1 + 1e-12) + 1e-14
            if np.any(d > lim):
                j = int(np.argmax(d - lim))
                return f"iteration {k}: |x[{j}] - previous| = {d[j]!r} exceeds move*(xmax-xmin) = {move[j] * dx[j]!r}"
        if k < len(out["calls"]):
            # the design handed to the sub-problem is the one written to the signals: right values in the right signals
            if not np.array_equal(out["calls"][k].get("xval", out["calls"][k]["args"]["x0"]), x):
                return f"iteration {k}: the design used by mmasub differs from the states of the variable signals"
        if k > 0 and k - 1 < len(out["calls"]):
            if not np.array_equal(out["calls"][k - 1]["out"]["x"], x):
                return f"iteration {k}: the states of the variable signals are not the sub-problem solution of iteration {k - 1}"
    return None


def convergence_stats(p, out):
    """observed (partial): distance of the last design to the constructed optimum, relative to the box, and feasibility"""
    if "raises" in out or not out["trace"]:
        return None
    xmin, xmax = (spec_full(p[k], p["sizes"]) for k in ("xmin", "xmax"))
    x = np.array(flat_state(out["states"]))
    x0 = np.array(flat_state(out["trace"][0]))
    d0 = float(np.max(np.abs(x0 - p["xs"]) / (xmax - xmin)))
    d1 = float(np.max(np.abs(x - p["xs"]) / (xmax - xmin)))
    gmax = max(resp_value(r, x) for r in p["resp"][1:])
    return d0, d1, gmax


# ------------------------------------------------------------------------------------------------
# requests for the model
# ------------------------------------------------------------------------------------------------
def fl(a):
    return [float(v) for v in np.ravel(a)]


def opts_req(o):
    return {k: (o[k] if k == "mmaversion" else float(o[k])) for k in
            ("a0", "epsimin", "albefa", "asyinit", "asyincr", "asydecr", "asybound", "mmaversion")}


def req_mmasub(p, call):
    n = call["xval"].size
    m = len(p["resp"]) - 1
    mem = call["mem"]
    rq = {"m": "c10.mmasub", "n": n, "xmin": fl(call["xmin"]), "xmax": fl(call["xmax"]), "move": fl(call["move"]),
          "a": fl(p["a"]), "c": fl(p["c"]), "offset": None if mem["offset"] is None else fl(mem["offset"]),
          "xold1": None if mem["xold1"] is None else fl(mem["xold1"]), "xold2": None if mem["xold2"] is None else fl(mem["xold2"]),
          "xval": fl(call["xval"]), "g": fl(call["g"]), "dg": [fl(r) for r in call["dg"]]}
    rq.update(opts_req(p["opts"]))
    rq["mcons"] = m
    return rq


def req_sens(p, call, written):
    """what back-propagation of each response alone leaves in the variable signals (from the independently computed
    gradient; None for the signals the response is not connected to) -> the model's collection"""
    cum = np.concatenate([[0], np.cumsum(p["sizes"])]).astype(int)
    xval = call["xval"]
    sens = []
    for r in p["resp"]:
        gr = resp_grad(r, xval)
        mask = r.get("mask")
        sens.append([fl(gr[cum[k]:cum[k + 1]]) if (mask is None or k in mask) else None for k in range(len(p["sizes"]))])
    states = [{"scalar": float(v)} if kind == "scalar" else {"arr": [float(w) for w in v]} for kind, v in written]
    return {"m": "c10.sens", "states": states, "sens": sens}


def req_subsolv(call):
    a_ = call["args"]
    return {"m": "c10.subsolv", "n": int(a_["low"].size), "mcons": int(a_["a"].size), "epsimin": a_["epsimin"], "low": fl(a_["low"]),
            "upp": fl(a_["upp"]), "alfa": fl(a_["alfa"]), "beta": fl(a_["beta"]), "P": [fl(r) for r in a_["P"]],
            "Q": [fl(r) for r in a_["Q"]], "a0": a_["a0"], "a": fl(a_["a"]), "b": fl(a_["b"]), "c": fl(a_["c"]), "d": fl(a_["d"]),
            "x0": None if a_["x0"] is None else fl(a_["x0"]), "fuel": FUEL}


def req_run(p):
    pos, states = 0, []
    for k in p["sizes"]:
        states.append(fl(p["x0"][pos:pos + k]))
        pos += k
    rq = {"m": "c10.run", "states": states,
          "responses": [{"k": float(r["k"]), "l": fl(r["l"]), "B": fl(r["B"]), "s": float(r["s"]),
                         "H": None if r["H"] is None else [fl(row) for row in r["H"]], "mask": r.get("mask")} for r in p["resp"]],
          "tolx": float(p["tolx"]), "tolf": float(p["tolf"]), "maxit": int(p["maxit"]), "xmin": spec_req(p["xmin"]),
          "xmax": spec_req(p["xmax"]), "move": spec_req(p["move"]), "a": fl(p["a"]), "c": fl(p["c"]), "fuel": FUEL}
    rq.update(opts_req(p["opts"]))
    return rq


def describe(p):
    return {"sizes": p["sizes"], "kinds": p["kinds"], "x0": fl(p["x0"]), "xmin": list(p["xmin"]), "xmax": list(p["xmax"]),
            "move": list(p["move"]), "opts": p["opts"], "a": p["a"], "c": p["c"], "tolx": p["tolx"], "tolf": p["tolf"],
            "maxit": p["maxit"], "entry": p["entry"], "kind": p["kind"],
            "resp": [{"k": float(r["k"]), "l": fl(r["l"]), "B": fl(r["B"]), "s": float(r["s"]),
                      "H": None if r["H"] is None else [fl(row) for row in r["H"]], "mask": r.get("mask")} for r in p["resp"]],
            "xs": fl(p["xs"]), "xs_valid": p.get("xs_valid", True), "chains": p.get("chains", False),
            "share": p.get("share", []), "intstart": p.get("intstart", False)}


def undescribe(d):
    p = dict(d)
    p["x0"] = np.array(d["x0"], dtype=float)
    p["xs"] = np.array(d["xs"], dtype=float)
    for k in ("xmin", "xmax", "move"):
        p[k] = tuple(d[k])
    p["resp"] = [{"k": r["k"], "l": np.array(r["l"]), "B": np.array(r["B"]), "s": r["s"],
                  "H": None if r["H"] is None else np.array(r["H"]), "mask": r.get("mask")} for r in d["resp"]]
    p.setdefault("default_asy", False)
    p.setdefault("mu", [])
    return p


# ------------------------------------------------------------------------------------------------
# streams
# ------------------------------------------------------------------------------------------------
def cmp_blocks(ctx, stream, case, pairs, rtol, atol, key):
    """pairs: list of (name, impl_array, model_array, scale)"""
    for nm, a, b, sc in pairs:
        a, b = np.ravel(np.asarray(a, dtype=float)), np.ravel(np.asarray(b, dtype=float))
        if a.size != b.size:
            ctx.disagree(stream, case, a.tolist(), b.tolist(), f"{nm}: size {a.size} vs {b.size}")
            return False
        ok, why = close(a.tolist(), b.tolist(), rtol, atol, sc)
        if not ok:
            ctx.mode("T")
            ctx.disagree(stream, case, a.tolist(), b.tolist(), f"{nm}: {why}")
            return False
    ctx.mode("T")
    ctx.agree(key)
    return True


QUICK_WALL_CAP = 120.0     # quick tier: no new case is started after this many seconds of running the real code


def finite_call(call):
    return all(np.all(np.isfinite(np.asarray(v, dtype=float))) for v in list(call["args"].values()) + list(call["out"].values())
               if v is not None) and all(np.all(np.isfinite(call[k])) for k in ("xval", "g", "dg") if k in call)


def stream_runs(ctx, nprob):
    probs, outs = [], []
    layouts = forced_layouts(ctx.rng)
    t_start = time.time()
    for t in range(nprob):
        if ctx.quick and time.time() - t_start > QUICK_WALL_CAP:
            ctx.notes.append(f"run stream: generation stopped after {t} of {nprob} problems (wall-time cap of the quick tier, "
                             f"{QUICK_WALL_CAP:.0f} s of running the real code)")
            ctx.branch("run.wall_cap_reached")
            break
        p = gen_problem(ctx, layout=layouts[t] if t < len(layouts) else None)
        if not ctx.quick:
            p["_budget"] = run_budget(p, quick=False)
        out = run_impl(p)
        why = oracle_run(p, out)
        if why:
            ctx.oracle_fail(why, {"op": "run", "problem": describe(p)})
        if out.get("timeout"):
            ctx.branch("run.watchdog_timeout")
        if "violation" in out:
            ctx.branch("run.stopped_at_first_violation")
        if t < len(layouts):
            ctx.branch("run.layout." + "+".join(("arr%d" % k if kd == "arr" else kd) for k, kd in layouts[t]))
        probs.append(p)
        outs.append(out)
    # ---- per-call requests
    reqs, meta = [], []
    for pi, (p, out) in enumerate(zip(probs, outs)):
        for ci, call in enumerate(out["calls"]):
            if not finite_call(call):
                ctx.disagree("subsolv", {"problem": describe(p), "call": ci}, "non-finite numbers in the recorded call", None,
                             "the real optimiser handed / received NaN or inf at the sub-problem interface")
                continue
            if "g" in call and "xmin" in call:
                reqs.append(req_mmasub(p, call))
                meta.append(("mmasub", pi, ci))
            if "dg" in call and ci < len(out["trace"]):
                reqs.append(req_sens(p, call, out["trace"][ci]))
                meta.append(("sens", pi, ci))
            reqs.append(req_subsolv(call))
            meta.append(("subsolv", pi, ci))
        reqs.append(req_run(p))
        meta.append(("run", pi, None))
    res = ctx.model(reqs, shards=14 if len(reqs) > 28 else None)
    conv = []
    for (kind, pi, ci), m in zip(meta, res):
        p, out = probs[pi], outs[pi]
        case = {"problem": describe(p), "call": ci}
        if "ok" not in m:
            ctx.disagree(kind, case, None, m, "driver error")
            continue
        mo = m["ok"]
        if kind == "mmasub":
            call = out["calls"][ci]
            if "raises" in mo:
                ctx.disagree(kind, case, "ok", mo, "model raises")
                continue
            d = dec(mo)
            a_ = call["args"]
            sc = 1.0 + float(np.max(np.abs(call["xval"]))) + float(np.max(call["xmax"] - call["xmin"]))
            scP = 1.0 + float(np.max(np.abs(a_["P"]))) + float(np.max(np.abs(a_["Q"])))
            scb = 1.0 + float(np.max(np.abs(a_["b"]))) + float(np.max(np.abs(call["g"]))) + float(np.max(np.abs(a_["P"] / (a_["upp"] - call["xval"]))))* 0 + scP
            cmp_blocks(ctx, kind, case,
                       [("offset", call["offset_after"], d["offset"], 1.0), ("low", a_["low"], d["low"], sc), ("upp", a_["upp"], d["upp"], sc),
                        ("alfa", a_["alfa"], d["alfa"], sc), ("beta", a_["beta"], d["beta"], sc), ("P", a_["P"], d["P"], scP),
                        ("Q", a_["Q"], d["Q"], scP), ("b", a_["b"], d["b"], scb * a_["P"].shape[1]), ("epsimin", [a_["epsimin"]], [d["epsimin"]], 1e-3)],
                       1e-9, 1e-12, key=("mmasub", pi, ci, ctx.seed))
            mem = call["mem"]
            ctx.branch("mmasub." + ("first" if mem["xold1"] is None else "second" if mem["xold2"] is None else "asymptote_update"))
            ctx.branch("mmasub.version." + ("1987" if "1987" in p["opts"]["mmaversion"] else "2007"))
        elif kind == "sens":
            call = out["calls"][ci]
            rows = dec(mo)
            dg = call["dg"]
            sc = 1.0 + float(np.max(np.abs(dg)))
            if len(rows) != dg.shape[0] or any(len(r) != dg.shape[1] for r in rows):
                ctx.disagree(kind, case, list(dg.shape), [len(r) for r in rows], "shape of the collected sensitivities")
                continue
            cmp_blocks(ctx, kind, case, [(f"dg[{i}]", dg[i], rows[i], sc) for i in range(dg.shape[0])], 1e-9, 1e-12,
                       key=("sens", pi, ci, ctx.seed))
            nn = sum(1 for r in p["resp"] if r.get("mask") is not None)
            ctx.branch("sens.responses_with_unconnected_signals=" + ("0" if nn == 0 else "1" if nn == 1 else "2+"))
            if p["resp"][0].get("mask") is not None:
                ctx.branch("sens.objective_unconnected")
            if any(r.get("mask") is not None and any(p["kinds"][k] != "arr" or p["sizes"][k] == 1 for k in range(len(p["sizes"])) if k not in r["mask"])
                   for r in p["resp"]):
                ctx.branch("sens.scalar_signal_unconnected")
        elif kind == "subsolv":
            call = out["calls"][ci]
            if "raises" in mo:
                ctx.disagree(kind, case, "ok", mo, "model raises")
                continue
            d = dec(mo)
            if mo["newton"] != call["newton"]:
                ctx.skipped_boundary += 1
                ctx.branch("subsolv.boundary_skip(newton_count)")
                continue
            o, pt = call["out"], d["pt"]
            a_ = call["args"]
            scx = float(np.max(a_["beta"] - a_["alfa"])) + 1e-3
            pairs = [("x", o["x"], pt["x"], scx)]
            for nm in ("y", "lam", "xsi", "eta", "mu", "s"):
                # (dual variables and slacks of a nearly degenerate sub-problem amplify rounding differences of the Newton
                #  iteration: relative 1e-4; the primal solution x is compared at 1e-6 of the variable range)
                pairs.append((nm, o[nm], pt[nm], 100.0 * (1.0 + float(np.max(np.abs(o[nm]))))))
            pairs.append(("z", [o["z"]], [pt["z"]], 1.0))
            pairs.append(("zet", [o["zet"]], [pt["zet"]], 1.0))
            cmp_blocks(ctx, kind, case, pairs, 1e-6, 1e-6, key=("subsolv", pi, ci, ctx.seed))
            ctx.branch(f"subsolv.m={a_['a'].size}")
            ctx.branch("subsolv.n<=8" if a_["low"].size <= 8 else "subsolv.n<=20" if a_["low"].size <= 20 else "subsolv.n>20")
            ctx.branch("subsolv.newton=" + ("<30" if mo["newton"] < 30 else "<60" if mo["newton"] < 60 else ">=60"))
        else:
            if out.get("timeout") and "raises" not in mo:
                # observable: the optimiser did not produce the iterates the model produced
                ctx.oracle_fail(f"the real optimiser did not finish within {out['timeout']:.0f} s ({len(out['trace'])} iterations, "
                                f"{len(out['calls'])} sub-problems recorded) on a problem the model completes in {len(mo['trace'])} "
                                f"iterations (stop: {mo['stop']})", {"op": "run", "problem": describe(p)})
            compare_run(ctx, p, out, mo, case, pi)
            st = convergence_stats(p, out)
            if st is not None:
                conv.append((p, out, st))
    observe_convergence(ctx, conv)
    for p, out in zip(probs[:3], outs[:3]):
        if out["calls"]:
            ctx.sample({"stream": "run", "sizes": p["sizes"], "kinds": p["kinds"], "m": len(p["resp"]) - 1, "opts": p["opts"],
                        "iterations": len(out["trace"]), "subsolv_calls": len(out["calls"]),
                        "newton_first_call": out["calls"][0]["newton"]}, limit=3)


def compare_run(ctx, p, out, mo, case, pi):
    if "raises" in mo or "raises" in out:
        ctx.compare_exact("run", case, out.get("raises"), mo.get("raises") if isinstance(mo, dict) else None, key=("run", pi, ctx.seed))
        return
    d = dec(mo)
    mtrace = [[("scalar", s["scalar"]) if "scalar" in s else ("arr", s["arr"]) for s in st] for st in d["trace"]]
    relx = d["relx"]
    # prefix rule: compare iteration k+1 only while all previous relative steps are large
    upto = 1
    for r in relx:
        if not (r > 1e-3):
            break
        upto += 1
    upto = min(upto, len(mtrace), len(out["trace"]))
    xmin, xmax = (spec_full(p[k], p["sizes"]) for k in ("xmin", "xmax"))
    sc = float(np.max(xmax - xmin))
    for k in range(upto):
        ki = [kind for kind, _ in out["trace"][k]]
        km = [kind for kind, _ in mtrace[k]]
        if ki != km:
            ctx.disagree("run", case, ki, km, f"iteration {k}: scalar/array kinds of the written states")
            return
        a, b = flat_state(out["trace"][k]), flat_state(mtrace[k])
        if len(a) != len(b):
            ctx.disagree("run", case, a, b, f"iteration {k}: design sizes")
            return
        ok, why = close(a, b, 1e-6, 2e-6, sc)
        if not ok:
            ctx.mode("T")
            ctx.disagree("run", case, a, b, f"iteration {k}: {why}")
            return
    ctx.mode("T")
    full = upto == len(out["trace"]) == len(mtrace)
    if full:
        # the whole run was compared: the number of iterations and the final states must agree as well
        a, b = flat_state(out["states"]), flat_state([("scalar", s["scalar"]) if "scalar" in s else ("arr", s["arr"]) for s in d["states"]])
        ok, why = close(a, b, 1e-6, 2e-6, sc)
        if not ok:
            ctx.disagree("run", case, a, b, f"final states: {why}")
            return
        ctx.branch("run.compared_to_the_end.stop=" + d["stop"])
    else:
        ctx.branch("run.compared_prefix")
    ctx.branch(f"run.compared_iterations={'1' if upto == 1 else '2-4' if upto <= 4 else '5+'}")
    ctx.branch("run.entry." + p["entry"])
    for nm in ("xmin", "xmax", "move"):
        ctx.branch(f"run.{nm}.{p[nm][0]}")
    if any(k != "arr" for k in p["kinds"]):
        ctx.branch("run.scalar_state")
    ctx.branch("run.kind." + p["kind"])
    ctx.agree(("run", pi, ctx.seed), nontrivial=upto >= 2)


def observe_convergence(ctx, conv):
    """partial / observed: approach to the optimum, constraints satisfied at the end"""
    worst_d, worst_g, cnt = 0.0, -1.0, 0
    for p, out, (d0, d1, gmax) in conv:
        if not (p["default_asy"] and p.get("xs_valid", True) and len(out["trace"]) >= 10 and all(v == 0.0 for v in p["a"])):
            continue
        rng_ = spec_full(p["xmax"], p["sizes"]) - spec_full(p["xmin"], p["sizes"])
        if float(np.max(rng_) / np.min(rng_)) > 10.0:
            continue      # (the heuristic "closer to the optimum after 10 iterations" is calibrated for comparable ranges)
        cnt += 1
        worst_d = max(worst_d, d1)
        worst_g = max(worst_g, gmax)
        ctx.branch("observed.convergence_checked")
        # ("approach the optimum" is an asymptotic claim: within a dozen iterations only the DIRECTION is demanded -- a design that is
        #  farther from the optimum than the start, or still more than a quarter of the box away without having come any closer)
        if d1 > d0 + 0.05 or (d1 > 0.25 and d1 > 0.9 * d0):
            ctx.oracle_fail(f"after {len(out['trace'])} iterations the design is {d1:.3g} (relative to the box) away from the "
                            f"constructed optimum (start: {d0:.3g})", {"op": "run", "problem": describe(p)}, key=None)
        if gmax > 1e-2:
            ctx.oracle_fail(f"after {len(out['trace'])} iterations the largest constraint value is {gmax:.3g} > 0",
                            {"op": "run", "problem": describe(p)}, key=None)
    if cnt:
        ctx.notes.append(f"observed (partial): {cnt} runs of >= 10 iterations with default asymptote parameters: largest final distance to "
                         f"the optimum {worst_d:.3e} (relative to the box), largest final constraint value {worst_g:.3e}")


def make_signals(sizes, kinds, design):
    pm = _pm()
    sigs, pos = [], 0
    with fast_init_loc():
        for k, kd in zip(sizes, kinds):
            v = design[pos:pos + k]
            sigs.append(pm.Signal("x", float(v[0]) if kd == "pyfloat" else np.float64(v[0]) if kd == "npfloat" else
                                  np.array(v[0], dtype=float) if kd == "0d" else np.array(v, dtype=float)))
            pos += k
    return sigs


def first_writeback(sizes, kinds, design):
    """the states `MMA.response()` writes to the variable signals in its first pass (observed at fn_callback, then the run
    is stopped): list of ("scalar", v) / ("arr", [...]) or {"raises": ...}"""
    pm = _pm()
    import pymoto.common.mma as mm
    sigs = make_signals(sizes, kinds, design)
    with fast_init_loc():
        g = pm.Signal("g", 1.0)
    seen = []

    def cb():
        seen.append([("scalar", float(s.state)) if np.ndim(s.state) == 0 else ("arr", [float(v) for v in np.ravel(s.state)])
                     for s in sigs])
        raise StopRun("observed")
    wd = watchdog(10.0)
    with redirect_stdout(io.StringIO()), warnings.catch_warnings(), np.errstate(all="ignore"):
        warnings.simplefilter("ignore")
        try:
            with wd:
                r = call_impl(lambda: mm.MMA(pm.Network([]), sigs, [g, g], maxit=1, verbosity=0, fn_callback=cb).response())
        except RunTimeout as e:
            r = ("err", "RunTimeout", str(e))
    if seen:
        return seen[0]
    return {"raises": r[1] if r[0] == "err" else "no callback"}


def writeback_violation(sizes, design, wb):
    """property: signal i receives the slice [cumlens[i]:cumlens[i+1]] of the design vector, a bare scalar iff it has one entry"""
    if isinstance(wb, dict):
        return f"MMA.response() raised {wb['raises']} before its first callback"
    pos = 0
    for i, (k, (kind, val)) in enumerate(zip(sizes, wb)):
        want = design[pos:pos + k]
        got = [val] if kind == "scalar" else list(val)
        if got != list(want):
            return (f"signals of sizes {sizes}, design {design}: signal {i} receives {got}, its slice [{pos}:{pos + k}] of the "
                    f"design vector is {list(want)}")
        if (kind == "scalar") != (k == 1):
            return f"signals of sizes {sizes}: signal {i} (size {k}) is written as {kind}"
        pos += k
    return None


def stream_expand(ctx):
    """xmin / xmax / move specifications of all kinds (and wrong lengths) through MMA.response() with maxit = 0, and the FIRST
    write-back of the design vector to the variable signals (maxit = 1, stopped at the first callback)"""
    pm = _pm()
    import pymoto.common.mma as mm
    reqs, meta = [], []
    layouts = forced_layouts(ctx.rng)
    for t in range(40 if ctx.quick else 400):
        nsig = ctx.rng.randint(1, 4)
        sizes = [ctx.rng.choice([1, 1, 2, 3, 5]) for _ in range(nsig)]
        if t < len(layouts):
            sizes = [k for k, _ in layouts[t]]
            nsig = len(sizes)
        n = sum(sizes)
        kind = ctx.rng.choice(["xmin", "xmax", "move"])
        r = ctx.rng.random()
        if r < 0.2:
            spec = ("s", ctx.rng.choice([0.0, 0.25, 0.5, 1.0]))
        elif r < 0.5:
            spec = ("v", [ctx.rng.randint(0, 8) / 8 for _ in range(nsig)])
        elif r < 0.8:
            spec = ("v", [ctx.rng.randint(0, 8) / 8 for _ in range(n)])
        else:
            spec = ("v", [ctx.rng.randint(0, 8) / 8 for _ in range(ctx.rng.choice([0, 1, n + 1, nsig + 1, 2]))])
        arg = float(spec[1]) if spec[0] == "s" else (np.array(spec[1], dtype=float) if t % 2 else list(spec[1]))
        design = [ctx.rng.randint(1, 31) / 32 for _ in range(n)]
        if t < len(layouts):
            kinds = [kd for _, kd in layouts[t]]
            ctx.branch("expand.layout." + "+".join(("arr%d" % k if kd == "arr" else kd) for k, kd in layouts[t]))
        else:
            kinds = ["arr" if (k > 1 or t % 3) else ctx.rng.choice(SCALAR_KINDS) for k in sizes]
        sigs = make_signals(sizes, kinds, design)
        with fast_init_loc():
            g = pm.Signal("g", 1.0)
        kw = {"xmin": 0.0, "xmax": 1.0, "move": 0.1}
        kw[kind] = arg
        with redirect_stdout(io.StringIO()):
            obj = mm.MMA(pm.Network([]), sigs, [g, g], maxit=0, verbosity=0, **kw)
            r = call_impl(obj.response)
        if r[0] == "err":
            impl = {"raises": r[1]}
        else:
            v = getattr(obj, kind)
            impl = [float(w) for w in (np.ones(n) * v)]
        # write-back kinds: one real iteration is not needed, the rule is applied by the first pass of the loop; use maxit=1
        reqs.append({"m": "c10.expand", "sizes": sizes, "kind": kind, "spec": {"s": spec[1]} if spec[0] == "s" else {"v": spec[1]},
                     "design": design})
        wb = first_writeback(sizes, kinds, design)
        why = writeback_violation(sizes, design, wb)
        if why:
            ctx.oracle_fail(why, {"op": "writeback", "sizes": sizes, "kinds": kinds, "design": design})
        meta.append((sizes, kind, spec, impl, kinds, design, wb))
    res = ctx.model(reqs)
    for (sizes, kind, spec, impl, kinds, design, wb), m in zip(meta, res):
        case = {"sizes": sizes, "kind": kind, "spec": list(spec), "kinds": kinds, "design": design}
        mo = m.get("ok")
        if mo is None:
            ctx.disagree("expand", case, impl, m, "driver error")
            continue
        me = mo["expanded"]
        me = me if isinstance(me, dict) else dec(me)
        ctx.compare_exact("expand", case, impl, me, key=("expand", str(case)))
        n, nsig = sum(sizes), len(sizes)
        ln = None if spec[0] == "s" else len(spec[1])
        ctx.branch("expand." + kind + "." + ("scalar" if ln is None else "per_signal" if ln == nsig else "per_variable" if ln == n else "bad_length"))
        # oracle: the property's reading of the three kinds
        if isinstance(impl, list) and ln is not None:
            want = spec_full(("sig", spec[1]), sizes) if ln == nsig else np.array(spec[1], dtype=float)
            if list(want) != impl:
                ctx.oracle_fail(f"{kind} = {spec[1]} over signals of sizes {sizes} expands to {impl}, expected {list(want)}",
                                {"op": "expand", **case})
        wk = ["scalar" if "scalar" in s else "arr" for s in mo["writeback"]]
        if wk != ["scalar" if k == 1 else "arr" for k in sizes]:
            ctx.disagree("expand", case, sizes, wk, "write-back kinds of the model")
        # the first write-back of the real code vs the model's writeBackMMA of the same design (exact)
        mwb = [["scalar", dec(s["scalar"])] if "scalar" in s else ["arr", dec(s["arr"])] for s in mo["writeback"]]
        iwb = wb if isinstance(wb, dict) else [[kd, v] for kd, v in wb]
        ctx.compare_exact("writeback", case, iwb, mwb, key=("writeback", str(sizes), str(kinds), str(design)))
        if any(k == 1 and i > 0 and max(sizes[:i]) > 1 for i, k in enumerate(sizes)):
            ctx.branch("writeback.scalar_after_multi_entry_signal")


def transport_selftest(ctx):
    xs = [ctx.rng.uniform(-1, 1) * 10.0 ** ctx.rng.randint(-12, 12) for _ in range(100)] + [0.1, 1e-300, 5e-324, 1.5e300, 1e-10, 1.01]
    m = ctx.model([{"m": "c10.echo", "x": xs}])[0]
    if dec(m.get("ok", [])) != xs:
        ctx.disagree("transport", {"x": "random floats"}, xs[:3], m, "float transport is not exact")
    else:
        ctx.agree(("transport", ctx.seed), nontrivial=False)


def selftest_detects(ctx):
    """a deliberately wrong model input (design shifted / objective rows of P and Q changed) must be noticed by the comparison"""
    p = gen_problem(ctx)
    out = run_impl(p)
    if "raises" in out or not out["calls"]:
        return
    call = out["calls"][-1]
    rq1 = req_mmasub(p, call)
    rq1["xval"][0] = rq1["xval"][0] + 1e-3 * (1.0 + abs(rq1["xval"][0]))
    rq2 = req_subsolv(call)
    rq2["P"][0] = [2.0 * v + 1e-3 for v in rq2["P"][0]]
    rq2["Q"][0] = [0.5 * v for v in rq2["Q"][0]]
    m1, m2 = ctx.model([rq1, rq2], shards=1)
    d1, d2 = dec(m1.get("ok", {})), dec(m2.get("ok", {}))
    a_ = call["args"]
    same1 = "low" in d1 and close(a_["low"].tolist(), d1["low"], 1e-9, 1e-12)[0] and close(a_["upp"].tolist(), d1["upp"], 1e-9, 1e-12)[0]
    same2 = "pt" in d2 and all(close(call["out"][k].tolist(), d2["pt"][k], 1e-6, 1e-6)[0] for k in ("x", "lam", "xsi", "eta"))
    if same1 or same2:
        ctx.disagree("selftest", {"problem": describe(p)}, None, None, "a wrong model input was not noticed "
                     f"(mmasub: {same1}, subsolv: {same2})")
    else:
        ctx.branch("selftest.detected_wrong_model_input")


def correspondence(ctx):
    transport_selftest(ctx)
    stream_expand(ctx)
    stream_runs(ctx, 40 if ctx.quick else 250)
    selftest_detects(ctx)


# ------------------------------------------------------------------------------------------------
# search / replay
# ------------------------------------------------------------------------------------------------
def _oracle_case(w):
    if w.get("op") == "writeback":
        return writeback_violation(w["sizes"], w["design"], first_writeback(w["sizes"], w["kinds"], w["design"]))
    if w.get("op") == "run":
        p = undescribe(w["problem"])
        out = run_impl(p)
        why = oracle_run(p, out)
        if why is None and out.get("timeout"):
            why = (f"the real optimiser did not finish within {out['timeout']:.0f} s ({len(out['trace'])} iterations, "
                   f"{len(out['calls'])} sub-problems recorded)")
        return why
    return None


def search(ctx, disagreements):
    found = []
    seen = set()
    t0 = time.time()
    for d in disagreements:
        if time.time() - t0 > 120:          # every re-run is itself under the watchdog; the search as a whole is capped too
            break
        c = d.get("case") or {}
        if d.get("stream") == "writeback" and "design" in c:
            w = {"op": "writeback", "sizes": c["sizes"], "kinds": c["kinds"], "design": c["design"]}
            why = _oracle_case(w)
            if why:
                found.append({"what": why, "witness": w})
            if len(found) >= 3:
                break
            continue
        if "problem" not in c:
            continue
        k = str(c["problem"]["x0"])
        if k in seen:
            continue
        seen.add(k)
        w = {"op": "run", "problem": c["problem"]}
        why = _oracle_case(w)
        if why:
            found.append({"what": why, "witness": w})
        if len(found) >= 3:
            break
    if not found:
        for t in range(60):
            if time.time() - t0 > 180:
                break
            p = gen_problem(ctx)
            out = run_impl(p)
            why = oracle_run(p, out)
            if why:
                found.append({"what": why, "witness": {"op": "run", "problem": describe(p)}})
                break
    found.sort(key=lambda f: len(str(f["witness"])))
    return found


def replay(ctx, data):
    w = data.get("witness", {})
    w = w.get("witness", w)
    if w.get("op") in ("run", "writeback"):
        why = _oracle_case(w)
        return {"still_failing": bool(why), "what": why}
    if "script" in w:
        import subprocess
        import sys
        import os
        from ..common import VERIF
        p = subprocess.run([sys.executable, os.path.join(VERIF, w["script"])], capture_output=True, text=True)
        return {"still_failing": p.returncode != 0, "what": (p.stdout + p.stderr)[-400:]}
    return {"still_failing": False, "note": "replay file names no failing input (see no_longer_checks)"}


# ----------------------------------------------------------------------------------------------
# open known finding
# ----------------------------------------------------------------------------------------------
def probe_subsolv_nan_wide_ranges(ctx):
    import os
    import subprocess
    import sys
    from ..common import VERIF
    f = os.path.join(VERIF, "corpus", "defects", "pending", "c10_subsolv_nan_wide_ranges.py")
    pr = subprocess.run([sys.executable, f], capture_output=True, text=True, timeout=600)
    return ((pr.stdout + pr.stderr).strip().split("\n")[-1][:200] or "witness still fails") if pr.returncode != 0 else None


FINDING_PROBES = {"mma-subsolv-nan-wide-ranges": probe_subsolv_nan_wide_ranges}
