"""C11 — EigenSolve returns genuine, normalised, ordered eigenpairs (pymoto/modules/linalg.py, class EigenSolve)

correspondence: the library's RAW eigenpairs are captured by wrapping scipy.linalg.eigh/eig and
                scipy.sparse.linalg.eigsh/eigs inside the harness process (the module looks them up through the scipy
                module objects at call time); they are sent, as exact rationals, to the Lean model of the pyMOTO-authored
                post-processing (`LA/Eigen.lean`: dispatch, what is handed to ARPACK, sorting, sign, B-normalisation;
                `_dense_sens`, `_sparse_eigval_sens`, `_sparse_eigvec_sens` with exact per-mode adjoint solves, also with a
                kernel component added to the solver's answer) and the module's outputs / sensitivities are compared
                (tolerance).
oracle/search : on the real outputs: residual |A q - lambda B q|, q^T B q = 1, ordering by the sorting function,
                non-negative mean for real symmetric problems, dense path returns n pairs, sparse path returns the
                requested number closest to the shift (against a dense reference), OPinv = (A - sigma B)^-1.
Every case is a deterministic function of a small `spec` dict.
"""
import warnings

import numpy as np
import scipy.linalg
import scipy.sparse as sps
import scipy.sparse.linalg

from ..common import q, call_impl, vary_layout, frozen
from .c07 import enc, dec, dense, _Stub, model_balanced

RULE = ("streams: dense (n 2..6; real/complex x Hermitian/general x standard/generalised x 4 sorting functions; response + "
        "Lee's dense sensitivities with eigenvalue/eigenvector/both/partial seeds), sparse (random Hermitian / general "
        "pencils n 8..14 and FE stiffness/mass pencils with boundary conditions; nmodes 1..4, sigma None/0/inside the "
        "spectrum; response, ARPACK arguments, shift operator, eigenvalue sensitivities; real symmetric pencils: eigenvector "
        "sensitivities, 3 seeded passes per response incl. all-zero seed columns and dW given/None, model solver with and "
        "without an added kernel component), flags. distinct = distinct case "
        "names; every case compares the module outputs with the model applied to the captured raw library pairs and "
        "runs the property oracle on the real outputs")
ASSUMPTIONS = [
    "spectra are generated well separated (relative gap >= 5%); repeated eigenvalues are documented as unsupported",
    "B is Hermitian positive definite; for complex Hermitian problems the documented BILINEAR normalisation q^T B q = 1 "
    "is checked only when |q^T B q| of the raw vector is not tiny (> 1e-3), else the case is counted as boundary",
    "cases whose raw eigenvector has |Re mean(q)| < 1e-9 |q| are boundary for the sign rule and skipped",
    "np.sqrt is instantiated in the driver by a rational approximation (relative error < 2^-120); LAPACK/ARPACK returning "
    "genuine eigenpairs closest to the shift is an external contract, checked numerically by the oracle only",
    "histories: ONE module sees 3-5 matrices of changing class (real symmetric / real general / complex Hermitian / complex "
    "general; dense or sparse); every step is compared with the model (dispatch incl. the re-chosen shift-invert solver, "
    "post-processing) and with a fresh instance (eigenvalues 1e-8, vectors 1e-6: ARPACK start vectors are random)",
    "sparse sensitivities (eigenvalue and eigenvector seeds) are compared for real symmetric pencils only (complex Hermitian is "
    "the open C01 finding eigensolve-sparse-complex-hermitian-sens); a 'Factor is exactly singular' error of the LU of the "
    "singular shifted matrix in _sparse_eigvec_sens is counted as a boundary skip",
    "oracle for the sparse eigenvector sensitivities: the adjoint identity of theorem eig_sparse_eigvec_adjoint_sum on the REAL "
    "outputs, with the tangent (dq, dlam) of each computed pair obtained from the bordered linear system (numpy solve) for one "
    "symmetric and one NON-symmetric random direction (dA, dB); tolerance = the gap-dependent vectol of the comparison",
]


def _pm():
    import pymoto
    return pymoto


SORTERS = {
    "default": None,
    "descending": lambda W, Q: np.argsort(-np.real(W)),
    "abs": lambda W, Q: np.argsort(np.abs(W)),
    "target": lambda W, Q: np.argsort(np.abs(W - 2.5)),
}


class Case:
    pass


def enc_vec(v):
    return enc(np.asarray(v))


HCLASSES = {"sym": (False, True), "nonsym": (False, False), "herm": (True, True), "cgen": (True, False)}


def fe_pencil(rng, mesh=None, freefree=False):
    """K, M of a small 2-D mesh (AssembleStiffness / AssembleMass). `mesh` fixes everything but the densities, so that a
    history can update the SAME sparse objects in place. freefree: no boundary conditions (K singular: rigid-body modes)."""
    pm = _pm()
    if mesh is None:
        # the Krylov space of ARPACK (ncv = 20) must not be exhausted: enough distinct finite eigenvalues
        mesh = {"nx": int(rng.integers(3, 5)), "ny": int(rng.integers(3, 5)), "lx": float(rng.uniform(0.7, 1.5)),
                "ly": float(rng.uniform(0.7, 1.5)), "E": float(rng.uniform(0.8, 1.5)), "nu": float(rng.uniform(0.1, 0.4)),
                "rho": float(rng.uniform(0.5, 2.0)), "freefree": bool(freefree)}
        kwK = {} if rng.random() < 0.5 else {"bcdiagval": float(rng.uniform(200, 400))}
        # mass matrix: bc rows with zero diagonal (the repo's own practice, B positive SEMI-definite: those modes are
        # at infinity) or with a unit diagonal (B positive definite, modes at a large finite value)
        kwM = {} if rng.random() < 0.5 else {"bcdiagval": 1.0}
        if kwM and not kwK:   # keep the (repeated) boundary eigenvalue kd/1 far away from the requested modes
            kwK = {"bcdiagval": float(rng.uniform(200, 400))}
        mesh["kwK"], mesh["kwM"] = kwK, kwM
    dom = pm.DomainDefinition(mesh["nx"], mesh["ny"], 0, mesh["lx"], mesh["ly"])
    x = rng.uniform(0.3, 1.0, dom.nel)
    sx = pm.Signal("x", x)
    kwK, kwM = dict(mesh["kwK"]), dict(mesh["kwM"])
    if mesh["freefree"]:
        kwK, kwM = {}, {}
    else:
        nodes_left = [nn for nn in range(dom.nnodes) if nn % (dom.nelx + 1) == 0]
        bc = np.array(sorted(d for nn in nodes_left for d in range(nn * 2, nn * 2 + 2)))
        kwK["bc"], kwM["bc"] = bc, bc
    with _Stub():
        mK = pm.AssembleStiffness([sx], domain=dom, e_modulus=mesh["E"], poisson_ratio=mesh["nu"], **kwK)
        mM = pm.AssembleMass([sx], domain=dom, material_property=mesh["rho"], ndof=2, **kwM)
        mK.response()
        mM.response()
    A = np.asarray(mK.sig_out[0].state.todense())
    B = np.asarray(mM.sig_out[0].state.todense())
    return (A + A.T) / 2, (B + B.T) / 2, mesh


def pick_sigma(rng, sk, ev, cplx, herm, freefree=False):
    """shift of the given kind relative to the (real, sorted) reference spectrum `ev`; never closer than 30% of a gap to an
    eigenvalue"""
    def u(a, b):
        return float(rng.uniform(a, b))
    if freefree:   # rigid-body modes at 0: only a negative shift makes K - sigma M non-singular
        elastic = ev[np.abs(ev) > 1e-8 * np.abs(ev).max()]
        return -u(0.3, 1.0) * float(elastic[0])
    if sk == "none":
        return None
    if sk == "zero":
        return 0.0
    gaps = [i for i in range(min(len(ev) - 1, 5)) if ev[i + 1] - ev[i] > 1e-3 * max(1.0, abs(ev[i]))]
    i = gaps[int(rng.integers(0, len(gaps)))] if gaps else 0
    inside = float(ev[i] + u(0.3, 0.45) * (ev[i + 1] - ev[i]))
    if sk == "inside":
        return inside
    if sk == "negative":
        cands = [min(float(ev[0]) - u(0.5, 2.0), -u(0.5, 2.0))]          # below the spectrum
        for j in range(len(ev) - 1):                                     # between two negative eigenvalues (indefinite A)
            if ev[j + 1] < -0.3 and ev[j + 1] - ev[j] > 0.3:
                cands.append(float(ev[j] + u(0.3, 0.45) * (ev[j + 1] - ev[j])))
        return cands[int(rng.integers(0, len(cands)))]
    if sk == "above":
        return float(ev[-1]) + u(0.5, 2.0)
    if sk == "complex":   # only the non-Hermitian complex path (eigs) supports a complex shift
        return complex(inside, u(0.2, 0.5)) if (cplx and not herm) else inside
    raise ValueError(sk)


def fmt_sigma(sg):
    return "N" if sg is None else f"{sg:.3g}"


SIGMAKINDS = ["none", "zero", "inside", "negative", "above", "complex"]


def build_history(spec):
    rng = np.random.default_rng(spec["seed"])
    c = Case()
    c.spec = spec
    c.stream = "history"
    c.hstream = spec.get("hstream", "dense" if rng.random() < 0.5 else "sparse")
    sp = c.hstream == "sparse"
    c.n = int(rng.integers(3, 7)) if not sp else int(rng.integers(8, 13))
    c.gen = spec.get("gen", bool(rng.random() < 0.5))
    nsteps = int(rng.integers(3, 6))
    allherm = rng.random() < 0.2
    names = list(HCLASSES)
    # in place: the SAME ndarray / scipy sparse objects are overwritten between the responses (A[...] = newA,
    # A.data[:] = newA.data), as an optimisation loop with preallocated matrices does; the dtype cannot change then
    c.inplace = bool(spec.get("inplace", rng.random() < 0.4))
    c.hfe = bool(spec.get("fe", False)) and sp
    if c.hfe:
        c.inplace, c.gen, allherm = True, True, True
        names = ["sym"]
    elif c.inplace:
        names = ["sym", "nonsym"] if rng.random() < 0.6 else ["herm", "cgen"]
    classes = spec.get("classes") or [str(rng.choice([k for k in names if HCLASSES[k][1]] if allherm else names)) for _ in range(nsteps)]
    if not allherm and len(set(HCLASSES[k][1] for k in classes)) == 1:   # make sure the Hermitian flag changes
        other = [k for k in names if HCLASSES[k][1] != HCLASSES[classes[0]][1]]
        classes[1] = other[0]
    allherm = all(HCLASSES[k][1] for k in classes)   # a user flag hermitian=True is admissible only then
    c.userherm = True if (allherm and rng.random() < 0.5) else None
    c.sorter = str(rng.choice(list(SORTERS)))
    c.nmodes = [None, 2, 3][int(rng.integers(0, 3))] if sp else None
    if c.nmodes is None and sp and c.n <= 8:
        c.nmodes = 3
    # shifts valid for every step (all spectra are k +- 0.2, k = 1..n): none / 0 / inside / below (negative) / above
    c.sigma = ([None, 0.0, float(int(rng.integers(1, 4)) + 0.5), -float(rng.uniform(0.5, 2.5)), float(c.n + rng.uniform(0.5, 2.0))]
               [spec.get("sigmaidx", int(rng.integers(0, 5)))] if sp else None)
    if c.hfe:
        c.sigma = [None, 0.0][int(rng.integers(0, 2))]
        c.nmodes = [None, 3][int(rng.integers(0, 2))]
    c.fmt = str(rng.choice(["csc", "csr"]))
    c.steps = []
    mesh = None
    for k, cl in enumerate(classes):
        cx, hm = HCLASSES[cl]
        sub = {"stream": c.hstream, "seed": int(rng.integers(0, 2 ** 31)), "n": c.n, "cplx": cx, "herm": hm, "gen": c.gen,
               "sorter": c.sorter, "userherm": c.userherm, "nmodes": c.nmodes, "sigmakind": "none", "seedkind": "W", "indef": False}
        if c.hfe:
            sub.update({"fe": True, "mesh": mesh})
        st = build(sub)
        mesh = st.mesh
        c.n = st.n
        st.nmodes, st.sigma, st.fmt = c.nmodes, c.sigma, c.fmt
        st.name = f"step{k}.{cl}"
        c.steps.append(st)
    c.name = (f"history.{c.hstream}{'.fe' if c.hfe else ''}{'.inplace' if c.inplace else ''}.n{c.n}.{'gen' if c.gen else 'std'}."
              f"{'-'.join(classes)}.{c.sorter}.uh{c.userherm}.k{c.nmodes}.sig{fmt_sigma(c.sigma)}.s{spec['seed']}")
    return c


def build(spec):
    if spec["stream"] == "history":
        return build_history(spec)
    rng = np.random.default_rng(spec["seed"])
    c = Case()
    c.spec = spec
    c.stream = spec["stream"]
    cplx = spec.get("cplx", bool(rng.random() < 0.3))
    herm = spec.get("herm", bool(rng.random() < 0.6))
    gen = spec.get("gen", bool(rng.random() < 0.5))

    def rn(*s):
        return rng.standard_normal(s) + (1j * rng.standard_normal(s) if cplx else 0)
    c.fe = False
    if c.stream == "dense":
        n = spec.get("n") or int(rng.integers(2, 7))
    else:
        n = spec.get("n") or int(rng.integers(8, 15))
    c.freefree = bool(spec.get("freefree", False))
    c.mesh = None
    if c.stream == "sparse" and spec.get("fe"):
        A, B, c.mesh = fe_pencil(rng, mesh=spec.get("mesh"), freefree=c.freefree)
        n = A.shape[0]
        cplx, herm, gen = False, True, True
        c.fe = True
        d = None
    else:
        d = np.arange(1, n + 1) * 1.0 + rng.uniform(-0.2, 0.2, n)
        c.indef = bool(spec.get("indef", c.stream == "sparse" and rng.random() < 0.25))
        if c.indef:   # indefinite A: eigenvalues at half-integers +-0.2 on both sides of zero
            d = d - (n // 2 + 0.5)
        if herm:
            Qr, _ = np.linalg.qr(rn(n, n))
            A = Qr @ np.diag(d) @ Qr.conj().T
            A = (A + A.conj().T) / 2
        else:
            V = np.eye(n) + 0.3 * rn(n, n)
            D = np.diag(d).astype(complex if cplx else float)
            if spec.get("cspec"):
                # a genuinely complex spectrum: conjugate pairs (2x2 rotation-like blocks) for a real matrix, arbitrary
                # imaginary parts for a complex one; real parts stay k +- 0.2, so the pairs are well separated
                if cplx:
                    D = np.diag(d + 1j * rng.uniform(0.3, 1.5, n) * rng.choice([-1, 1], n))
                else:
                    for i0 in range(0, n - 1, 2):
                        bi = float(rng.uniform(0.3, 1.5))
                        D[i0 + 1, i0 + 1] = D[i0, i0]
                        D[i0, i0 + 1], D[i0 + 1, i0] = bi, -bi
            A = V @ D @ np.linalg.inv(V)
        B = None
        if gen:
            C = rn(n, n)
            B = C @ C.conj().T / n + np.eye(n)
            B = (B + B.conj().T) / 2
            if not herm:
                A = B @ A
            else:
                Lc = np.linalg.cholesky(B)
                A = Lc @ A @ Lc.conj().T
                A = (A + A.conj().T) / 2
    if spec.get("special") == "mirror":
        # small perfectly symmetric systems: antisymmetric modes whose entries sum to EXACTLY zero (sign rule at mean 0)
        mblocks = int(spec.get("m", 1))
        A = np.kron(np.diag([1.0, 4.0, 9.0][:mblocks]), np.array([[2.0, -1.0], [-1.0, 2.0]]))
        n = A.shape[0]
        cplx, herm = False, True
        B = 2.0 * np.eye(n) if gen else None
    if spec.get("units"):
        # the same pencil in other units (exact powers of two): eigenvalues scale by 2^(ea - eb), nothing else changes
        ea, eb = spec["units"]
        A = A * 2.0 ** ea
        if gen:
            B = B * 2.0 ** eb
    c.units = spec.get("units")
    c.A, c.B, c.n, c.cplx, c.herm, c.gen = A, (B if gen else None), n, cplx, herm, gen
    c.sorter = spec.get("sorter", str(rng.choice(list(SORTERS))))
    if spec.get("units") or spec.get("cspec"):
        c.sorter = "default" if spec.get("cspec") else str(rng.choice(["default", "descending"]))   # (abs / target keys are in units of 1)
    c.userherm = spec.get("userherm", None if rng.random() < 0.7 else herm)
    if c.stream == "sparse":
        c.nmodes = spec.get("nmodes", [None, 1, 2, 3, 4][int(rng.integers(0, 5))])
        if c.nmodes == "max":
            # the largest admissible request: real symmetric Lanczos (`eigsh`) admits k <= n-1; Arnoldi (`eigs`, to which scipy's
            # `eigsh` also hands every COMPLEX Hermitian problem) admits k <= n-2 and raises TypeError beyond (scipy's contract)
            c.nmodes = n - 1 if (herm and not cplx) else n - 2
        if c.nmodes is None and n <= 8:
            c.nmodes = 3
        with np.errstate(all="ignore"):
            ev = scipy.linalg.eigvals(A, B)
        ev = np.sort(np.real(ev[np.isfinite(ev)]))
        c.refvals = ev
        sk = spec.get("sigmakind", str(rng.choice(SIGMAKINDS)))
        c.sigma = pick_sigma(rng, sk, ev, cplx, herm, c.freefree)
        c.fmt = str(rng.choice(["csc", "csr"]))
    c.seedkind = spec.get("seedkind", str(rng.choice(["both", "W", "Q", "partial"])))
    c.name = (f"{c.stream}{'.fe' if c.fe else ''}.n{n}.{'c' if cplx else 'r'}.{'herm' if herm else 'gen'}.{'gen' if gen else 'std'}."
              f"{c.sorter}.uh{c.userherm}." + (f"k{c.nmodes}.sig{fmt_sigma(c.sigma)}.{c.fmt}.{'indef.' if getattr(c, 'indef', False) else ''}{'freefree.' if c.freefree else ''}" if c.stream == "sparse" else "")
              + f"{c.seedkind}.s{spec['seed']}")
    return c


# ----------------------------------------------------------------------------------------------
# running the real code with the library calls wrapped
# ----------------------------------------------------------------------------------------------
class Recorder:
    """wraps scipy.linalg.eigh/eig and scipy.sparse.linalg.eigsh/eigs; records the call and a copy of the raw result"""
    names = [(scipy.linalg, "eigh"), (scipy.linalg, "eig"), (scipy.sparse.linalg, "eigsh"), (scipy.sparse.linalg, "eigs")]

    def __enter__(self):
        self.calls = []
        self.orig = {}
        for mod, nm in self.names:
            fn = getattr(mod, nm)
            self.orig[(mod, nm)] = fn

            def wrapper(*a, _fn=fn, _nm=nm, **kw):
                r = _fn(*a, **kw)
                self.calls.append({"lib": _nm, "args": a, "kwargs": kw, "W": np.array(r[0]), "Q": np.array(r[1])})
                return r
            setattr(mod, nm, wrapper)
        return self

    def __exit__(self, *a):
        for (mod, nm), fn in self.orig.items():
            setattr(mod, nm, fn)


def run_impl(c):
    pm = _pm()
    out = {}
    with warnings.catch_warnings():
        warnings.simplefilter("ignore")
        sp = c.stream == "sparse"
        conv = (lambda M: {"csc": sps.csc_matrix, "csr": sps.csr_matrix}[c.fmt](M)) if sp else \
            (lambda M: vary_layout(M.copy(), (c.name, M.shape, float(np.abs(M).sum()))))   # C / Fortran order / transposed view
        sigs = [pm.Signal("A", conv(c.A))]
        if c.B is not None:
            sigs.append(pm.Signal("B", conv(c.B)))
        kw = {}
        isorts = []
        base = SORTERS[c.sorter] or (lambda W, Q: np.argsort(W))

        def sorter(W, Q):
            i = base(W, Q)
            isorts.append(np.array(i))
            return i
        kw["sorting_func"] = sorter
        if c.userherm is not None:
            kw["hermitian"] = c.userherm
        if sp:
            if c.nmodes is not None:
                kw["nmodes"] = c.nmodes
            if c.sigma is not None:
                kw["sigma"] = c.sigma
        m = pm.EigenSolve(sigs, **kw)
        snaps = [None if sp else frozen(sg.state) for sg in sigs]
        with Recorder() as rec:
            m.response()
        out["input_clobbered"] = (not sp) and any(frozen(sg.state) != sn for sg, sn in zip(sigs, snaps))
        out["calls"] = rec.calls
        out["isort"] = isorts[-1] if isorts else None
        out["W"], out["Q"] = np.array(m.sig_out[0].state), np.array(m.sig_out[1].state)
        # OPinv applied to probe vectors (the operator handed to ARPACK)
        if sp and rec.calls:
            op = rec.calls[0]["kwargs"].get("OPinv")
            rng = np.random.default_rng(c.spec["seed"] + 5)
            V = rng.standard_normal((c.n, 2))
            out["opinv"] = (V, np.column_stack([op.matvec(V[:, i]) for i in range(2)]))
        # sensitivities
        rng = np.random.default_rng(c.spec["seed"] + 11)
        W, Qo = out["W"], out["Q"]
        cx = np.iscomplexobj(Qo) or np.iscomplexobj(W)
        dW = rng.standard_normal(W.shape) + (1j * rng.standard_normal(W.shape) if np.iscomplexobj(W) else 0)
        dQ = rng.standard_normal(Qo.shape) + (1j * rng.standard_normal(Qo.shape) if cx else 0)
        kind = c.seedkind if not sp else "W"
        if kind == "W":
            dQ = None
        elif kind == "Q":
            dW = None
        elif kind == "partial":
            dW[::2] = 0
            dQ[:, ::2] = 0
        out["dW"], out["dQ"] = dW, dQ
        out["vecpasses"] = []
        if sp and c.herm and not c.cplx and not c.fe and c.n <= 14:
            # `_sparse_eigvec_sens`: several seeded passes after ONE response, all-zero seed columns included
            for ps in range(3):
                dQp = rng.standard_normal(Qo.shape)
                if ps != 1:
                    dQp[:, rng.random(Qo.shape[1]) < 0.4] = 0
                dWp = rng.standard_normal(W.shape) if ps == 2 else None
                m.reset()
                if dWp is not None:
                    m.sig_out[0].sensitivity = dWp.copy()
                m.sig_out[1].sensitivity = dQp.copy()
                try:
                    m.sensitivity()
                except (RuntimeError, np.linalg.LinAlgError) as e:
                    # the factorisation of the singular matrix A - lambda_i B may fail on an exactly singular pivot
                    # (SuperLU: "Factor is exactly singular"; dense LDL without a B input: "Singular matrix"): boundary
                    if "ingular" in str(e):
                        out["vecpasses"].append(None)
                        continue
                    raise
                out["vecpasses"].append((dWp, dQp, [s_.sensitivity for s_ in sigs]))
            m.reset()
        if sp and not (c.herm and not c.cplx):
            out["sens"] = None      # sparse sensitivities are compared for real symmetric pencils only
        else:
            if dW is not None:
                m.sig_out[0].sensitivity = dW.copy()
            if dQ is not None:
                m.sig_out[1].sensitivity = dQ.copy()
            m.sensitivity()
            out["sens"] = [s.sensitivity for s in sigs]
    return out


def run_history(c):
    pm = _pm()
    outs = []
    sp = c.hstream == "sparse"
    conv = (lambda M: {"csc": sps.csc_matrix, "csr": sps.csr_matrix}[c.fmt](M)) if sp else (lambda M: M.copy())
    base = SORTERS[c.sorter] or (lambda W, Q: np.argsort(W))

    def make(st):
        isorts = []

        def sorter(W, Q):
            i = base(W, Q)
            isorts.append(np.array(i))
            return i
        kw = {"sorting_func": sorter}
        if c.userherm is not None:
            kw["hermitian"] = c.userherm
        if sp:
            if c.nmodes is not None:
                kw["nmodes"] = c.nmodes
            if c.sigma is not None:
                kw["sigma"] = c.sigma
        sigs = [pm.Signal("A", conv(st.A))] + ([pm.Signal("B", conv(st.B))] if c.gen else [])
        return pm.EigenSolve(sigs, **kw), sigs, isorts
    with warnings.catch_warnings():
        warnings.simplefilter("ignore")
        m, sigs, isorts = make(c.steps[0])
        prev = None
        objs = None
        c.inplace_done = 0
        for st in c.steps:
            mats = [st.A] + ([st.B] if c.gen else [])
            if c.inplace and objs is not None:
                for i_, M in enumerate(mats):
                    new = conv(M)
                    o_ = objs[i_]
                    if sp:
                        if (new.dtype == o_.dtype and new.nnz == o_.nnz and np.array_equal(new.indices, o_.indices)
                                and np.array_equal(new.indptr, o_.indptr)):
                            o_.data[:] = new.data           # same scipy sparse object, new values
                            c.inplace_done += 1
                        else:
                            objs[i_] = new
                    elif new.dtype == o_.dtype:
                        o_[...] = new                        # same ndarray object, new values
                        c.inplace_done += 1
                    else:
                        objs[i_] = new
                    sigs[i_].state = objs[i_]
            else:
                objs = [conv(M) for M in mats]
                for i_, o_ in enumerate(objs):
                    sigs[i_].state = o_
            with Recorder() as rec:
                m.response()
            o = {"calls": rec.calls, "isort": isorts[-1], "W": np.array(m.sig_out[0].state), "Q": np.array(m.sig_out[1].state),
                 "sens": None, "dW": None, "dQ": None, "vecpasses": []}
            if sp:
                o["newAinv"] = m.Ainv is not prev
                prev = m.Ainv
                op = rec.calls[0]["kwargs"].get("OPinv")
                V = np.random.default_rng(c.spec["seed"] + 5).standard_normal((c.n, 2))
                o["opinv"] = (V, np.column_stack([op.matvec(V[:, i]) for i in range(2)]))
            else:
                o["newAinv"] = False
            mf, _, _ = make(st)
            mf.response()
            o["fresh"] = (np.array(mf.sig_out[0].state), np.array(mf.sig_out[1].state))
            outs.append(o)
    return outs


def history_oracle(c, outs):
    for st, o in zip(c.steps, outs):
        why = oracle(st, o)
        if why:
            return f"{st.name}: {why}"
        Wf, Qf = o["fresh"]
        if Wf.shape != o["W"].shape or np.abs(Wf - o["W"]).max() > 1e-8 * max(1.0, np.abs(Wf).max()):
            return f"{st.name}: eigenvalues depend on the history: {o['W']} vs fresh instance {Wf}"
        Qh = o["Q"]
        if np.iscomplexobj(Qf) or np.iscomplexobj(Qh):
            # complex vectors: the library's arbitrary phase (random ARPACK start vector) survives the module's normalisation
            # as a sign, so columns are compared up to +-1 (DESIGN C03: "up to the module's own sign normalisation")
            dcol = np.minimum(np.abs(Qf - Qh).max(axis=0), np.abs(Qf + Qh).max(axis=0)) if Qh.size else np.zeros(0)
            dmax = float(dcol.max()) if dcol.size else 0.0
        else:
            dmax = float(np.abs(Qf - Qh).max()) if Qh.size else 0.0
        if dmax > 1e-6 * max(1.0, np.abs(Qf).max()):
            return f"{st.name}: eigenvectors depend on the history (max diff {dmax:.2e})"
    return None


# ----------------------------------------------------------------------------------------------
# oracle on the real outputs
# ----------------------------------------------------------------------------------------------
def sorted_ok(c, W):
    if c.sorter == "default":
        key = W
        return bool(np.all(np.argsort(key, kind="stable") == np.arange(len(W)))) or bool(np.all(np.diff(np.real(key)) >= -1e-12))
    if c.sorter == "descending":
        return bool(np.all(np.diff(np.real(W)) <= 1e-12))
    if c.sorter == "abs":
        return bool(np.all(np.diff(np.abs(W)) >= -1e-12))
    return bool(np.all(np.diff(np.abs(W - 2.5)) >= -1e-12))


def oracle(c, out):
    A, B = c.A, c.B
    Bm = np.eye(c.n) if B is None else B
    W, Q = out["W"], out["Q"]
    scale = max(1.0, float(np.abs(A).max())) if not getattr(c, "units", None) else float(np.abs(A).max())
    if out.get("input_clobbered"):
        return "EigenSolve.response() wrote into the array held by one of its input signals"
    if Q.shape[0] != c.n or Q.shape[1] != W.size:
        return f"shapes: W {W.shape}, Q {Q.shape}"
    if c.stream == "dense" and W.size != c.n:
        return f"dense path returned {W.size} pairs for n = {c.n}"
    if c.stream == "sparse":
        want = 6 if c.nmodes is None else c.nmodes
        if W.size != want:
            return f"sparse path returned {W.size} pairs, requested {want}"
    raw = out["calls"][0] if out["calls"] else None
    for i in range(W.size):
        qi = Q[:, i]
        r = np.abs(A @ qi - W[i] * (Bm @ qi)).max() / (scale * max(1e-300, np.abs(qi).max()))
        if not r <= 1e-7:
            return f"mode {i}: |A q - lambda B q| / scale = {r:.3e}"
        rawnorm = None
        if raw is not None and out["isort"] is not None:
            qr = raw["Q"][:, out["isort"][i]]
            rawnorm = abs(qr @ (Bm @ qr)) / max(1e-300, np.linalg.norm(qr) ** 2 * np.linalg.norm(Bm, 2))
        if rawnorm is None or rawnorm > 1e-3:
            nb = qi @ (Bm @ qi)
            if not abs(nb - 1) <= 1e-8 / (rawnorm or 1.0):
                return f"mode {i}: q^T B q = {nb}"
        if c.herm and not c.cplx and not np.iscomplexobj(Q):
            if np.real(np.mean(qi)) < -1e-12 * np.abs(qi).max():
                return f"mode {i}: mean entry {np.mean(qi)} < 0 for a real symmetric problem"
    if not sorted_ok(c, W):
        return f"eigenvalues not ordered by the sorting function '{c.sorter}': {W}"
    if c.stream == "sparse":
        sig = 0.0 if c.sigma is None else c.sigma
        ref = c.refvals[np.argsort(np.abs(c.refvals - sig))][:W.size]
        got = np.sort(np.real(W))
        if np.abs(np.sort(ref) - got).max() > 1e-6 * max(1.0, np.abs(ref).max()):
            return f"sparse path: returned {got}, the {W.size} eigenvalues closest to sigma={sig} are {np.sort(ref)}"
        V, OV = out["opinv"]
        sh = A - sig * Bm if sig != 0 else A
        r = np.abs(sh @ OV - V).max() / max(1.0, np.abs(V).max())
        if not r <= 1e-7 * max(1.0, np.linalg.cond(sh)):
            return f"OPinv is not (A - sigma B)^-1: residual {r:.3e}"
    if out.get("vecpasses") and boundary(c, out) is None:
        for ps, vp in enumerate(out["vecpasses"]):
            if vp is not None:
                why = vec_identity_oracle(c, out, ps)
                if why:
                    return why
    return None


def tangent(A, Bm, lam, qv, dA, dB):
    """the first-order perturbation (dq, dlam) of a simple normalised eigenpair of a symmetric pencil under (dA, dB):
    (dA - lam dB - dlam B) q + (A - lam B) dq = 0,  dq^T B q + q^T dB q + q^T B dq = 0   (theorem eig_tangent_exists_unique)"""
    n = A.shape[0]
    K = np.zeros((n + 1, n + 1))
    K[:n, :n] = A - lam * Bm
    K[:n, n] = -(Bm @ qv)
    K[n, :n] = (Bm + Bm.T) @ qv
    rhs = np.concatenate([-(dA - lam * dB) @ qv, [-(qv @ (dB @ qv))]])
    sol = np.linalg.solve(K, rhs)
    return sol[:n], sol[n]


def vec_identity_oracle(c, out, ps):
    """the property of the sparse eigenvector sensitivities ON THE REAL CODE (theorem eig_sparse_eigvec_adjoint_sum): for random
    directions (dA, dB) - symmetric and NOT symmetric - sum_i (dQ[:, i] . dq_i + dW[i] dlam_i) = <gA, dA> + <gB, dB>"""
    dWp, dQp, sens = out["vecpasses"][ps]
    Bm = np.eye(c.n) if c.B is None else c.B
    W, Q = np.real(out["W"]), np.real(out["Q"])
    gA = np.real(np.asarray(dense(sens[0])))
    gB = np.real(np.asarray(dense(sens[1]))) if c.B is not None else None
    if gA.size == 0:
        gA = np.zeros((c.n, c.n))
    if gB is not None and gB.size == 0:
        gB = np.zeros((c.n, c.n))
    rng = np.random.default_rng(c.spec["seed"] + 23 + ps)
    for sym in (True, False):
        dA = rng.standard_normal((c.n, c.n))
        dB = rng.standard_normal((c.n, c.n)) * 0.3 if c.B is not None else np.zeros((c.n, c.n))
        if sym:
            dA, dB = (dA + dA.T) / 2, (dB + dB.T) / 2
        lhs = 0.0
        for i in range(W.size):
            dq, dl = tangent(c.A, Bm, W[i], Q[:, i], dA, dB)
            lhs += float(dQp[:, i] @ dq) + (0.0 if dWp is None else float(dWp[i] * dl))
        rhs = float(np.sum(gA * dA)) + (float(np.sum(gB * dB)) if gB is not None else 0.0)
        tol = c.vectol * c.n * max(1.0, float(np.abs(gA).max()), abs(lhs)) * 10
        if not abs(lhs - rhs) <= tol:
            return (f"sparse eigenvector sensitivities, pass {ps}, {'symmetric' if sym else 'non-symmetric'} direction: "
                    f"sum seeds.tangent = {lhs!r} but <gA,dA>+<gB,dB> = {rhs!r} (tol {tol:.2e})")
    return None


# ----------------------------------------------------------------------------------------------
# model requests / comparison
# ----------------------------------------------------------------------------------------------
def is_herm(M):
    at = 1e-12 * float(np.abs(M).max()) if np.size(M) else 0.0     # relative to the matrix (any units)
    return bool(np.allclose(M, M.conj().T, rtol=0.0, atol=at)) if np.iscomplexobj(M) else bool(np.allclose(M, M.T, rtol=0.0, atol=at))


def reqs_for(c, out):
    sp = c.stream == "sparse"
    r = []
    d = {"m": "c11.dispatch", "n": c.n, "user": c.userherm, "Aherm": is_herm(c.A), "Bherm": None if c.B is None else is_herm(c.B),
         "Asparse": sp, "Bsparse": None if c.B is None else sp}
    if sp:
        d.update({"modeNormal": True, "A": enc(c.A), "B": None if c.B is None else enc(c.B), "nmodes": c.nmodes,
                  "sigma": None if c.sigma is None else ([q(float(np.real(c.sigma))), q(float(np.imag(c.sigma)))]
                                                          if isinstance(c.sigma, complex) else q(float(c.sigma)))})
    r.append(("dispatch", d))
    raw = out["calls"][0]
    Wr, Qr = raw["W"], raw["Q"]
    qcplx = bool(np.iscomplexobj(Qr) or (c.B is not None and np.iscomplexobj(c.B)))
    r.append(("post", {"m": "c11.post", "n": c.n, "nm": int(Wr.size), "B": None if c.B is None else enc(c.B), "W": enc_vec(Wr),
                       "Q": enc(Qr), "qcplx": qcplx, "isort": [int(v) for v in out["isort"]]}))
    if out["sens"] is not None:
        W, Qo = out["W"], out["Q"]
        if not sp:
            r.append(("densesens", {"m": "c11.densesens", "n": c.n, "nm": int(W.size), "A": enc(c.A), "B": None if c.B is None else enc(c.B),
                                    "W": enc_vec(W), "Q": enc(Qo), "dW": None if out["dW"] is None else enc_vec(out["dW"]),
                                    "dQ": None if out["dQ"] is None else enc(out["dQ"]),
                                    "Acplx": bool(np.iscomplexobj(c.A)), "Bcplx": bool(c.B is not None and np.iscomplexobj(c.B))}))
        else:
            r.append(("eigvalsens", {"m": "c11.eigvalsens", "n": c.n, "nm": int(W.size), "B": None if c.B is None else enc(c.B),
                                     "W": enc_vec(W), "Q": enc(Qo), "dW": enc_vec(out["dW"]),
                                     "Areal": bool(np.isrealobj(c.A)), "Breal": bool(c.B is None or np.isrealobj(c.B))}))
    for ps, vp in enumerate(out.get("vecpasses", [])):
        if vp is None:
            continue
        dWp, dQp, _ = vp
        rq = {"m": "c11.eigvecsens", "n": c.n, "nm": int(out["W"].size), "A": enc(c.A),
              "B": None if c.B is None else enc(c.B), "W": enc_vec(out["W"]), "Q": enc(out["Q"]),
              "dW": None if dWp is None else enc_vec(dWp), "dQ": enc(dQp),
              "Areal": bool(np.isrealobj(c.A)), "Breal": bool(c.B is None or np.isrealobj(c.B))}
        r.append((f"eigvecsens{ps}", rq))
        if ps == 0:
            # ANOTHER solution of the singular adjoint system (a multiple of the eigenvector added to what the model's inner
            # solver returns): the dyads must not change (theorem eig_sparse_eigvec_solver_indep)
            kr = np.random.default_rng(c.spec["seed"] + 17)
            r.append((f"eigvecsensK{ps}", dict(rq, kick=enc_vec(kr.uniform(-3.0, 3.0, out["W"].size)))))
    return r


def decv(v):
    from fractions import Fraction
    return np.array([complex(float(Fraction(z[0])), float(Fraction(z[1]))) for z in v], dtype=complex)


def _cmp(ctx, c, what, impl, M, tol):
    I = np.asarray(dense(impl)).astype(complex)
    if I.size == 0 and M.size and not np.any(M):   # an empty DyadCarrier (no dyad was added) is the zero matrix
        ctx.agree((c.name, what), nontrivial=False)
        return True
    if I.shape != M.shape:
        ctx.disagree(c.stream, {"spec": c.spec, "name": c.name, "what": what}, list(I.shape), list(M.shape), "shape mismatch")
        return False
    if I.size == 0:
        ctx.agree((c.name, what), nontrivial=False)
        return True
    sc = max(float(np.max(np.abs(M))), 1e-30)
    return ctx.compare_close(c.stream, {"spec": c.spec, "name": c.name, "what": what}, I.flatten(), [complex(v) for v in M.flatten()],
                             rtol=0.0, atol=tol, scale=sc, key=(c.name, what))


def compare(ctx, c, out, kind, mres):
    case = {"spec": c.spec, "name": c.name, "what": kind}
    if kind.startswith("eigvecsens") and mres.get("err") == "singular":
        ctx.skipped_boundary += 1
        return
    if "ok" not in mres:
        ctx.disagree(c.stream, case, "ok", mres, "model rejects what the code accepts")
        return
    mo = mres["ok"]
    if kind == "history":
        impl = [[o["calls"][0]["lib"], bool(o["newAinv"])] for o in out]
        ctx.compare_exact(c.stream, case, impl, [[r["lib"], bool(r["newAinv"])] for r in mo], key=(c.name, kind))
        return
    if kind.startswith("eigvecsens"):
        ps_ = int(kind[len("eigvecsens"):].lstrip("K"))
        _, _, sens = out["vecpasses"][ps_]
        _cmp(ctx, c, kind + ".dA", sens[0], dec(mo["dA"]), c.vectol)
        if c.B is not None:
            _cmp(ctx, c, kind + ".dB", sens[1], dec(mo["dB"]), c.vectol)
        return
    raw = out["calls"][0]
    if kind == "dispatch":
        ctx.compare_exact(c.stream, case, [raw["lib"], len(out["calls"])], [mo["lib"], 1], key=(c.name, kind))
        if c.stream == "sparse":
            kw = raw["kwargs"]
            ctx.compare_exact(c.stream, dict(case, what="arpack k"), int(kw["k"]), int(mo["k"]), key=(c.name, "k"))
            ctx.compare_close(c.stream, dict(case, what="arpack sigma"), [complex(kw["sigma"])], [complex(decv([mo["sigma"]])[0])],
                              rtol=0, atol=0, key=(c.name, "sigma"))
            ctx.compare_exact(c.stream, dict(case, what="arpack M given"), kw.get("M") is not None, bool(mo["hasM"]), key=(c.name, "hasM"))
            if kw.get("M") is not None:
                _cmp(ctx, c, "arpack M", dense(kw["M"]), dec(mo["M"]), 1e-14)
            _cmp(ctx, c, "arpack A", dense(raw["args"][0]), c.A.astype(complex), 0.0)
            # the operator handed to ARPACK inverts the model's shifted matrix
            V, OV = out["opinv"]
            sh = dec(mo["shifted"])
            res = np.abs(sh @ OV - V).max()
            if not res <= 1e-7 * max(1.0, np.linalg.cond(sh)):
                ctx.disagree(c.stream, dict(case, what="OPinv"), float(res), 0.0, "OPinv is not the inverse of the model's shifted matrix")
            else:
                ctx.agree((c.name, "opinv"))
    elif kind == "post":
        _cmp(ctx, c, "W", out["W"], decv(mo["W"]), 1e-12)
        _cmp(ctx, c, "Q", out["Q"], dec(mo["Q"]) if mo["Q"] else np.zeros((c.n, 0)), c.posttol)
    elif kind == "densesens":
        sens = out["sens"]
        _cmp(ctx, c, "dA", sens[0], dec(mo["dA"]), c.senstol)
        if c.B is not None:
            _cmp(ctx, c, "dB", sens[1], dec(mo["dB"]), c.senstol)
        if not np.iscomplexobj(c.A) and np.iscomplexobj(dense(sens[0])):
            ctx.disagree(c.stream, dict(case, what="dA dtype"), "complex", "real", "real matrix, complex sensitivity")
    elif kind == "eigvalsens":
        sens = out["sens"]
        _cmp(ctx, c, "dA", sens[0], dec(mo["dA"]), 1e-10)
        if c.B is not None:
            _cmp(ctx, c, "dB", sens[1], dec(mo["dB"]), 1e-10)


def boundary(c, out):
    """cases the tolerance comparison cannot decide: sign rule at zero mean, tiny bilinear norm, ill-conditioned Lee system"""
    raw = out["calls"][0]
    Bm = np.eye(c.n) if c.B is None else c.B
    c.posttol = 1e-11
    for i in range(raw["W"].size):
        qr = raw["Q"][:, i]
        if abs(np.real(np.mean(qr))) < 1e-9 * np.abs(qr).max():
            return "sign"
        nb = abs(qr @ (Bm @ qr)) / (np.linalg.norm(qr) ** 2 * np.linalg.norm(Bm, 2))
        if nb < 1e-3:
            return "norm"
        c.posttol = max(c.posttol, 1e-12 / nb)
    c.senstol = 1e-10
    # eigenvector sensitivities: the (nearly) singular solve is followed by a projection; gap-dependent conditioning
    c.vectol = 1e-7
    if out.get("vecpasses"):
        ev = c.refvals
        gaps = [np.min(np.abs(np.delete(ev, np.argmin(np.abs(ev - w))) - w)) for w in np.real(out["W"])]
        c.vectol = 1e-9 * max(1.0, float(np.abs(ev).max())) / max(1e-3, float(min(gaps))) * max(1.0, float(np.abs(out["Q"]).max()) ** 2)
    if out["sens"] is not None and c.stream == "dense":
        W, Q = out["W"], out["Q"]
        worst = 1.0
        for i in range(W.size):
            qi = Q[:, i]
            P = np.block([[(c.A - W[i] * Bm).T, -(((Bm + Bm.T) / 2) @ qi)[:, None]], [-(Bm @ qi)[None, :], np.zeros((1, 1))]])
            worst = max(worst, np.linalg.cond(P))
        if worst > 1e6:
            return "leecond"
        c.senstol = 2e-12 * worst * max(1.0, float(np.abs(Q).max()) ** 2)
    return None


def specs(ctx):
    R = ctx.rng
    out = []

    def seed():
        return R.randrange(2 ** 31)
    reps = 1 if ctx.quick else 6
    for cplx in (False, True):
        for herm in (False, True):
            for gen in (False, True):
                for sorter in SORTERS:
                    for _ in range(reps):
                        out.append({"stream": "dense", "seed": seed(), "cplx": cplx, "herm": herm, "gen": gen, "sorter": sorter})
    for _ in range(20 if ctx.quick else 300):
        out.append({"stream": "dense", "seed": seed()})
    for mblk in (1, 2, 3):
        for gen in (False, True):
            out.append({"stream": "dense", "seed": seed(), "special": "mirror", "m": mblk, "gen": gen, "cplx": False, "herm": True,
                        "sorter": "default"})
    # general matrices with a complex spectrum, and pencils in very small / very large units
    for cplx in (False, True):
        for gen in (False, True):
            for _ in range(2 if ctx.quick else 12):
                out.append({"stream": "dense", "seed": seed(), "cplx": cplx, "herm": False, "gen": gen, "cspec": True})
                out.append({"stream": "dense", "seed": seed(), "cplx": cplx, "herm": False, "gen": gen, "cspec": True,
                            "units": [R.choice([-33, -40, 0, 30]), R.choice([0, 33, 40])]})
            for herm in (False, True):
                out.append({"stream": "dense", "seed": seed(), "cplx": cplx, "herm": herm, "gen": gen,
                            "units": [R.choice([-33, -40, 30]), R.choice([0, 33])]})
    for cplx in (False, True):
        for herm in (False, True):
            for gen in (False, True):
                for sk in SIGMAKINDS:
                    if sk == "complex" and (herm or not cplx):
                        continue
                    for indef in ((False, True) if sk in ("negative", "zero", "inside") else (False,)):
                        for _ in range(reps):
                            out.append({"stream": "sparse", "seed": seed(), "cplx": cplx, "herm": herm, "gen": gen, "sigmakind": sk,
                                        "indef": indef})
    # boundary: the largest admissible number of requested modes (n-1 Hermitian, n-2 general), standard and generalised
    for cplx in (False, True):
        for herm in (False, True):
            for gen in (False, True):
                for sk in ("none", "inside"):
                    for _ in range(reps):
                        out.append({"stream": "sparse", "seed": seed(), "cplx": cplx, "herm": herm, "gen": gen, "sigmakind": sk,
                                    "nmodes": "max", "n": R.choice([8, 9, 11])})
    for _ in range(8 if ctx.quick else 80):
        out.append({"stream": "sparse", "seed": seed(), "fe": True})
    # free-free structures: singular K (rigid-body modes), positive definite M, negative shift
    for _ in range(4 if ctx.quick else 40):
        out.append({"stream": "sparse", "seed": seed(), "fe": True, "freefree": True})
    for _ in range(10 if ctx.quick else 150):
        out.append({"stream": "sparse", "seed": seed()})
    # real symmetric sparse pencils: eigenvector-seed sensitivities (several passes after one response)
    for gen in (False, True):
        for sk in ("none", "zero", "inside", "negative", "above"):
            for _ in range(2 if ctx.quick else 12):
                out.append({"stream": "sparse", "seed": seed(), "cplx": False, "herm": True, "gen": gen, "sigmakind": sk})
    # histories on ONE module with changing matrix class
    for hs in ("dense", "sparse"):
        for _ in range(8 if ctx.quick else 80):
            out.append({"stream": "history", "seed": seed(), "hstream": hs})
    # the SAME matrix objects updated in place between the responses (dense ndarray, scipy sparse, FE K and M)
    for hs in ("dense", "sparse"):
        for _ in range(5 if ctx.quick else 40):
            out.append({"stream": "history", "seed": seed(), "hstream": hs, "inplace": True})
    for sidx in (0, 1, 3, 4):
        out.append({"stream": "history", "seed": seed(), "hstream": "sparse", "inplace": True, "sigmaidx": sidx})
        out.append({"stream": "history", "seed": seed(), "hstream": "sparse", "inplace": False, "sigmaidx": sidx})
    for _ in range(3 if ctx.quick else 20):
        out.append({"stream": "history", "seed": seed(), "hstream": "sparse", "fe": True})
    out.append({"stream": "history", "seed": seed(), "hstream": "dense", "classes": ["sym", "nonsym", "herm", "cgen", "sym"]})
    out.append({"stream": "history", "seed": seed(), "hstream": "sparse", "classes": ["sym", "nonsym", "herm", "sym"]})
    return out


def run_specs(ctx, speclist):
    items, reqs = [], []
    with _Stub():
        for sp in speclist:
            c = build(sp)
            if c.stream == "history":
                r = call_impl(run_history, c)
                if r[0] == "err":
                    ctx.disagree(c.stream, {"spec": sp, "name": c.name}, r[1], "ok", r[2][:600])
                    ctx.oracle_fail(f"history: EigenSolve raises {r[2][:300]} on an admissible history", {"spec": sp, "name": c.name})
                    continue
                outs = r[1]
                why = history_oracle(c, outs)
                if why:
                    ctx.oracle_fail(why, {"spec": sp, "name": c.name})
                ctx.branch(f"history.{c.hstream}.{'gen' if c.gen else 'std'}")
                if c.inplace:
                    ctx.branch(f"history.inplace_updates.{c.hstream}{'.fe' if c.hfe else ''}", getattr(c, "inplace_done", 0))
                items.append((c, outs, "history"))
                reqs.append({"m": "c11.history", "user": c.userherm, "steps": [
                    {"Aherm": is_herm(st.A), "Bherm": None if st.B is None else is_herm(st.B), "sparse": c.hstream == "sparse"}
                    for st in c.steps]})
                for st, o in zip(c.steps, outs):
                    st.spec, st.name = sp, c.name + "." + st.name
                    if boundary(st, o):
                        ctx.skipped_boundary += 1
                        continue
                    for kind, rq in reqs_for(st, o):
                        if kind == "post":
                            items.append((st, o, kind))
                            reqs.append(rq)
                continue
            r = call_impl(run_impl, c)
            if r[0] == "err":
                ctx.disagree(c.stream, {"spec": sp, "name": c.name}, r[1], "ok", r[2][:600])
                ctx.oracle_fail(f"{c.stream}: EigenSolve raises {r[2][:300]} on an admissible input", {"spec": sp, "name": c.name})
                continue
            out = r[1]
            why = oracle(c, out)
            if why:
                ctx.oracle_fail(why, {"spec": sp, "name": c.name})
            b = boundary(c, out)
            if b:
                ctx.skipped_boundary += 1
                ctx.branch("boundary." + b)
                continue
            ctx.skipped_boundary += sum(1 for v in out.get("vecpasses", []) if v is None)
            if out.get("vecpasses"):
                ctx.branch("sparse.eigvec_passes", len([v for v in out["vecpasses"] if v is not None]))
                ctx.branch("oracle.eigvec_adjoint_identity", len([v for v in out["vecpasses"] if v is not None]))
            ctx.branch(f"{c.stream}.{'fe' if c.fe else 'rand'}.{'c' if c.cplx else 'r'}.{'herm' if c.herm else 'gen'}.{'gen' if c.gen else 'std'}")
            ctx.branch(f"lib.{out['calls'][0]['lib']}")
            ctx.branch(f"sorter.{c.sorter}")
            for kind, rq in reqs_for(c, out):
                items.append((c, out, kind))
                reqs.append(rq)
    res = model_balanced(ctx, reqs)
    for (c, out, kind), m in zip(items, res):
        compare(ctx, c, out, kind, m)
    return items


def correspondence(ctx):
    sp = specs(ctx)
    items = run_specs(ctx, sp)
    seen = 0
    for c, out, kind in items:
        if kind == "post" and seen < 3 and isinstance(out, dict):
            ctx.sample({"case": c.name, "lib": out["calls"][0]["lib"], "eigenvalues": np.real(out["W"]).tolist()[:4]})
            seen += 1
    ctx.notes.append(f"{len(sp)} specs, {len(items)} model requests")


def search(ctx, disagreements):
    found, seen, specl = [], set(), []
    for d in disagreements:
        sp = (d.get("case") or {}).get("spec")
        if sp and str(sp) not in seen:
            seen.add(str(sp))
            specl.append(sp)
    for st in ("dense", "sparse", "history"):
        for _ in range(40):
            specl.append({"stream": st, "seed": ctx.rng.randrange(2 ** 31)})
    with _Stub():
        for sp in specl:
            c = build(sp)
            r = call_impl(run_history if c.stream == "history" else run_impl, c)
            if r[0] == "err":
                found.append({"what": f"EigenSolve raises {r[2][:300]}", "witness": {"spec": sp, "name": c.name}})
            else:
                why = history_oracle(c, r[1]) if c.stream == "history" else oracle(c, r[1])
                if why:
                    found.append({"what": why, "witness": {"spec": sp, "name": c.name}})
            if len(found) >= 5:
                break
    found.sort(key=lambda w: len(str(w["witness"])))
    return found


def replay(ctx, data):
    w = data.get("witness", {})
    w = w.get("witness", w)
    sp = w.get("spec")
    if not sp and w.get("script"):   # a regression witness of the defect corpus
        import os
        import subprocess
        import sys
        from ..common import VERIF
        p = subprocess.run([sys.executable, os.path.join(VERIF, w["script"])], capture_output=True, text=True, timeout=600)
        return {"still_failing": p.returncode != 0, "what": (p.stdout + p.stderr)[-600:], "case": w["script"]}
    if not sp:
        return {"still_failing": False, "note": "replay file names no failing input (see no_longer_checks)"}
    with _Stub():
        c = build(sp)
        r = call_impl(run_history if c.stream == "history" else run_impl, c)
    if r[0] == "err":
        return {"still_failing": True, "what": r[2][:500], "case": c.name}
    why = history_oracle(c, r[1]) if c.stream == "history" else oracle(c, r[1])
    return {"still_failing": bool(why), "what": why, "case": c.name}
