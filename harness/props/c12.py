"""C12 — element-level operators (pymoto/modules/assembly.py:327-551)

correspondence: real ElementOperation / Strain / Stress / ElementAverage / NodalOperation / ThermoMechanical vs the Lean
                model `Core/Assembly.lean` (driver ops c12.em, c12.elemop, c12.nodalop); the model is AS CODED (doubles the
                Voigt shear rows like the code)
oracle        : on the real code - strain = symmetric gradient (engineering shear), stress = D.strain, energy identity with the
                real AssembleStiffness, centroid value of ElementAverage, NodalOperation = transpose of ElementOperation,
                thermal load self-equilibrated and = K u_free-expansion
known finding : strain-voigt-shear-doubled (Strain(voigt=True) returns 2x the engineering shear) - oracle failures of exactly
                that class carry the finding key, every other deviation is reported
"""
import json
import os
from fractions import Fraction

import numpy as np

from ..common import q, qlist, fr, frlist, call_impl, VERIF, vary_layout

FINDING_KEY = "strain-voigt-shear-doubled"
WITNESS = os.path.join(VERIF, "corpus", "C12", "strain_voigt_shear.json")

RULE = ("element matrices of Strain(voigt T/F)/Stress/ElementAverage/ThermoMechanical for random 2-D/3-D anisotropic sizes, "
        "materials, plane strings (tolerance; exact model in Q(sqrt3)); module outputs for random affine fields u = G X + c "
        "(shear-free and general G) and random non-affine u on random grids; generic ElementOperation/NodalOperation with "
        "small-integer element matrices of shapes (K,), (R,K), (R1,R2,K) incl. the repeat-per-dof path (exact); ThermoMechanical "
        "end-to-end; malformed inputs (error enums); sens: ElementOperation._sensitivity / NodalOperation._sensitivity with integer "
        "element matrices, seeds and directions for all operator shapes incl. the repeat path (exact) with the adjoint oracle "
        "<w, Op(u+v)-Op(u)> = <sens(w), v> on the real code. distinct = distinct generated case keys, all non-trivial (nel >= 1)")
ASSUMPTIONS = [
    "instance isolation: every module under test is preceded (and, between construction and response, interleaved) by decoy "
    "modules of the same class differing in one configuration parameter, and by an identically configured decoy whose results "
    "are scaled in place; a leak from a decoy shows up as a correspondence disagreement / oracle failure of the module under test",
    "a fresh module is used per call: element_matrix/dofconn cached inside ElementOperation across calls with a different "
    "number of dofs per node is history (C03), not part of C12",
    "1-D domains (nely = 0) are outside the property's quantifier and are not generated",
    "open finding strain-voigt-shear-doubled: Strain(voigt=True) doubles the engineering shear; oracle failures of exactly "
    "that class are attributed to the finding",
]

PLANES2 = ["strain", "stress", "Plane-Stress", "STRAIN", "plane_strain"]


def _pm():
    import pymoto
    return pymoto


# ------------------------------------------------------------------------------------------------
# generators
# ------------------------------------------------------------------------------------------------
def rand_sizes(rng, dyadic):
    if dyadic:
        return [2.0 ** rng.randint(-2, 2) for _ in range(3)]
    return [rng.uniform(0.2, 3.0) for _ in range(3)]


def rand_grid(ctx, dim=None, small=False):
    rng = ctx.rng
    if dim is None:
        dim = 2 if rng.random() < 0.6 else 3
    if dim == 2:
        hi = 3 if small else (5 if ctx.quick else 8)
        g = {"nelx": rng.randint(1, hi), "nely": rng.randint(1, hi), "nelz": 0}
    else:
        hi = 2 if small else 3
        g = {"nelx": rng.randint(1, hi), "nely": rng.randint(1, hi), "nelz": rng.randint(1, 2)}
    g["s"] = rand_sizes(rng, rng.random() < 0.4)
    g["dim"] = dim
    return g


def rand_material(rng, dim, unit_thickness=False):
    m = {"E": rng.uniform(0.1, 10.0), "nu": rng.uniform(-0.9, 0.49), "plane": rng.choice(PLANES2)}
    if rng.random() < 0.25:
        m["nu"] = rng.choice([0.0, 0.25, 0.3])
        m["E"] = rng.choice([1.0, 2.0, 5.0])
    return m


def mk_dom(g):
    return _pm().DomainDefinition(g["nelx"], g["nely"], g["nelz"], *[float(v) for v in g["s"]])


def rand_G(rng, dim, shearfree):
    sym_diag = [rng.randint(-8, 8) / 4 for _ in range(dim)]
    G = np.zeros((dim, dim))
    for i in range(dim):
        G[i, i] = sym_diag[i]
    for i in range(dim):
        for j in range(i + 1, dim):
            w = rng.randint(-8, 8) / 4
            G[i, j] += w
            G[j, i] -= w
            if not shearfree:
                s = rng.randint(-8, 8) / 4
                if s == 0 and rng.random() < 0.7:
                    s = 0.75
                G[i, j] += s
    c = np.array([rng.randint(-4, 4) / 2 for _ in range(dim)])
    return G, c


def affine_u(dom, G, c):
    X = dom.get_node_position()  # (dim, nnodes)
    dim = dom.dim
    u = np.zeros(dom.nnodes * dim)
    for comp in range(dim):
        u[comp::dim] = G[comp] @ X + c[comp]
    return u


def eng_strain(G, dim):
    if dim == 2:
        return np.array([G[0, 0], G[1, 1], G[0, 1] + G[1, 0]])
    return np.array([G[0, 0], G[1, 1], G[2, 2], G[1, 2] + G[2, 1], G[0, 2] + G[2, 0], G[0, 1] + G[1, 0]])


def real_D(g, mat):
    pm = _pm()
    from pymoto.modules.assembly import get_D
    D = get_D(float(mat["E"]), float(mat["nu"]), "3d" if g["dim"] == 3 else mat["plane"].lower())
    if g["dim"] == 2:
        D = D * g["s"][2]
    return D


def vol(g):
    return g["s"][0] * g["s"][1] * (g["s"][2] if g["dim"] == 3 else 1.0)


# ------------------------------------------------------------------------------------------------
# real-code runners (fresh module per call)
# ------------------------------------------------------------------------------------------------
# instance isolation: DECOY modules of the same class run before the module under test is constructed and once more
# between its construction and its response().  A decoy differs from the module under test in exactly ONE parameter a
# careless cache key could omit (2-D thickness unitz, unitx, unity, nelx<->nely with the same nel, E, nu, plane mode,
# alpha, voigt flag, element operator of the same shape with other values); the last pre-decoy has the IDENTICAL
# configuration and its element matrix / output are scaled in place afterwards (a cache handing out shared arrays).
# Nothing a decoy computed may leak.  The choice is a deterministic function of the case, so replays re-create it.
DECOYS = True


def _mk(kind, g, inp, mat=None, voigt=True, alpha=None, EM=None):
    pm = _pm()
    dom = mk_dom(g)
    s = pm.Signal("in", np.array(inp, dtype=float))
    if kind == "strain":
        m = pm.Strain(s, domain=dom, voigt=voigt)
    elif kind == "stress":
        m = pm.Stress(s, domain=dom, e_modulus=float(mat["E"]), poisson_ratio=float(mat["nu"]), plane=mat["plane"])
    elif kind == "average":
        m = pm.ElementAverage(s, domain=dom)
    elif kind == "thermo":
        m = pm.ThermoMechanical(s, domain=dom, e_modulus=float(mat["E"]), poisson_ratio=float(mat["nu"]),
                                alpha=float(alpha), plane=mat["plane"])
    elif kind == "K":
        m = pm.AssembleStiffness(s, domain=dom, e_modulus=float(mat["E"]), poisson_ratio=float(mat["nu"]), plane=mat["plane"])
    elif kind == "elemop":
        m = pm.ElementOperation(s, domain=dom, element_matrix=vary_layout(np.array(EM, dtype=float), (np.shape(EM), float(np.abs(np.asarray(EM, dtype=float)).sum()))))
    elif kind == "nodalop":
        m = pm.NodalOperation(s, domain=dom, element_matrix=vary_layout(np.array(EM, dtype=float), (np.shape(EM), float(np.abs(np.asarray(EM, dtype=float)).sum()))))
    else:
        raise ValueError(kind)
    return m, s, dom


def decoy_variants(kind, g, mat, voigt, alpha, EM):
    """(name, kwargs for _mk) differing from the configuration under test in exactly one parameter"""
    out = []
    sz = [float(v) for v in g["s"]]
    for a, nm in ((2, "unitz"), (0, "unitx"), (1, "unity")):
        t = list(sz)
        t[a] = sz[a] * 2.0 if sz[a] <= 1.0 else sz[a] * 0.5
        out.append((nm, dict(g=dict(g, s=t), mat=mat, voigt=voigt, alpha=alpha, EM=EM)))
    if g["nelx"] != g["nely"]:
        out.append(("nelx<->nely", dict(g=dict(g, nelx=g["nely"], nely=g["nelx"]), mat=mat, voigt=voigt, alpha=alpha, EM=EM)))
    if kind == "strain":
        out.append(("voigt", dict(g=g, mat=mat, voigt=not voigt, alpha=alpha, EM=EM)))
    if kind in ("stress", "thermo", "K"):
        out.append(("E", dict(g=g, mat=dict(mat, E=float(mat["E"]) * 1.5 + 0.25), voigt=voigt, alpha=alpha, EM=EM)))
        nu = float(mat["nu"])
        out.append(("nu", dict(g=g, mat=dict(mat, nu=(0.1 if abs(nu - 0.1) > 0.05 else 0.35)), voigt=voigt, alpha=alpha, EM=EM)))
        if g["dim"] == 2:
            pl = "stress" if "strain" in str(mat["plane"]).lower() else "strain"
            out.append(("plane", dict(g=g, mat=dict(mat, plane=pl), voigt=voigt, alpha=alpha, EM=EM)))
    if kind == "thermo":
        out.append(("alpha", dict(g=g, mat=mat, voigt=voigt, alpha=float(alpha) * 1.5 + 0.25, EM=EM)))
    if kind in ("elemop", "nodalop"):
        E2 = np.array(EM, dtype=float)
        E2 = E2 + 1.0 + (np.arange(E2.size).reshape(E2.shape) % 3)
        out.append(("element matrix values", dict(g=g, mat=mat, voigt=voigt, alpha=alpha, EM=E2)))
    return out


def _decoy_pick(kind, g, mat, voigt, alpha, EM, when, k):
    import hashlib
    vs = decoy_variants(kind, g, mat, voigt, alpha, EM)
    key = json.dumps([when, kind, g, mat, voigt, alpha, None if EM is None else np.asarray(EM).tolist()], sort_keys=True, default=str)
    h = int(hashlib.sha1(key.encode()).hexdigest(), 16)
    picked = []
    if when == "pre":
        picked.append(vs.pop(0))        # the thickness / unitz variant
    while len(picked) < k and vs:
        picked.append(vs.pop(h % len(vs)))
        h //= 7
    return picked


def _run_decoy(kind, inp, kw, scale_after=False):
    try:
        ramp = np.cos(0.37 * np.arange(np.size(inp)) + 0.2).reshape(np.shape(inp))
        m, _, _ = _mk(kind, kw["g"], ramp, kw["mat"], kw["voigt"], kw["alpha"], kw["EM"])
        m.response()
        if scale_after:
            for attr in ("element_matrix", "elmat", "stiffness_element"):
                if isinstance(getattr(m, attr, None), np.ndarray):
                    getattr(m, attr)[...] *= 3.0
            y = m.sig_out[0].state
            if isinstance(y, np.ndarray):
                y *= 5.0
    except Exception:
        pass


def run_decoys(when, kind, g, inp, mat=None, voigt=True, alpha=None, EM=None):
    if not DECOYS:
        return
    # differing decoys first (an incomplete cache key is then primed with the wrong entry), the identical one last
    for _, kw in _decoy_pick(kind, g, mat, voigt, alpha, EM, when, 2 if when == "pre" else 1):
        _run_decoy(kind, inp, kw)
    if when == "pre":
        _run_decoy(kind, inp, dict(g=g, mat=mat, voigt=voigt, alpha=alpha, EM=EM), scale_after=True)


def _tested(kind, g, inp, mat=None, voigt=True, alpha=None, EM=None):
    """the module under test: decoys, construction, a decoy, then the caller runs response()"""
    run_decoys("pre", kind, g, inp, mat, voigt, alpha, EM)
    m, s, dom = _mk(kind, g, inp, mat, voigt, alpha, EM)
    run_decoys("post", kind, g, inp, mat, voigt, alpha, EM)
    return m, s, dom


def _respond(m, s, u):
    """response of a LINEAR element / nodal operator on the data u, deterministically varied in two ways that must not matter:
    (a) the same instance has been evaluated before on an INTEGER-typed state of the same size; (b) the data are handed over at
    magnitude 2^-40 (exact scaling) and the result is scaled back"""
    u = np.asarray(u, dtype=float)
    key = int(np.abs(u).sum() * 4) + u.size
    if key % 2 == 0:
        s.state = (np.arange(u.size) % 5).reshape(u.shape)
        m.response()
    mag = 2.0 ** -40 if key % 3 == 0 else 1.0
    s.state = u * mag
    m.response()
    return np.asarray(m.sig_out[0].state) / mag


def run_module(kind, g, u, mat=None, voigt=True):
    m, s_, dom = _tested(kind, g, u, mat=mat, voigt=voigt)
    em = np.array(m.element_matrix, dtype=float)
    return em, _respond(m, s_, u), dom


def run_thermo(g, x, mat, alpha):
    m, _, dom = _tested("thermo", g, x, mat=mat, alpha=alpha)
    em = np.array(m.element_matrix, dtype=float)
    m.response()
    return em, np.asarray(m.sig_out[0].state), dom


def run_K(g, x, mat):
    m, _, _ = _tested("K", g, x, mat=mat)
    m.response()
    return m.sig_out[0].state.toarray()


def run_elemop(g, EM, u):
    m, s_, _ = _tested("elemop", g, u, EM=EM)
    return _respond(m, s_, u)


def run_nodalop(g, EM, x):
    m, s_, _ = _tested("nodalop", g, x, EM=EM)
    return _respond(m, s_, x)


# ------------------------------------------------------------------------------------------------
# oracles on the real code; each returns a list of (what, key)
# ------------------------------------------------------------------------------------------------
def _tol(scale):
    return 1e-9 * max(1.0, scale)


def oracle_fields(g, mat, G, c, x):
    """Strain (voigt T/F), Stress, energy identity for the affine field (G, c). Returns list of (what, key)."""
    out = []
    dim = g["dim"]
    dom = mk_dom(g)
    u = affine_u(dom, G, c)
    eps = eng_strain(G, dim)
    nn = dim
    sc = max(1.0, np.abs(eps).max())
    shear_nonzero = np.abs(eps[nn:]).max() > 1e-12
    # --- Strain
    strain_out = {}
    for voigt in (True, False):
        _, y, _ = run_module("strain", g, u, voigt=voigt)
        strain_out[voigt] = y
        exp = np.repeat(eps[:, None], dom.nel, axis=1)
        if y.shape != exp.shape:
            out.append((f"Strain(voigt={voigt}) output shape {y.shape} != {exp.shape}", None))
            continue
        dn = np.abs(y[:nn] - exp[:nn]).max()
        ds = np.abs(y[nn:] - exp[nn:]).max()
        if dn > _tol(sc):
            out.append((f"Strain(voigt={voigt}) normal components differ from diag(G) by {dn:.3g}", None))
        if ds > _tol(sc):
            doubled = np.abs(y[nn:] - 2 * exp[nn:]).max() <= _tol(sc)
            if voigt and doubled and dn <= _tol(sc):
                out.append((f"Strain(voigt=True) shear = {y[nn:, 0].tolist()} is twice the engineering shear {eps[nn:].tolist()}",
                            FINDING_KEY))
            else:
                out.append((f"Strain(voigt={voigt}) shear {y[nn:, 0].tolist()} != engineering shear {eps[nn:].tolist()}", None))
    # --- Stress
    D = real_D(g, mat)
    _, sig, _ = run_module("stress", g, u, mat=mat)
    sig_exp = np.repeat((D @ eps)[:, None], dom.nel, axis=1)
    ssc = max(1.0, np.abs(sig_exp).max(), np.abs(D).max() * sc)
    if np.abs(sig - sig_exp).max() > _tol(ssc):
        eps2 = eps.copy()
        eps2[nn:] *= 2
        sig_dbl = np.repeat((D @ eps2)[:, None], dom.nel, axis=1)
        if np.abs(sig[:nn] - sig_exp[:nn]).max() <= _tol(ssc) and np.abs(sig - sig_dbl).max() <= _tol(ssc) and shear_nonzero:
            out.append((f"Stress shear = {sig[nn:, 0].tolist()} is twice D.strain = {sig_exp[nn:, 0].tolist()}", FINDING_KEY))
        else:
            out.append((f"Stress != D.strain: max diff {np.abs(sig - sig_exp).max():.3g}", None))
    # --- energy identity with the real stiffness matrix
    K = run_K(g, x, mat)
    uKu = float(u @ K @ u)
    V = vol(g)
    eps_o = strain_out[True]
    en = float(np.sum(np.asarray(x) * V * np.sum(sig * eps_o, axis=0)))
    esc = max(1.0, abs(uKu))
    if abs(en - uKu) > 1e-8 * esc:
        # discrepancy explained by the doubled shear only:  sigma_obs.eps_obs - eps^T D eps with eps_obs = eps2
        eps2 = eps.copy()
        eps2[nn:] *= 2
        pred = float(np.sum(np.asarray(x)) * V * ((D @ eps2) @ eps2))
        if shear_nonzero and abs(en - pred) <= 1e-8 * max(esc, abs(pred)) and abs(uKu - float(np.sum(x) * V * ((D @ eps) @ eps))) <= 1e-8 * esc:
            out.append((f"energy identity: sum x V sigma.eps = {en:.12g} but u^T K u = {uKu:.12g} (difference is exactly the "
                        f"doubled-shear energy)", FINDING_KEY))
        else:
            out.append((f"energy identity: sum x V sigma.eps = {en:.12g} but u^T K u = {uKu:.12g}", None))
    return out


def oracle_average(g, ndof, A, b):
    """ElementAverage of f(X) = A X + b (ndof components) = f(centroid)"""
    dom = mk_dom(g)
    X = dom.get_node_position()
    dim = dom.dim
    u = np.zeros(dom.nnodes * ndof)
    for comp in range(ndof):
        u[comp::ndof] = A[comp] @ X + b[comp]
    _, y, _ = run_module("average", g, u)
    y = np.asarray(y).reshape(ndof, dom.nel)
    out = []
    siz = np.array(g["s"][:dim])
    for e in range(dom.nel):
        nodes = dom.conn[e]
        cen = X[:, nodes].mean(axis=1)
        ijk = dom.get_node_indices(nodes[0])
        cen2 = (np.asarray(ijk, dtype=float) + 0.5) * siz
        if np.abs(cen - cen2).max() > 1e-9 * max(1.0, np.abs(cen2).max()):
            out.append((f"element {e}: first node is not the lower corner", None))
            break
        exp = A @ cen2 + b
        if np.abs(y[:, e] - exp).max() > _tol(max(1.0, np.abs(exp).max())):
            out.append((f"ElementAverage of a linear field in element {e}: {y[:, e].tolist()} != centroid value {exp.tolist()}", None))
            break
    return out


def oracle_thermo(g, mat, alpha, x):
    out = []
    em, f, dom = run_thermo(g, x, mat, alpha)
    dim = dom.dim
    sc = max(1e-30, np.abs(f).max())
    for dd in range(dim):
        if abs(f[dd::dim].sum()) > 1e-9 * sc:
            out.append((f"thermal load not self-equilibrated in direction {dd}: sum = {f[dd::dim].sum():.3g}", None))
    X = dom.get_node_position()
    if dim == 2:
        mom = float(np.sum(X[0] * f[1::2] - X[1] * f[0::2]))
        if abs(mom) > 1e-9 * sc * max(1.0, np.abs(X).max()):
            out.append((f"thermal load has a net moment {mom:.3g}", None))
    K = run_K(g, x, mat)
    uth = np.zeros(dom.nnodes * dim)
    for comp in range(dim):
        uth[comp::dim] = alpha * X[comp]
    r = K @ uth
    if np.abs(r - f).max() > 1e-8 * max(sc, np.abs(r).max()):
        out.append((f"thermal load != K u_free-expansion: max diff {np.abs(r - f).max():.3g} (plane={mat['plane']}, dim={dim})", None))
    return out


def oracle_transpose(g, EMshape, ndof, rng_vals):
    """<y, ElementOperation(u)> == <NodalOperation(y), u> exactly on integer data"""
    EM, u, y = rng_vals
    ye = run_elemop(g, EM, u)
    un = run_nodalop(g, EM, y)
    lhs = float(np.sum(np.asarray(y) * ye))
    rhs = float(np.sum(un * np.asarray(u)))
    if lhs != rhs:
        return [(f"<y, ElementOperation(u)> = {lhs} but <NodalOperation(y), u> = {rhs}", None)]
    return []


# ------------------------------------------------------------------------------------------------
# correspondence
# ------------------------------------------------------------------------------------------------
def _flat2(a, rows):
    a = np.asarray(a, dtype=float)
    return a.reshape(rows, -1)


def _cmp_em(ctx, stream, case, em_impl, ans, key):
    if "ok" not in ans:
        ctx.disagree(stream, case, np.asarray(em_impl).tolist(), ans, "model error")
        return False
    re_, ir_ = frlist(ans["ok"]["re"]), frlist(ans["ok"]["ir"])
    if any(v != 0 for r in ir_ for v in r):
        ctx.disagree(stream, case, np.asarray(em_impl).tolist(), ans, "model element matrix has a sqrt(3) component")
        return False
    em = np.asarray(em_impl, dtype=float).reshape(len(re_), -1)
    scale = max(1e-300, max(abs(float(v)) for r in re_ for v in r))
    return ctx.compare_close(stream, case, em.tolist(), re_, rtol=1e-11, atol=1e-13, scale=scale, key=key)


def stream_em(ctx):
    rng = ctx.rng
    n = 40 if ctx.quick else 400
    cases, impls = [], []
    for t in range(n):
        dim = 2 if rng.random() < (0.7 if ctx.quick else 0.6) else 3
        g = {"nelx": 1, "nely": 1, "nelz": 0 if dim == 2 else 1, "dim": dim, "s": rand_sizes(rng, t % 3 == 0)}
        kind = ["strain", "stress", "average", "thermo"][t % 4]
        mat = rand_material(rng, dim)
        voigt = rng.random() < 0.5
        alpha = rng.uniform(0.1, 2.0)
        req = {"m": "c12.em", "kind": kind, "dim": dim, "s": qlist(g["s"])}
        dom_n = (2 * 2 if dim == 2 else 2 * 2 * 2) * dim
        if kind == "strain":
            req["voigt"] = voigt
            r = call_impl(run_module, "strain", g, np.zeros(dom_n), voigt=voigt)
        elif kind == "stress":
            req.update(E=q(mat["E"]), nu=q(mat["nu"]), plane=mat["plane"])
            r = call_impl(run_module, "stress", g, np.zeros(dom_n), mat=mat)
        elif kind == "average":
            r = call_impl(run_module, "average", g, np.zeros(dom_n // dim))
        else:
            req.update(E=q(mat["E"]), nu=q(mat["nu"]), plane=mat["plane"], alpha=q(alpha))
            r = call_impl(run_thermo, g, np.ones(1), mat, alpha)
        if r[0] == "err":
            ctx.disagree("em", req, r[1], "ok", r[2])
            continue
        cases.append(req)
        impls.append(r[1][0])
        ctx.branch(f"em.{kind}.{dim}d")
    res = ctx.model(cases)
    for i, (c, em, m) in enumerate(zip(cases, impls, res)):
        _cmp_em(ctx, "em", c, em, m, key=("em", i, c["kind"], c["dim"], str(c["s"])))
    if cases:
        ctx.sample({"request": cases[0], "impl_element_matrix_row0": np.asarray(impls[0]).reshape(-1)[:8].tolist()})


def stream_fields(ctx):
    rng = ctx.rng
    n = 36 if ctx.quick else 300
    cases, impls, rows = [], [], []
    keyed = 0
    for t in range(n):
        g = rand_grid(ctx, small=(t % 3 != 0))
        if g["dim"] == 3 and ctx.quick and t % 2 == 0:
            g = rand_grid(ctx, dim=2)
        dim = g["dim"]
        mat = rand_material(rng, dim)
        shearfree = t % 2 == 0
        G, c = rand_G(rng, dim, shearfree)
        dom = mk_dom(g)
        affine = t % 5 != 4
        u = affine_u(dom, G, c) if affine else np.array([rng.randint(-8, 8) / 4 for _ in range(dom.nnodes * dim)])
        x = [rng.random() for _ in range(dom.nel)]
        gen = {"grid": g, "mat": mat, "G": G.tolist(), "c": c.tolist(), "x": x, "affine": affine, "shearfree": shearfree}
        # ---- oracle on the real code
        if affine:
            r = call_impl(oracle_fields, g, mat, G, c, x)
            if r[0] == "err":
                ctx.oracle_fail(f"element operators raise on an affine field: {r[2]}", {"op": "fields", **gen})
            else:
                for what, key in r[1]:
                    if key == FINDING_KEY:
                        keyed += 1
                        ctx.branch("oracle.keyed_" + FINDING_KEY)
                        if keyed > 5:
                            continue
                    ctx.oracle_fail(what, {"op": "fields", **gen}, key=key)
            ctx.branch("fields.shearfree" if shearfree else "fields.sheared")
        else:
            ctx.branch("fields.nonaffine")
        # ---- correspondence: module outputs vs model
        base = {"nelx": g["nelx"], "nely": g["nely"], "nelz": g["nelz"], "dim": dim, "s": qlist(g["s"]), "u": qlist(u)}
        for kind, extra, args in (
                ("strain", {"voigt": True}, dict(voigt=True)),
                ("strain", {"voigt": False}, dict(voigt=False)),
                ("stress", {"E": q(mat["E"]), "nu": q(mat["nu"]), "plane": mat["plane"]}, dict(mat=mat))):
            r = call_impl(run_module, kind, g, u, **args)
            req = {"m": "c12.elemop", "kind": kind, **base, **extra, "gen": gen}
            if r[0] == "err":
                ctx.disagree("fields", req, r[1], "ok", r[2])
                continue
            cases.append(req)
            impls.append(r[1][1])
            rows.append(3 if dim == 2 else 6)
            ctx.branch(f"fields.{kind}.{dim}d")
    res = ctx.model([{k: v for k, v in c.items() if k != "gen"} for c in cases])
    for i, (c, y, m, nr) in enumerate(zip(cases, impls, res, rows)):
        if "ok" not in m:
            ctx.disagree("fields", c, np.asarray(y).tolist(), m, "model error")
            continue
        my = frlist(m["ok"]["y"])
        yy = _flat2(y, m["ok"]["rows"])
        scale = max(1.0, max(abs(float(v)) for r in my for v in r))
        ctx.compare_close("fields", c, yy.tolist(), my, rtol=1e-10, atol=1e-12, scale=scale, key=("fields", i))
    if cases:
        ctx.sample({"request": {k: v for k, v in cases[0].items() if k not in ("u", "gen")},
                    "impl_first_column": np.asarray(impls[0])[:, 0].tolist()})


def stream_average(ctx):
    rng = ctx.rng
    n = 16 if ctx.quick else 150
    cases, impls = [], []
    for t in range(n):
        g = rand_grid(ctx, small=True)
        dim = g["dim"]
        ndof = [1, 2, 3, 1][t % 4]
        A = np.array([[rng.randint(-8, 8) / 4 for _ in range(dim)] for _ in range(ndof)])
        b = np.array([rng.randint(-4, 4) / 2 for _ in range(ndof)])
        gen = {"grid": g, "ndof": ndof, "A": A.tolist(), "b": b.tolist()}
        r = call_impl(oracle_average, g, ndof, A, b)
        if r[0] == "err":
            ctx.oracle_fail(f"ElementAverage raises: {r[2]}", {"op": "average", **gen})
        else:
            for what, key in r[1]:
                ctx.oracle_fail(what, {"op": "average", **gen}, key=key)
        dom = mk_dom(g)
        X = dom.get_node_position()
        u = np.zeros(dom.nnodes * ndof)
        for comp in range(ndof):
            u[comp::ndof] = A[comp] @ X + b[comp]
        if t % 3 == 2:
            u = np.array([rng.randint(-8, 8) / 4 for _ in range(dom.nnodes * ndof)])
        r = call_impl(run_module, "average", g, u)
        req = {"m": "c12.elemop", "kind": "average", "nelx": g["nelx"], "nely": g["nely"], "nelz": g["nelz"], "dim": dim,
               "s": qlist(g["s"]), "u": qlist(u), "gen": gen}
        if r[0] == "err":
            ctx.disagree("average", req, r[1], "ok", r[2])
            continue
        cases.append(req)
        impls.append(r[1][1])
        ctx.branch(f"average.ndof{ndof}.{dim}d")
    res = ctx.model([{k: v for k, v in c.items() if k != "gen"} for c in cases])
    for i, (c, y, m) in enumerate(zip(cases, impls, res)):
        if "ok" not in m:
            ctx.disagree("average", c, np.asarray(y).tolist(), m, "model error")
            continue
        my = frlist(m["ok"]["y"])
        yy = _flat2(y, m["ok"]["rows"])
        ctx.compare_close("average", c, yy.tolist(), my, rtol=1e-11, atol=1e-12,
                          scale=max(1.0, max(abs(float(v)) for r in my for v in r)), key=("average", i))


def _rand_int_arr(rng, shape, lo=-3, hi=3):
    a = np.zeros(shape)
    it = np.nditer(a, flags=["multi_index"], op_flags=["readwrite"])
    for v in it:
        v[...] = rng.randint(lo, hi)
    return a


def stream_generic(ctx):
    rng = ctx.rng
    n = 30 if ctx.quick else 300
    reqs, impls, kinds = [], [], []
    for t in range(n):
        g = rand_grid(ctx, small=True)
        dom = mk_dom(g)
        en = dom.elemnodes
        ndof = rng.choice([1, 2, 3])
        lead = rng.choice([(), (2,), (3,), (2, 2)])
        repeat = ndof > 1 and rng.random() < 0.35
        K = en if repeat else en * ndof
        EM = _rand_int_arr(rng, lead + (K,))
        R = int(np.prod(lead)) if lead else 1
        u = _rand_int_arr(rng, (dom.nnodes * ndof,), -4, 4)
        base = {"nelx": g["nelx"], "nely": g["nely"], "nelz": g["nelz"], "EM": qlist(EM.reshape(R, K))}
        gen = {"grid": g, "ndof": ndof, "lead": list(lead), "repeat": repeat, "EM": EM.tolist(), "u": u.tolist()}
        r = call_impl(run_elemop, g, EM, u)
        req = {"m": "c12.elemop", **base, "u": qlist(u), "gen": gen}
        if r[0] == "err":
            ctx.disagree("generic", req, r[1], "ok", r[2])
        else:
            reqs.append(req)
            impls.append(r[1])
            kinds.append("elemop")
            ctx.branch("generic.elemop.repeat" if repeat else f"generic.elemop.lead{len(lead)}")
            ro = call_impl(oracle_elemop, gen)
            for what, key in (ro[1] if ro[0] == "ok" else [(f"elemop oracle raises: {ro[2]}", None)]):
                ctx.oracle_fail(what, {"op": "elemop", **gen}, key=key)
        if not repeat:
            y = _rand_int_arr(rng, lead + (dom.nel,), -4, 4)
            r = call_impl(run_nodalop, g, EM, y)
            req = {"m": "c12.nodalop", **base, "x": qlist(y.reshape(R, dom.nel)), "gen": {**gen, "y": y.tolist()}}
            if r[0] == "err":
                ctx.disagree("generic", req, r[1], "ok", r[2])
            else:
                reqs.append(req)
                impls.append(r[1])
                kinds.append("nodalop")
                ctx.branch(f"generic.nodalop.lead{len(lead)}")
            rr = call_impl(oracle_transpose, g, EM.shape, ndof, (EM, u, y))
            if rr[0] == "err":
                ctx.oracle_fail(f"transpose oracle raises: {rr[2]}", {"op": "transpose", **gen, "y": y.tolist()})
            else:
                for what, key in rr[1]:
                    ctx.oracle_fail(what, {"op": "transpose", **gen, "y": y.tolist()}, key=key)
    res = ctx.model([{k: v for k, v in c.items() if k != "gen"} for c in reqs])
    for i, (c, y, m, kd) in enumerate(zip(reqs, impls, res, kinds)):
        if "ok" not in m:
            ctx.disagree("generic", c, np.asarray(y).tolist(), m, "model error")
            continue
        if kd == "elemop":
            yy = [[Fraction(v) for v in r] for r in _flat2(y, m["ok"]["rows"]).tolist()]
            ctx.compare_exact("generic", c, yy, frlist(m["ok"]["y"]), key=("generic", i))
        else:
            ctx.compare_exact("generic", c, [Fraction(v) for v in np.asarray(y, dtype=float).tolist()], frlist(m["ok"]["y"]),
                              key=("generic", i))
    if reqs:
        ctx.sample({"request": {k: v for k, v in reqs[0].items() if k != "gen"}, "impl": np.asarray(impls[0]).tolist()})


def stream_thermo(ctx):
    rng = ctx.rng
    n = 14 if ctx.quick else 120
    reqs, impls = [], []
    for t in range(n):
        g = rand_grid(ctx, small=True)
        if g["dim"] == 3 and ctx.quick and t % 3 != 0:
            g = rand_grid(ctx, dim=2, small=True)
        dim = g["dim"]
        mat = rand_material(rng, dim)
        alpha = rng.uniform(0.1, 2.0)
        dom = mk_dom(g)
        x = [rng.random() for _ in range(dom.nel)]
        gen = {"grid": g, "mat": mat, "alpha": alpha, "x": x}
        r = call_impl(oracle_thermo, g, mat, alpha, x)
        if r[0] == "err":
            ctx.oracle_fail(f"ThermoMechanical raises: {r[2]}", {"op": "thermo", **gen})
        else:
            for what, key in r[1]:
                ctx.oracle_fail(what, {"op": "thermo", **gen}, key=key)
        r = call_impl(run_thermo, g, x, mat, alpha)
        req = {"m": "c12.nodalop", "kind": "thermo", "nelx": g["nelx"], "nely": g["nely"], "nelz": g["nelz"], "dim": dim,
               "s": qlist(g["s"]), "E": q(mat["E"]), "nu": q(mat["nu"]), "plane": mat["plane"], "alpha": q(alpha),
               "x": [qlist(x)], "gen": gen}
        if r[0] == "err":
            ctx.disagree("thermo", req, r[1], "ok", r[2])
            continue
        reqs.append(req)
        impls.append(r[1][1])
        ctx.branch(f"thermo.{dim}d.{mat['plane'].lower()}")
    res = ctx.model([{k: v for k, v in c.items() if k != "gen"} for c in reqs])
    for i, (c, y, m) in enumerate(zip(reqs, impls, res)):
        if "ok" not in m:
            ctx.disagree("thermo", c, np.asarray(y).tolist(), m, "model error")
            continue
        my = frlist(m["ok"]["y"])
        ctx.compare_close("thermo", c, np.asarray(y).tolist(), my, rtol=1e-10, atol=1e-13,
                          scale=max(1e-300, max(abs(float(v)) for v in my)), key=("thermo", i))


def stream_malformed(ctx):
    rng = ctx.rng
    pm = _pm()
    reqs, impls = [], []
    n = 10 if ctx.quick else 60
    for t in range(n):
        g = rand_grid(ctx, small=True)
        dom = mk_dom(g)
        en = dom.elemnodes
        which = t % 5
        base = {"nelx": g["nelx"], "nely": g["nely"], "nelz": g["nelz"]}
        if which == 0:      # K not a multiple of elemnodes -> IndexError at construction
            K = en + rng.randint(1, en - 1)
            EM = _rand_int_arr(rng, (2, K))
            u = np.zeros(dom.nnodes)
            r = call_impl(run_elemop, g, EM, u)
            req = {"m": "c12.elemop", **base, "EM": qlist(EM), "u": qlist(u)}
        elif which == 1:    # len(u) not a multiple of nnodes
            EM = _rand_int_arr(rng, (en,))
            u = np.zeros(dom.nnodes + 1)
            r = call_impl(run_elemop, g, EM, u)
            req = {"m": "c12.elemop", **base, "EM": qlist(EM.reshape(1, -1)), "u": qlist(u)}
        elif which == 2:    # K = 2*elemnodes with 3 dofs per node -> Assertion
            EM = _rand_int_arr(rng, (2 * en,))
            u = np.zeros(dom.nnodes * 3)
            r = call_impl(run_elemop, g, EM, u)
            req = {"m": "c12.elemop", **base, "EM": qlist(EM.reshape(1, -1)), "u": qlist(u)}
        elif which == 3:    # NodalOperation with K not a multiple of elemnodes
            K = en + rng.randint(1, en - 1)
            EM = _rand_int_arr(rng, (K,))
            x = np.zeros(dom.nel)
            r = call_impl(run_nodalop, g, EM, x)
            req = {"m": "c12.nodalop", **base, "EM": qlist(EM.reshape(1, -1)), "x": [qlist(x)]}
        else:               # material errors
            mat = {"E": 1.0, "nu": rng.choice([0.5, -1.0, 0.3]), "plane": rng.choice(["foo", "strain", "3d" if g["dim"] == 2 else "foo"])}
            if mat["nu"] == 0.3 and mat["plane"] == "strain":
                mat["plane"] = "foo"
            u = np.zeros(dom.nnodes * g["dim"])
            r = call_impl(run_module, "stress", g, u, mat=mat)
            req = {"m": "c12.elemop", "kind": "stress", **base, "dim": g["dim"], "s": qlist(g["s"]), "E": q(mat["E"]),
                   "nu": q(mat["nu"]), "plane": mat["plane"], "u": qlist(u)}
        reqs.append(req)
        impls.append(r)
        ctx.branch(f"malformed.{which}")
    res = ctx.model(reqs)
    for i, (c, r, m) in enumerate(zip(reqs, impls, res)):
        impl_err = r[1] if r[0] == "err" else "ok"
        model_err = m.get("err", "ok") if "ok" not in m else "ok"
        ctx.compare_exact("malformed", c, impl_err, model_err, key=("malformed", i), nontrivial=True)


# ------------------------------------------------------------------------------------------------
# sensitivities (C01 for this family): ElementOperation._sensitivity / NodalOperation._sensitivity
# ------------------------------------------------------------------------------------------------
def run_elemop_sens(g, EM, u, dy, v):
    """real code: response, sensitivity for the seed dy, and the adjoint pairing with direction v"""
    m, su, dom = _tested("elemop", g, u, EM=EM)
    m.response()
    y0 = np.array(m.sig_out[0].state, dtype=float)
    m.sig_out[0].sensitivity = np.array(dy, dtype=float).reshape(y0.shape)
    m.sensitivity()
    du = np.array(su.sensitivity, dtype=float)
    y1 = run_elemop(g, EM, np.asarray(u, dtype=float) + np.asarray(v, dtype=float))
    lhs = float(np.sum(np.array(dy, dtype=float).reshape(y0.shape) * (y1 - y0)))
    rhs = float(np.sum(du * np.asarray(v, dtype=float)))
    return du, y0.shape, lhs, rhs


def run_nodalop_sens(g, EM, x, dxseed, v):
    m, sx, dom = _tested("nodalop", g, x, EM=EM)
    m.response()
    y0 = np.array(m.sig_out[0].state, dtype=float)
    m.sig_out[0].sensitivity = np.array(dxseed, dtype=float)
    m.sensitivity()
    g_x = np.array(sx.sensitivity, dtype=float)
    y1 = run_nodalop(g, EM, np.asarray(x, dtype=float) + np.asarray(v, dtype=float))
    lhs = float(np.sum(np.asarray(dxseed, dtype=float) * (y1 - y0)))
    rhs = float(np.sum(g_x * np.asarray(v, dtype=float)))
    return g_x, lhs, rhs


def stream_sens(ctx):
    rng = ctx.rng
    n = 30 if ctx.quick else 300
    reqs, impls, kinds = [], [], []
    for t in range(n):
        g = rand_grid(ctx, small=True)
        dom = mk_dom(g)
        en = dom.elemnodes
        ndof = rng.choice([1, 2, 3])
        lead = rng.choice([(), (2,), (3,), (2, 2)])
        repeat = ndof > 1 and rng.random() < 0.4
        K = en if repeat else en * ndof
        EM = _rand_int_arr(rng, lead + (K,))
        R = int(np.prod(lead)) if lead else 1
        u = _rand_int_arr(rng, (dom.nnodes * ndof,), -4, 4)
        v = _rand_int_arr(rng, (dom.nnodes * ndof,), -3, 3)
        rows = ndof * R if repeat else R
        dy = _rand_int_arr(rng, (rows, dom.nel), -3, 3)
        base = {"nelx": g["nelx"], "nely": g["nely"], "nelz": g["nelz"], "EM": qlist(EM.reshape(R, K))}
        gen = {"grid": g, "ndof": ndof, "lead": list(lead), "repeat": repeat, "EM": EM.tolist(), "u": u.tolist(),
               "v": v.tolist(), "dy": dy.tolist(), "sens": "elemop"}
        r = call_impl(run_elemop_sens, g, EM, u, dy, v)
        req = {"m": "c12.elemop_sens", **base, "usize": int(u.size), "dy": qlist(dy), "gen": gen}
        if r[0] == "err":
            ctx.disagree("sens", req, r[1], "ok", r[2])
        else:
            du, shp, lhs, rhs = r[1]
            if lhs != rhs:
                ctx.oracle_fail(f"ElementOperation: <w, Op(u+v) - Op(u)> = {lhs} but <sens(w), v> = {rhs}", {"op": "sens", **gen})
            reqs.append(req)
            impls.append(du)
            kinds.append("elemop")
            ctx.branch("sens.elemop.repeat" if repeat else f"sens.elemop.lead{len(lead)}")
        if not repeat:
            x = _rand_int_arr(rng, lead + (dom.nel,), -4, 4)
            vx = _rand_int_arr(rng, lead + (dom.nel,), -3, 3)
            seed = _rand_int_arr(rng, (dom.nnodes * ndof,), -3, 3)
            gen2 = {"grid": g, "ndof": ndof, "lead": list(lead), "EM": EM.tolist(), "x": x.tolist(), "v": vx.tolist(),
                    "seed": seed.tolist(), "sens": "nodalop"}
            r = call_impl(run_nodalop_sens, g, EM, x, seed, vx)
            req = {"m": "c12.nodalop_sens", **base, "dx": qlist(seed), "gen": gen2}
            if r[0] == "err":
                ctx.disagree("sens", req, r[1], "ok", r[2])
            else:
                gx, lhs, rhs = r[1]
                if lhs != rhs:
                    ctx.oracle_fail(f"NodalOperation: <w, Op(x+v) - Op(x)> = {lhs} but <sens(w), v> = {rhs}", {"op": "sens", **gen2})
                reqs.append(req)
                impls.append(gx)
                kinds.append("nodalop")
                ctx.branch(f"sens.nodalop.lead{len(lead)}")
    res = ctx.model([{k: v for k, v in c.items() if k != "gen"} for c in reqs])
    for i, (c, y, m, kd) in enumerate(zip(reqs, impls, res, kinds)):
        if "ok" not in m:
            ctx.disagree("sens", c, np.asarray(y).tolist(), m, "model error")
            continue
        if kd == "elemop":
            ctx.compare_exact("sens", c, [Fraction(v) for v in np.asarray(y, dtype=float).ravel().tolist()], frlist(m["ok"]["du"]),
                              key=("sens", i))
        else:
            yy = [[Fraction(v) for v in r] for r in _flat2(y, m["ok"]["rows"]).tolist()]
            ctx.compare_exact("sens", c, yy, frlist(m["ok"]["y"]), key=("sens", i))
    if reqs:
        ctx.sample({"request": {k: v for k, v in reqs[0].items() if k != "gen"}, "impl_du": np.asarray(impls[0]).tolist()})


def oracle_sens(gen):
    g = gen["grid"]
    if gen["sens"] == "elemop":
        _, _, lhs, rhs = run_elemop_sens(g, np.array(gen["EM"]), np.array(gen["u"]), np.array(gen["dy"]), np.array(gen["v"]))
        name = "ElementOperation"
    else:
        _, lhs, rhs = run_nodalop_sens(g, np.array(gen["EM"]), np.array(gen["x"]), np.array(gen["seed"]), np.array(gen["v"]))
        name = "NodalOperation"
    return [] if lhs == rhs else [(f"{name}: <w, Op(u+v) - Op(u)> = {lhs} but <sens(w), v> = {rhs}", None)]


def correspondence(ctx):
    corpus_witness(ctx)
    stream_em(ctx)
    stream_fields(ctx)
    stream_average(ctx)
    stream_generic(ctx)
    stream_thermo(ctx)
    stream_malformed(ctx)
    stream_sens(ctx)


# ------------------------------------------------------------------------------------------------
# known finding: witness, probe
# ------------------------------------------------------------------------------------------------
def _load_witness():
    with open(WITNESS) as f:
        return json.load(f)


def _witness_run(w):
    g = w["grid"]
    G = np.array(w["G"], dtype=float)
    c = np.array(w["c"], dtype=float)
    dom = mk_dom(g)
    u = affine_u(dom, G, c)
    _, y, _ = run_module("strain", g, u, voigt=True)
    return y, eng_strain(G, g["dim"])


def probe(ctx):
    """description string while Strain(voigt=True) still doubles the engineering shear on the witness, else None"""
    w = _load_witness()
    y, eps = _witness_run(w)
    nn = w["grid"]["dim"]
    obs = float(y[nn, 0])
    if abs(obs - eps[nn]) <= 1e-12 * max(1.0, abs(eps[nn])):
        return None
    return f"gamma_xy = {obs}, symmetric gradient gives {float(eps[nn])}"


FINDING_PROBES = {FINDING_KEY: probe}


def corpus_witness(ctx):
    """the witness of the open finding also runs through the correspondence (model is AS CODED, so it must agree)"""
    w = _load_witness()
    g = w["grid"]
    dom = mk_dom(g)
    u = affine_u(dom, np.array(w["G"], dtype=float), np.array(w["c"], dtype=float))
    _, y, _ = run_module("strain", g, u, voigt=True)
    req = {"m": "c12.elemop", "kind": "strain", "voigt": True, "nelx": g["nelx"], "nely": g["nely"], "nelz": g["nelz"],
           "dim": g["dim"], "s": qlist(g["s"]), "u": qlist(u)}
    m = ctx.model([req])[0]
    if "ok" not in m:
        ctx.disagree("corpus", req, y.tolist(), m, "model error")
        return
    ctx.compare_close("corpus", req, _flat2(y, 3).tolist(), frlist(m["ok"]["y"]), rtol=1e-12, atol=1e-13, key=("corpus", "shear"))
    ctx.branch("corpus.witness")


# ------------------------------------------------------------------------------------------------
# search / replay
# ------------------------------------------------------------------------------------------------
def oracle_elemop(gen):
    """ElementOperation by its documented definition, with plain loops over elements / local nodes / dofs:
    full operator (..., #dofs_per_element):  y[..., e] = sum_k B[..., k] u[dofconn[e, k]]
    per-node operator (..., #nodes_per_element) with ndof > 1:  y[i, ..., e] = sum_n B[..., n] u[ndof*conn[e, n] + i]"""
    g, ndof, repeat = gen["grid"], gen["ndof"], gen["repeat"]
    EM, u = np.array(gen["EM"], dtype=float), np.array(gen["u"], dtype=float)
    dom = mk_dom(g)
    y = np.asarray(run_elemop(g, EM, u), dtype=float)
    lead = EM.shape[:-1]
    conn = np.asarray(dom.conn)
    if repeat:
        want = np.zeros((ndof,) + lead + (dom.nel,))
        for e in range(dom.nel):
            for i in range(ndof):
                for n in range(dom.elemnodes):
                    want[(i,) + (Ellipsis, e)] += EM[..., n] * u[ndof * conn[e, n] + i]
    else:
        want = np.zeros(lead + (dom.nel,))
        for e in range(dom.nel):
            for n in range(dom.elemnodes):
                for i in range(ndof):
                    want[..., e] += EM[..., n * ndof + i] * u[ndof * conn[e, n] + i]
    if y.shape != want.shape:
        return [(f"ElementOperation output has shape {list(y.shape)}, its definition gives {list(want.shape)} "
                 f"(operator {list(EM.shape)}, {ndof} dofs per node)", None)]
    if not np.abs(y - want).max() <= _tol(np.abs(want).max()):
        return [(f"ElementOperation output differs from y = B u_e (max deviation {np.abs(y - want).max():.3e}; operator {list(EM.shape)}, "
                 f"{ndof} dofs per node, {'per-node operator' if repeat else 'full operator'})", None)]
    return []


def _oracle_for(gen, op):
    if op == "elemop":
        return oracle_elemop(gen)
    if op == "fields":
        return oracle_fields(gen["grid"], gen["mat"], np.array(gen["G"], dtype=float), np.array(gen["c"], dtype=float), gen["x"])
    if op == "average":
        return oracle_average(gen["grid"], gen["ndof"], np.array(gen["A"], dtype=float), np.array(gen["b"], dtype=float))
    if op == "thermo":
        return oracle_thermo(gen["grid"], gen["mat"], gen["alpha"], gen["x"])
    if op == "sens":
        return oracle_sens(gen)
    if op == "transpose":
        return oracle_transpose(gen["grid"], None, gen["ndof"], (np.array(gen["EM"]), np.array(gen["u"]), np.array(gen["y"])))
    return []


def _op_of(gen, stream):
    if "sens" in gen:
        return "sens"
    if "G" in gen and "mat" in gen:
        return "fields" if gen.get("affine", True) else None
    if "A" in gen:
        return "average"
    if "alpha" in gen:
        return "thermo"
    if "y" in gen:
        return "transpose"
    if "EM" in gen and "u" in gen and "repeat" in gen:
        return "elemop"
    return None


def search(ctx, disagreements):
    found = []
    seen = 0
    for dct in disagreements:
        c = dct.get("case") or {}
        gen = c.get("gen") if isinstance(c, dict) else None
        if not gen:
            continue
        op = _op_of(gen, dct.get("stream"))
        if not op:
            continue
        seen += 1
        r = call_impl(_oracle_for, gen, op)
        if r[0] == "err":
            found.append({"what": f"oracle raises {r[2]}", "witness": {"op": op, **gen}, "finding_key": None})
        else:
            for what, key in r[1]:
                found.append({"what": what, "witness": {"op": op, **gen}, "finding_key": key})
        if seen >= 12:
            break
    # sweep of small fresh cases
    rng = ctx.rng
    for t in range(12):
        g = rand_grid(ctx, small=True)
        mat = rand_material(rng, g["dim"])
        G, c = rand_G(rng, g["dim"], shearfree=True)
        dom = mk_dom(g)
        x = [rng.random() for _ in range(dom.nel)]
        gen = {"grid": g, "mat": mat, "G": G.tolist(), "c": c.tolist(), "x": x, "affine": True}
        for op, gg in (("fields", gen), ("thermo", {"grid": g, "mat": mat, "alpha": 0.5, "x": x})):
            r = call_impl(_oracle_for, gg, op)
            if r[0] == "err":
                found.append({"what": f"oracle raises {r[2]}", "witness": {"op": op, **gg}, "finding_key": None})
            else:
                for what, key in r[1]:
                    found.append({"what": what, "witness": {"op": op, **gg}, "finding_key": key})
    found.sort(key=lambda w: (w["finding_key"] is not None, len(json.dumps(w["witness"], default=str))))
    return found[:8]


def replay(ctx, data):
    w = data.get("witness", data)
    w = w.get("witness", w) if isinstance(w, dict) else w
    op = w.get("op")
    if op is None and "G" in w and "grid" in w:  # corpus witness format
        y, eps = _witness_run(w)
        nn = w["grid"]["dim"]
        bad = abs(float(y[nn, 0]) - eps[nn]) > 1e-12
        return {"still_failing": bool(bad), "what": f"gamma = {float(y[nn, 0])}, engineering shear {float(eps[nn])}"}
    if op in ("fields", "average", "thermo", "transpose", "sens", "elemop"):
        if op == "fields" and "mat" not in w:
            w = {**w, "mat": {"E": 1.0, "nu": 0.3, "plane": "strain"}}
        r = call_impl(_oracle_for, w, op)
        if r[0] == "err":
            return {"still_failing": True, "what": r[2]}
        return {"still_failing": bool(r[1]), "what": "; ".join(x[0] for x in r[1])}
    return {"still_failing": False, "note": "replay file names no failing input (see no_longer_checks)"}
