"""C13 — structured-grid numbering, connectivity, shape functions (pymoto/common/domain.py)

correspondence: real DomainDefinition vs Lean model `Core/Domain.lean` (driver ops c13.grid, c13.shape)
search/oracle : bijectivity, corner sets, partition of unity, Kronecker, derivative on the real object
"""
import itertools
from fractions import Fraction

import numpy as np

from ..common import q, qlist, frlist, call_impl

RULE = ("grids: exhaustive nelx,nely in [1,N], nelz in [0,N] (N=4 quick / 7 thorough) x ndof in {1,2,3,6} plus random larger "
        "grids; shape functions at random dyadic (exact) and arbitrary-float (tolerance) points/sizes. "
        "distinct = distinct (grid, ndof) or (dim, sizes, point) cases; all are non-trivial (nel >= 1)")
ASSUMPTIONS = ["1-D domains (nely = 0) are outside the property's quantifier and are not generated"]


def _pm():
    import pymoto
    return pymoto


def impl_grid(nelx, nely, nelz, ndof):
    pm = _pm()
    d = pm.DomainDefinition(nelx, nely, nelz)
    return {
        "dim": int(d.dim), "nel": int(d.nel), "nnodes": int(d.nnodes),
        "conn": np.asarray(d.conn).tolist(),
        "dofconn": np.asarray(d.get_dofconnectivity(ndof)).tolist(),
        "elements": np.asarray(d.elements).flatten().tolist(),
        "nodes": np.asarray(d.nodes).flatten().tolist(),
        "node_indices": np.asarray(d.get_node_indices()).tolist(),
    }, d


def oracle_grid(ctx, nelx, nely, nelz, ndof, d):
    """direct property check on the real object; returns description of failure or None"""
    nz = max(nelz, 1)
    dim = 2 if nelz == 0 else 3
    # element numbers: bijection
    els = [int(d.get_elemnumber(i, j, k)) for i in range(nelx) for j in range(nely) for k in range(nz)]
    if sorted(els) != list(range(nelx * nely * nz)):
        return "element numbering is not a bijection onto [0, nel)"
    nds = [int(d.get_nodenumber(i, j, k)) for i in range(nelx + 1) for j in range(nely + 1) for k in range(nelz + 1)]
    if sorted(nds) != list(range((nelx + 1) * (nely + 1) * (nelz + 1))):
        return "node numbering is not a bijection onto [0, nnodes)"
    # node indices invert node numbers
    idx = d.get_node_indices()
    for n in range(d.nnodes):
        ijk = [int(v) for v in idx[:, n]] + ([0] if dim == 2 else [])
        if int(d.get_nodenumber(*ijk)) != n:
            return f"get_node_indices({n}) = {ijk} does not map back"
    # corners in documented order
    for i in range(nelx):
        for j in range(nely):
            for k in range(nz):
                e = int(d.get_elemnumber(i, j, k))
                want = []
                for l in range(2 ** dim):
                    want.append(int(d.get_nodenumber(i + (l & 1), j + ((l >> 1) & 1), k + ((l >> 2) & 1))))
                if [int(v) for v in d.conn[e]] != want:
                    return f"conn[{e}] = {d.conn[e].tolist()} expected corners {want}"
                if len(set(want)) != 2 ** dim:
                    return "corner nodes not distinct"
    dc = d.get_dofconnectivity(ndof)
    for e in range(d.nel):
        want = [int(n) * ndof + c for n in d.conn[e] for c in range(ndof)]
        if [int(v) for v in dc[e]] != want:
            return f"dofconn[{e}] = {dc[e].tolist()} expected {want}"
    # node positions
    pos = d.get_node_position()
    if not np.array_equal(pos, (d.element_size[:dim] * idx.T).T):
        return "node position != index * element size"
    return None


def impl_shape(dim, s, p, int_pos=False):
    pm = _pm()
    d = pm.DomainDefinition(1, 1, 0 if dim == 2 else 1, *[float(v) for v in s])
    pos = np.array(p, dtype=int) if int_pos else np.array(p, dtype=float)
    N, dN = d.eval_shape_fun(pos), d.eval_shape_fun_der(pos)
    keepN, keepdN = np.array(N, copy=True), np.array(dN, copy=True)
    # a caller tabulating several points keeps the returned arrays: a later evaluation at another point must not change them
    other = np.array([0.25 * float(v) * (1 if i % 2 else -1) for i, v in enumerate(s[:dim])])
    d.eval_shape_fun(other)
    d.eval_shape_fun_der(other)
    if not (np.array_equal(N, keepN) and np.array_equal(dN, keepdN)):
        raise AssertionError("the array returned for one point was changed by the evaluation at another point (shared work array)")
    return N, dN, d


def oracle_shape(dim, s, p, d):
    """partition of unity, non-negativity, Kronecker, derivative = gradient (exact rational re-computation)"""
    N = d.eval_shape_fun(np.array(p, dtype=float))
    dN = d.eval_shape_fun_der(np.array(p, dtype=float))
    tol = 1e-12
    if abs(N.sum() - 1) > tol:
        return f"sum N = {N.sum()}"
    if N.min() < -tol:
        return f"negative shape function {N.min()}"
    for m in range(2 ** dim):
        c = np.array([(1 if (m >> a) & 1 else -1) * s[a] / 2 for a in range(dim)])
        Nm = d.eval_shape_fun(c)
        e = np.zeros(2 ** dim)
        e[m] = 1
        if np.abs(Nm - e).max() > tol:
            return f"N(corner {m}) = {Nm.tolist()}"
    # N is multilinear: central difference is exact up to rounding
    for a in range(dim):
        h = s[a] / 8
        pp, pm_ = np.array(p, dtype=float), np.array(p, dtype=float)
        pp[a] += h
        pm_[a] -= h
        g = (d.eval_shape_fun(pp) - d.eval_shape_fun(pm_)) / (2 * h)
        if np.abs(g - dN[a]).max() > 1e-9 * max(1.0, np.abs(g).max()):
            return f"dN[{a}] = {dN[a].tolist()} but gradient is {g.tolist()}"
    return None


def grids(ctx):
    N = 4 if ctx.quick else 7
    for nelx in range(1, N + 1):
        for nely in range(1, N + 1):
            for nelz in range(0, N + 1):
                yield nelx, nely, nelz
    nrand = 10 if ctx.quick else 60
    for _ in range(nrand):
        if ctx.rng.random() < 0.5:
            yield ctx.rng.randint(1, 40), ctx.rng.randint(1, 40), 0
        else:
            yield ctx.rng.randint(1, 12), ctx.rng.randint(1, 12), ctx.rng.randint(1, 12)


def array_arguments(ctx, cases, res):
    """the numbering / connectivity methods called with scalars, 1-D arrays and index GRIDS (2-D / 3-D arrays, as produced by
    np.meshgrid): the result must have the shape of the index arrays (+ the corner axis LAST for connectivities) and hold,
    entry by entry, what the MODEL's tables say for that Cartesian index"""
    pm = _pm()
    rng = ctx.rng
    done = 0
    for c, m in zip(cases, res):
        if "ok" not in m or done >= (40 if ctx.quick else 400):
            continue
        nelx, nely, nelz = c["nelx"], c["nely"], c["nelz"]
        nz = max(nelz, 1)
        if nelx * nely * nz > 400:
            continue
        done += 1
        mo = m["ok"]
        E = np.array(mo["elements"], dtype=np.int64).reshape(nelx, nely, nz)
        N = np.array(mo["nodes"], dtype=np.int64).reshape(nelx + 1, nely + 1, nelz + 1)
        C = np.array(mo["conn"], dtype=np.int64)
        d = pm.DomainDefinition(nelx, nely, nelz)
        for shp in [(), (rng.randint(1, 5),), (rng.randint(1, 3), rng.randint(1, 3)), (2, rng.randint(1, 3), rng.randint(1, 2)),
                    (rng.randint(2, 3),) * 2, (2, 2, 2)]:
            def idx(hi):
                a = np.array([rng.randint(0, hi - 1) for _ in range(int(np.prod(shp)) if shp else 1)], dtype=np.int64)
                return int(a[0]) if shp == () else a.reshape(shp)
            i, j, k = idx(nelx), idx(nely), idx(nz)
            args = (i, j) if (nelz == 0 and rng.random() < 0.5) else (i, j, k if nelz else (0 if shp == () else np.zeros(shp, dtype=np.int64)))
            kk = args[2] if len(args) == 3 else (0 if shp == () else np.zeros(shp, dtype=np.int64))
            case = {"op": "array-args", "grid": [nelx, nely, nelz], "shape": list(shp), "i": np.asarray(i).tolist(),
                    "j": np.asarray(j).tolist(), "k": np.asarray(kk).tolist()}
            r = call_impl(lambda: (np.asarray(d.get_elemnumber(*args)), np.asarray(d.get_elemconnectivity(*args))))
            if r[0] == "err":
                ctx.disagree("array-args", case, r[1], "ok", r[2])
                continue
            en, ec = r[1]
            want_n = E[i, j, kk]
            want_c = C[want_n]                     # index shape + (2^dim,)
            ok = ctx.compare_exact("array-args", case, {"elemnumber": [list(en.shape), en.flatten().tolist()],
                                                        "conn": [list(ec.shape), ec.flatten().tolist()]},
                                   {"elemnumber": [list(np.shape(want_n)), np.asarray(want_n).flatten().tolist()],
                                    "conn": [list(np.shape(want_c)), np.asarray(want_c).flatten().tolist()]},
                                   key=("array-args", nelx, nely, nelz, shp, str(case["i"]), str(case["j"]), str(case["k"])))
            if not ok:
                ctx.oracle_fail(f"get_elemconnectivity / get_elemnumber with index arrays of shape {shp} on grid {nelx}x{nely}x{nelz}: "
                                f"result shape {list(ec.shape)} / values differ from the per-index connectivity", case)
            # node numbers / positions with index arrays
            ni, nj, nk = idx(nelx + 1), idx(nely + 1), idx(nelz + 1)
            r = call_impl(lambda: np.asarray(d.get_nodenumber(ni, nj, nk)))
            if r[0] == "err":
                ctx.disagree("array-args", case, r[1], "ok", r[2])
                continue
            ctx.compare_exact("array-args.node", case, [list(r[1].shape), r[1].flatten().tolist()],
                              [list(np.shape(N[ni, nj, nk])), np.asarray(N[ni, nj, nk]).flatten().tolist()],
                              key=("array-args.node", nelx, nely, nelz, shp, str(np.asarray(ni).tolist()), str(np.asarray(nj).tolist())))
            ctx.branch("array-args.rank%d" % len(shp))
            # node positions for node-number arrays in any memory layout (a slice of the node table, its transpose, F order)
            if len(shp) >= 2:
                nn_ = np.asarray(N[ni, nj, nk])
                for lay, arr in (("C", np.ascontiguousarray(nn_)), ("F", np.asfortranarray(nn_)), ("T", np.ascontiguousarray(nn_.T).T)):
                    rp = call_impl(lambda: np.asarray(d.get_node_position(arr)))
                    if rp[0] == "err":
                        ctx.disagree("array-args.pos", case, rp[1], "ok", rp[2])
                        continue
                    dim_ = 2 if nelz == 0 else 3
                    es_ = np.asarray(d.element_size[:dim_], dtype=float)
                    want_p = np.stack([ni, nj, nk][:dim_], axis=0) * es_.reshape((dim_,) + (1,) * len(shp))
                    okp = ctx.compare_exact("array-args.pos", dict(case, layout=lay), [list(rp[1].shape), rp[1].flatten().tolist()],
                                            [list(want_p.shape), want_p.flatten().tolist()],
                                            key=("array-args.pos", nelx, nely, nelz, shp, lay, str(np.asarray(ni).tolist())))
                    if not okp:
                        ctx.oracle_fail(f"get_node_position for a node-number array of shape {shp} in memory layout {lay}: positions are not "
                                        f"index times element size", dict(case, layout=lay))


def ownership(ctx, cases, res):
    """what a domain hands out belongs to the caller, and domains are independent objects: tables returned by a domain are modified
    in place (block numbering `t += offset` is the usual reason), and the node-numbering table of ANOTHER domain of the same
    dimension is permuted in place (the source invites users to override it); afterwards the domain under test — and a domain
    constructed afterwards — must still report exactly the model's tables, and its shape functions must be one at their own node"""
    pm = _pm()
    done = 0
    for c, m in zip(cases, res):
        if "ok" not in m or done >= (24 if ctx.quick else 200):
            continue
        nelx, nely, nelz, nd = c["nelx"], c["nely"], c["nelz"], c["ndof"]
        if nelx * nely * max(nelz, 1) > 200:
            continue
        done += 1
        mo = m["ok"]
        case = {"op": "ownership", "grid": [nelx, nely, nelz], "ndof": nd}

        def tables(d):
            return {"conn": np.asarray(d.conn).tolist(), "dofconn1": np.asarray(d.get_dofconnectivity(1)).tolist(),
                    "dofconn": np.asarray(d.get_dofconnectivity(nd)).tolist(),
                    "elements": np.asarray(d.elements).flatten().tolist(), "nodes": np.asarray(d.nodes).flatten().tolist(),
                    "node_indices": np.asarray(d.get_node_indices()).tolist()}
        want = {"conn": mo["conn"], "dofconn1": mo["conn"], "dofconn": mo["dofconn"], "elements": mo["elements"],
                "nodes": mo["nodes"], "node_indices": mo["node_indices"]}

        def scribble():
            d = pm.DomainDefinition(nelx, nely, nelz)
            for get in (lambda: d.get_dofconnectivity(1), lambda: d.get_dofconnectivity(nd), lambda: d.get_node_indices(),
                        lambda: d.get_elemconnectivity(0, 0, 0), lambda: d.get_elemconnectivity(np.array([0]), np.array([0]), np.array([0])),
                        lambda: d.get_elemnumber(np.array([0]), np.array([0]), np.array([0])),
                        lambda: d.get_nodenumber(np.array([0, 1]), np.array([0, 1]), np.array([0, 0])),
                        lambda: d.get_node_position(np.array([0, 1])),
                        lambda: d.eval_shape_fun(np.zeros(3)), lambda: d.eval_shape_fun_der(np.zeros(3))):
                t = get()
                if isinstance(t, np.ndarray) and t.flags.writeable and t.size:
                    t += 7 * (d.nnodes + 1)          # in place: the returned array is the caller's
            return tables(d)
        r = call_impl(scribble)
        if r[0] == "err":
            ctx.disagree("ownership", case, r[1], "ok", r[2])
        elif not ctx.compare_exact("ownership.returned", case, r[1], want, key=("ownership.returned", nelx, nely, nelz, nd)):
            bad = [k for k in want if r[1][k] != want[k]]
            ctx.oracle_fail(f"grid {nelx}x{nely}x{nelz}: after the caller modified arrays RETURNED by the domain in place, the domain "
                            f"reports different tables ({', '.join(bad)}): a returned array aliases the domain's own data", case)

        def decoy():
            other = pm.DomainDefinition(max(1, nely), max(1, nelx), 1 if nelz else 0)   # same dimension, another object
            nn = other.node_numbering
            nn[0], nn[-1] = nn[-1], nn[0]             # custom numbering of the OTHER domain, edited in place
            nn[1][0] = -nn[1][0]
            d = pm.DomainDefinition(nelx, nely, nelz)
            dim = 3 if nelz else 2
            own = []
            for a in range(2 ** dim):                # shape function a at its own node (documented local order)
                sgn = [(-1 if not (a >> ax) & 1 else 1) for ax in range(dim)]
                pos = np.array([sgn[ax] * d.element_size[ax] / 2 for ax in range(dim)] + [0.0] * (3 - dim))
                own.append(float(d.eval_shape_fun(pos)[a]))
            return tables(d), own
        r = call_impl(decoy)
        if r[0] == "err":
            ctx.disagree("ownership", case, r[1], "ok", r[2])
        else:
            tb, own = r[1]
            ok = ctx.compare_exact("ownership.decoy", case, tb, want, key=("ownership.decoy", nelx, nely, nelz, nd))
            if not ok or any(abs(v - 1.0) > 1e-12 for v in own):
                ctx.oracle_fail(f"grid {nelx}x{nely}x{nelz}: a domain constructed after ANOTHER domain's node numbering was customised in "
                                f"place does not have the documented connectivity / shape functions (own-node values {own})", case)
        ctx.branch("ownership")


def correspondence(ctx):
    # ---- grids (mode E) ------------------------------------------------------------------
    cases, impls = [], []
    ndofs = [1, 2, 3, 6]
    for gi, (nelx, nely, nelz) in enumerate(grids(ctx)):
        ndof = ndofs[gi % 4] if ctx.quick else None
        for nd in ([ndof] if ndof else ndofs if nelx * nely * max(nelz, 1) <= 64 else [ndofs[gi % 4]]):
            r = call_impl(impl_grid, nelx, nely, nelz, nd)
            if r[0] == "err":
                ctx.disagree("grid", {"nelx": nelx, "nely": nely, "nelz": nelz, "ndof": nd}, r[1], "ok", r[2])
                continue
            out, d = r[1]
            why = oracle_grid(ctx, nelx, nely, nelz, nd, d) if (ctx.quick and d.nel <= 200) or not ctx.quick else None
            if why:
                ctx.oracle_fail(why, {"op": "grid", "nelx": nelx, "nely": nely, "nelz": nelz, "ndof": nd})
            cases.append({"m": "c13.grid", "nelx": nelx, "nely": nely, "nelz": nelz, "ndof": nd})
            impls.append(out)
            ctx.branch("grid.3d" if nelz else "grid.2d")
    res = ctx.model(cases)
    for c, i, m in zip(cases, impls, res):
        if "ok" not in m:
            ctx.disagree("grid", c, i, m, "model error")
            continue
        ctx.compare_exact("grid", c, i, m["ok"], key=("grid", c["nelx"], c["nely"], c["nelz"], c["ndof"]))
    if cases:
        ctx.sample({"request": cases[len(cases) // 2], "conn_first_row": impls[len(cases) // 2]["conn"][0]})
    array_arguments(ctx, cases, res)
    ownership(ctx, cases, res)

    # ---- shape functions -------------------------------------------------------------------
    n = 60 if ctx.quick else 600
    cases, impls, modes = [], [], []
    for t in range(n):
        dim = 2 if ctx.rng.random() < 0.5 else 3
        exact = t % 2 == 0
        if exact:  # dyadic sizes and points -> every float operation of the implementation is exact
            s = [2.0 ** ctx.rng.randint(-2, 2) for _ in range(dim)]
            p = [ctx.rng.randint(-8, 8) / 16 * s[a] for a in range(dim)]
        else:
            s = [ctx.rng.uniform(0.05, 7.0) for _ in range(dim)]
            p = [ctx.rng.uniform(-0.5, 0.5) * s[a] for a in range(dim)]
        int_pos = False
        if exact and t % 6 == 0:
            # whole-number points passed as an INTEGER array (as ElementAverage does) on elements wider than 2:
            # includes faces / edges / corners (coordinate exactly +-size/2)
            s = [float(ctx.rng.choice([2, 4, 8, 16])) for _ in range(dim)]
            p = [float(ctx.rng.randint(-int(s[a] // 2), int(s[a] // 2))) for a in range(dim)]
            int_pos = True
        elif exact and t % 6 == 2:
            # points ON the boundary of the element (faces, edges, corners)
            p = [ctx.rng.choice([-0.5, 0.5, ctx.rng.randint(-8, 8) / 16]) * s[a] for a in range(dim)]
        r = call_impl(impl_shape, dim, s, p, int_pos)
        if r[0] == "err":
            ctx.disagree("shape", {"dim": dim, "s": s, "p": p}, r[1], "ok", r[2])
            continue
        N, dN, d = r[1]
        ctx.branch("shape.intpos" if int_pos else "shape.floatpos")
        why = oracle_shape(dim, s, p, d)
        if not why and int_pos:
            # the values for an integer-typed point must be those of the same point given as floats
            Nf, dNf = d.eval_shape_fun(np.array(p, dtype=float)), d.eval_shape_fun_der(np.array(p, dtype=float))
            if not (np.array_equal(N, Nf) and np.array_equal(dN, dNf)):
                why = f"integer-typed evaluation point gives N = {np.asarray(N).tolist()} but the same point as floats gives {Nf.tolist()}"
        if why:
            ctx.oracle_fail(why, {"op": "shape", "dim": dim, "s": s, "p": p, "int_pos": int_pos})
        cases.append({"m": "c13.shape", "dim": dim, "s": qlist(s), "p": qlist(p)})
        impls.append((N, dN))
        modes.append(exact)
        ctx.branch(f"shape.{dim}d.{'exact' if exact else 'tol'}")
    res = ctx.model(cases)
    for c, (N, dN), m, exact in zip(cases, impls, res, modes):
        if "ok" not in m:
            ctx.disagree("shape", c, [N.tolist(), dN.tolist()], m, "model error")
            continue
        mN, mdN = frlist(m["ok"]["N"]), frlist(m["ok"]["dN"])
        key = ("shape", c["dim"], str(c["s"]), str(c["p"]))
        if exact:
            ok = ctx.compare_exact("shape", c, [[Fraction(v) for v in N.tolist()], [[Fraction(v) for v in r] for r in dN.tolist()]],
                                   [mN, mdN], key=key)
        else:
            ok = ctx.compare_close("shape", c, N.tolist() + dN.flatten().tolist(),
                                   mN + [v for r in mdN for v in r], rtol=1e-11, atol=1e-13,
                                   scale=max(1.0, 1.0 / min(float(Fraction(v)) for v in c["s"])), key=key)
    if cases:
        ctx.sample({"request": cases[0], "N": impls[0][0].tolist()})


def search(ctx, disagreements):
    """run the direct oracle on the disagreeing cases (and a sweep of small grids)"""
    found = []
    seen = set()
    for dct in disagreements:
        c = dct.get("case") or {}
        if c.get("m") == "c13.grid" or dct.get("stream") == "grid":
            args = (c["nelx"], c["nely"], c["nelz"], c["ndof"])
            if args in seen:
                continue
            seen.add(args)
            r = call_impl(impl_grid, *args)
            if r[0] == "err":
                found.append({"what": f"constructing the domain raises {r[2]}", "witness": {"op": "grid", **c}})
                continue
            why = oracle_grid(ctx, *args, r[1][1])
            if why:
                found.append({"what": why, "witness": {"op": "grid", "nelx": args[0], "nely": args[1], "nelz": args[2], "ndof": args[3]}})
        elif dct.get("stream") == "shape":
            from ..common import fr
            dim = c["dim"]
            s = [float(fr(v)) for v in c["s"]]
            p = [float(fr(v)) for v in c["p"]]
            r = call_impl(impl_shape, dim, s, p)
            if r[0] == "err":
                found.append({"what": f"shape function evaluation raises {r[2]}", "witness": {"op": "shape", "dim": dim, "s": s, "p": p}})
                continue
            why = oracle_shape(dim, s, p, r[1][2])
            if why:
                found.append({"what": why, "witness": {"op": "shape", "dim": dim, "s": s, "p": p}})
        if len(found) >= 3:
            break
    found.sort(key=lambda w: len(str(w["witness"])))
    return found


def replay(ctx, data):
    w = data.get("witness", {}).get("witness", data.get("witness", {}))
    if w.get("op") == "grid":
        r = call_impl(impl_grid, w["nelx"], w["nely"], w["nelz"], w["ndof"])
        why = r[2] if r[0] == "err" else oracle_grid(ctx, w["nelx"], w["nely"], w["nelz"], w["ndof"], r[1][1])
    elif w.get("op") == "shape":
        r = call_impl(impl_shape, w["dim"], w["s"], w["p"])
        why = r[2] if r[0] == "err" else oracle_shape(w["dim"], w["s"], w["p"], r[1][2])
    elif w.get("op") == "array-args":
        # independent re-evaluation: per index tuple, the corners in the documented local order
        pm = _pm()
        nelx, nely, nelz = w["grid"]
        d = pm.DomainDefinition(nelx, nely, nelz)
        i, j, k = (np.array(w[a], dtype=np.int64) for a in "ijk")
        dim = 2 if nelz == 0 else 3
        ec = np.asarray(d.get_elemconnectivity(i, j, k))
        why = None
        if list(ec.shape) != list(i.shape) + [2 ** dim]:
            why = f"get_elemconnectivity returns shape {list(ec.shape)} for index arrays of shape {list(i.shape)}"
        else:
            for pos in np.ndindex(*i.shape):
                want = [int(d.get_nodenumber(int(i[pos]) + (l & 1), int(j[pos]) + ((l >> 1) & 1), int(k[pos]) + ((l >> 2) & 1)))
                        for l in range(2 ** dim)]
                if [int(v) for v in ec[pos]] != want:
                    why = f"entry {pos}: {ec[pos].tolist()} expected corners {want}"
                    break
    else:
        return {"still_failing": False, "note": "replay file names no failing input (see no_longer_checks)"}
    return {"still_failing": bool(why), "what": why}
