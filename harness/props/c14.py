"""C14 — the overhang filter prints layer by layer in the requested direction
(pymoto/modules/filter.py: class OverhangFilter — _prepare, set_parameters, _response, _sensitivity)

correspondence (the generic Lean definitions of Core/Overhang.lean run at Float, op c14.run; c14.parse at Int)
  strings : every string over the alphabet {x y z X Y Z + -} up to length 2 (quick) / 3 (thorough) plus strings with
            foreign characters, on a 2-D and a 3-D domain: parsed `direction` attribute / error class, exact
  ctor    : vector directions of length 0..5 (pad / truncate / flatten), random magnitudes, zero vector, z != 0 in 2-D,
            directions that are not axis aligned, nsampling None/3/5/9/others: `direction` exact (tolerance only for
            non-aligned vectors), error class exact
  run     : all 4/6 directions x vector forms and every string form x nsampling x random xi_0, p, eps x grids (incl.
            width 1 orthogonal to the print direction and a single layer) x random densities in [0,1] (incl. exact 0/1,
            solid columns, floating blocks): `direction`, dir_layer, dx_layer exact; q, shift, backshift, output y,
            stored smax and the sensitivities of two seeds with tolerance
oracle (on the real code, independent of the model)
  explicit layer-by-layer re-computation of Langelaar's scheme with plain coordinate loops; overshoot bound
  y <= x + sqrt(eps)/2; y <= smax-bound of the supports (unsupported material removed); solid columns stay solid;
  mirrored / axis-swapped design in the mapped direction gives the mirrored / axis-swapped result; the seed of
  sensitivity() is not modified
"""
import itertools
import math
import struct
import warnings

import numpy as np

from ..common import call_impl

RULE = ("strings: exhaustive over the 8-letter alphabet up to length 2 (quick) / 3 (thorough) + foreign-character strings, each "
        "on a 2-D and a 3-D domain; ctor: ~150 (quick) / ~1500 (thorough) vector / nsampling variants; run: for every grid of a "
        "size list (2-D up to 6x6, 3-D up to 4x4x4 quick, larger thorough; widths 1 and single layers included) every print "
        "direction in a rotating choice of vector / string form, nsampling 3 | 5, 9, random xi_0 in (0.05,0.95), p in [1,80] with "
        "q >= 0.5, eps in {0, 1e-8..1e-2}, densities in [0,1]. distinct = distinct (grid, direction form, nsampling, "
        "parameters, data) keys with at least two layers; single-layer cases are counted as trivial")
ASSUMPTIONS = [
    "input densities are float64 (set_parameters takes np.finfo(float64).tiny)",
    "parameter combinations with q = p + log(nsampling)/log(xi_0) < 0.5 are not generated in the run stream (the smooth "
    "maximum is not meaningful there and overflows); the theorems state q > 0 where they need it",
    "python warnings are not observables",
    "pymoto.core_objects.get_init_str (creation-site string used only in error messages) is replaced by a constant inside "
    "the harness process for speed",
    "for eps = 0 the sensitivity comparison is skipped (counted as boundary) when some |x - smax| < 1e-9 (kink of min)",
]

ALPHABET = "xyzXYZ+-"
OFFS = [(-1, 0), (0, 0), (1, 0), (0, -1), (0, 1), (-1, -1), (-1, 1), (1, -1), (1, 1)]


def _pm():
    import pymoto
    return pymoto


class fast_init_loc:
    def __enter__(self):
        import pymoto.core_objects as co
        self.co, self.orig = co, co.get_init_str
        co.get_init_str = lambda: "File \"<verif>\", line 0, in harness"

    def __exit__(self, *a):
        self.co.get_init_str = self.orig


def bits2f(b):
    return struct.unpack("<d", struct.pack("<Q", int(b)))[0]


def dec(v):
    if isinstance(v, list):
        return [dec(w) for w in v]
    if isinstance(v, int):
        return bits2f(v)
    return v


# ------------------------------------------------------------------------------------------------
# the implementation
# ------------------------------------------------------------------------------------------------
def impl_ctor(grid, direction, nsampling, xi0=0.5, p=40.0, eps=1e-4):
    pm = _pm()
    d = pm.DomainDefinition(*grid)
    s = pm.Signal('x', np.zeros(d.nel))
    if isinstance(direction, (list, tuple)) and len(direction) >= 2 and all(isinstance(v, (int, float)) for v in direction) \
            and (len(direction) + int(sum(abs(float(v)) for v in direction) * 8)) % 2 == 0:
        direction = np.array(direction, dtype=np.float64)      # every other vector direction is handed over as a numpy array
    with warnings.catch_warnings():
        warnings.simplefilter("ignore")
        m = pm.OverhangFilter(s, domain=d, direction=direction, nsampling=nsampling, xi_0=xi0, p=p, eps=eps)
    if isinstance(direction, np.ndarray) and direction.flags.writeable and direction.size > 1:
        # the caller re-uses its direction buffer after construction (a sweep over directions): the filter must keep its own
        direction[...] = np.roll(direction, 1)
    return m, s, d


def impl_run(grid, direction, nsampling, xi0, p, eps, x, seeds):
    """returns dict(direction, y, smax, q, shift, backshift, dx=[...], seed_mutated)"""
    m, s, d = impl_ctor(grid, direction, nsampling, xi0, p, eps)
    xa = np.array(x, dtype=np.float64)
    if xa.size and (int(xa.tobytes()[-2]) ^ xa.size) & 1:
        # every other case: the SAME instance has been evaluated (and differentiated) before on another field, differing in
        # the base layer as well: work arrays kept between evaluations must not leak into this one
        with warnings.catch_warnings():
            warnings.simplefilter("ignore")
            s.state = np.clip(1.0 - xa[::-1], 0.0, 1.0)
            m.response()
            m.sig_out[0].sensitivity = np.ones_like(xa)
            m.sensitivity()
            m.reset()
    s.state = xa
    with warnings.catch_warnings():
        warnings.simplefilter("ignore")
        m.response()
        y = np.array(m.sig_out[0].state, dtype=np.float64).copy()
        # the SAME network evaluated once more (the caller has not touched the design signal in between): the result is again
        # the scheme applied to the design, i.e. the same field
        m.response()
        y_again = np.array(m.sig_out[0].state, dtype=np.float64).copy()
        out = {"direction": [float(v) for v in m.direction], "y": y, "y_again": y_again, "smax": np.array(m.smax).copy(),
               "q": float(m.q), "shift": float(m.shift), "backshift": float(m.backshift), "dx": [], "seed_mutated": False,
               "nsampling": int(m.nsampling)}
        for sd in seeds:
            sd = np.array(sd, dtype=np.float64)
            keep = sd.copy()
            s.reset()
            m.sig_out[0].reset()
            m.sig_out[0].sensitivity = sd
            m.sensitivity()
            out["dx"].append(np.array(s.sensitivity, dtype=np.float64).copy())
            if not np.array_equal(sd, keep):
                out["seed_mutated"] = True
    return out


def filt(grid, direction, nsampling, xi0, p, eps, x):
    return impl_run(grid, direction, nsampling, xi0, p, eps, x, [])["y"]


# ------------------------------------------------------------------------------------------------
# oracle: Langelaar's scheme with plain coordinate loops (independent of the model and of the code's indexing)
# ------------------------------------------------------------------------------------------------
def langelaar(grid, axis, sign, ns, xi0, p, eps, x, y_impl=None):
    """layer-by-layer recomputation. If y_impl is given, every element is checked against
    smin(x_i, smax(y_impl[supports])) (so errors do not accumulate). Returns (y, worst_abs_dev, where)"""
    nelx, nely, nelz = grid
    size = [nelx, nely, max(nelz, 1)]
    X = np.asarray(x, dtype=np.float64).reshape(size[2], size[1], size[0]).transpose(2, 1, 0)   # X[i, j, k]
    Yi = None if y_impl is None else np.asarray(y_impl).reshape(size[2], size[1], size[0]).transpose(2, 1, 0)
    tiny = np.finfo(np.float64).tiny
    q = p + math.log(ns) / math.log(xi0)
    shift = 100.0 * tiny ** (1.0 / p)
    backshift = 0.95 * ns ** (1 / q) * shift ** (p / q)
    # in-layer axes: the two remaining axes in the order of the code ((axis+1)%3, (axis+2)%3; z last in 2-D)
    o1, o2 = (axis + 1) % 3, (axis + 2) % 3
    if o1 == 2 and nelz == 0:
        o1, o2 = o2, o1
    Y = X.copy()
    worst, where = 0.0, None
    layers = list(range(size[axis])) if sign > 0 else list(range(size[axis] - 1, -1, -1))
    for t in range(1, len(layers)):
        l, lp = layers[t], layers[t - 1]
        for a in range(size[o1]):
            for b in range(size[o2]):
                tot = 0.0
                for (oa, ob) in OFFS[:ns]:
                    aa, bb = a + oa, b + ob
                    if 0 <= aa < size[o1] and 0 <= bb < size[o2]:
                        idx = [0, 0, 0]
                        idx[axis], idx[o1], idx[o2] = lp, aa, bb
                        src = (Yi if Yi is not None else Y)[tuple(idx)]
                        tot += (src + shift) ** p
                smax = tot ** (1 / q) - backshift
                idx = [0, 0, 0]
                idx[axis], idx[o1], idx[o2] = l, a, b
                xi = X[tuple(idx)]
                Y[tuple(idx)] = (xi + smax - math.sqrt((xi - smax) ** 2 + eps) + math.sqrt(eps)) / 2
                if Yi is not None:
                    dv = abs(Y[tuple(idx)] - Yi[tuple(idx)])
                    if not dv <= worst:
                        worst, where = dv, tuple(idx)
    if Yi is not None:
        idx = [slice(None)] * 3
        idx[axis] = layers[0]
        dv = np.abs(X[tuple(idx)] - Yi[tuple(idx)]).max() if X[tuple(idx)].size else 0.0
        if dv > worst:
            worst, where = float(dv), ("base layer",)
    return Y.transpose(2, 1, 0).reshape(-1), worst, where


def axis_sign(direction_attr):
    a = int(np.argmax(np.abs(direction_attr)))
    return a, (1 if direction_attr[a] > 0 else -1)


def oracle_case(ctx, case, out):
    """the property evaluated on the real output; returns description of failure or None"""
    grid, ns, xi0, p, eps = case["grid"], out["nsampling"], case["xi0"], case["p"], case["eps"]
    x = np.asarray(case["x"])
    y = out["y"]
    want_axis, want_sign = case["axis"], case["sign"]
    want_dir = [0.0, 0.0, 0.0]
    want_dir[want_axis] = float(want_sign)
    if out["direction"] != want_dir:
        return f"direction attribute {out['direction']} for {case['direction']!r}, expected {want_dir}"
    size = [grid[0], grid[1], max(grid[2], 1)]
    _, worst, where = langelaar(grid, want_axis, want_sign, ns, xi0, p, eps, x, y_impl=y)
    tol = 1e-9 * max(1.0, float(np.abs(y).max()))
    if worst > tol:
        return f"element {where}: differs from smin(x, smax(supports in the previous layer)) by {worst:.3e}"
    if "y_again" in out and not np.array_equal(out["y_again"], y):
        e_ = int(np.abs(out["y_again"] - y).argmax())
        return (f"a second response() of the same network (design signal not touched by the caller) gives another field: entry {e_} is "
                f"{out['y_again'][e_]!r}, was {y[e_]!r} — not the scheme applied to the design")
    # overshoot
    ov = float((y - x).max())
    if ov > math.sqrt(eps) / 2 + 1e-12:
        return f"overshoot y - x = {ov:.3e} > sqrt(eps)/2 = {math.sqrt(eps) / 2:.3e}"
    q = out["q"]
    shift, backshift = out["shift"], out["backshift"]
    if q > 0 and size[want_axis] >= 2:
        X3 = x.reshape(size[2], size[1], size[0]).transpose(2, 1, 0)
        Y3 = y.reshape(size[2], size[1], size[0]).transpose(2, 1, 0)
        Xl = np.moveaxis(X3, want_axis, 0)
        Yl = np.moveaxis(Y3, want_axis, 0)
        if want_sign < 0:
            Xl, Yl = Xl[::-1], Yl[::-1]
        # unsupported material is removed: y <= ns^(1/q) (max support + shift)^(p/q) - backshift + sqrt(eps)/2
        for t in range(1, Yl.shape[0]):
            prev = Yl[t - 1]
            # the supports of any element lie in its 3x3 neighbourhood: use the neighbourhood max (weaker, still a theorem)
            pad = np.pad(prev, 1, mode="constant", constant_values=-np.inf)
            nb = np.max([pad[1 + da:1 + da + prev.shape[0], 1 + db:1 + db + prev.shape[1]]
                         for da in (-1, 0, 1) for db in (-1, 0, 1)], axis=0)
            if np.any(nb + shift <= 0):
                continue
            bound = ns ** (1 / q) * (nb + shift) ** (p / q) - backshift + math.sqrt(eps) / 2
            exc = float((Yl[t] - bound).max())
            if exc > 1e-9 * max(1.0, float(np.abs(bound).max())):
                return f"layer {t}: printed density exceeds the smooth-maximum bound of its supports by {exc:.3e}"
        # supported solid stays solid (needs shift <= xi_0, see overhang_supported_solid)
        if 0 < shift <= xi0 < 1:
            solid = Xl[0] >= 1.0
            for t in range(1, Yl.shape[0]):
                solid = solid & (Xl[t] >= 1.0)
                if np.any(solid):
                    mn = float(Yl[t][solid].min())
                    if mn < 1.0 - 1e-9:
                        return f"layer {t}: a solid column standing on the base plate is printed with density {mn!r} < 1"
    if out["seed_mutated"]:
        return "sensitivity() modified the seed array"
    return None


# symmetry pairs -----------------------------------------------------------------------------------
def field3(grid, v):
    size = [grid[0], grid[1], max(grid[2], 1)]
    return np.asarray(v).reshape(size[2], size[1], size[0]).transpose(2, 1, 0)


def flat3(A):
    return np.ascontiguousarray(A.transpose(2, 1, 0)).reshape(-1)


def dir_vec(axis, sign, dim):
    v = [0.0] * dim
    v[axis] = float(sign)
    return v


def oracle_symmetry(ctx, case, y):
    """mirror every axis and exchange every pair of axes (direction mapped); all runs on the real code"""
    grid, ns, xi0, p, eps = case["grid"], case["nsampling"], case["xi0"], case["p"], case["eps"]
    axis, sign = case["axis"], case["sign"]
    dim = 2 if grid[2] == 0 else 3
    X = field3(grid, case["x"])
    Y = field3(grid, y)
    tol = 1e-9 * max(1.0, float(np.abs(Y).max()))
    for ax in range(dim):
        s2 = -sign if ax == axis else sign
        r = call_impl(filt, grid, dir_vec(axis, s2, dim), ns, xi0, p, eps, flat3(np.flip(X, ax)))
        if r[0] == "err":
            return f"mirrored run (axis {ax}) raises {r[2]}"
        dv = float(np.abs(field3(grid, r[1]) - np.flip(Y, ax)).max())
        ctx.branch("oracle.mirror")
        if dv > tol:
            return f"mirror axis {ax}: filtering the mirrored design in direction {dir_vec(axis, s2, dim)} differs from the mirrored result by {dv:.3e}"
    for (u, v) in itertools.combinations(range(dim), 2):
        perm = list(range(3))
        perm[u], perm[v] = v, u
        g2 = [grid[0], grid[1], max(grid[2], 1)]
        g2[u], g2[v] = g2[v], g2[u]
        if dim == 2:
            g2[2] = 0
        a2 = perm[axis]
        r = call_impl(filt, g2, dir_vec(a2, sign, dim), ns, xi0, p, eps, flat3(np.swapaxes(X, u, v)))
        if r[0] == "err":
            return f"axis-swapped run ({u}<->{v}) raises {r[2]}"
        dv = float(np.abs(field3(g2, r[1]) - np.swapaxes(Y, u, v)).max())
        ctx.branch("oracle.swap")
        if dv > tol:
            return f"swap axes {u}<->{v}: filtering the swapped design in direction axis {a2} differs from the swapped result by {dv:.3e}"
    return None


# ------------------------------------------------------------------------------------------------
# generators
# ------------------------------------------------------------------------------------------------
def string_forms(axis, sign):
    lo = "xyz"[axis]
    out = []
    for c in (lo, lo.upper()):
        if sign > 0:
            out += [c, "+" + c, c + "+"]
        else:
            out += ["-" + c, c + "-"]
    return out


def vector_forms(ctx, axis, sign, dim):
    mags = [1.0, 2.5, 1e-3, 7.0, 3.0, 1e6, 0.1]
    forms = []
    for L in ([2, 3] if (dim == 2 and axis < 2) else [3]):
        v = [0.0] * L
        v[axis] = sign * ctx.rng.choice(mags)
        forms.append(v)
    v = [0] * 3
    v[axis] = int(sign)
    forms.append(v)                                  # integers
    v = [0.0] * 5
    v[axis] = float(sign) * ctx.rng.choice(mags)
    v[3], v[4] = 4.0, -2.0                             # truncated
    forms.append(v)
    if axis == 0:
        forms.append([sign * ctx.rng.choice(mags)])    # padded from one entry
    return forms


def all_strings(maxlen):
    for L in range(0, maxlen + 1):
        for t in itertools.product(ALPHABET, repeat=L):
            yield "".join(t)


FOREIGN = [" x", "x ", "foo x", "up", "down", "xy", "x,y", "−x", "–y", "Ｘ", "ｘ", "ẍ", "X̂-", "+ z", "z--", "1", "xyz", "x-y", "--", "+",
           "\tY-\n", "İ", "ǲ", "zZ", "yY+", "xX-x"]


def grids(ctx):
    g2 = [(1, 1), (1, 2), (2, 1), (2, 2), (1, 5), (5, 1), (3, 2), (2, 3), (4, 4), (3, 5), (6, 3), (6, 6)]
    g3 = [(1, 1, 1), (2, 1, 1), (1, 2, 1), (1, 1, 2), (2, 2, 2), (1, 3, 2), (3, 1, 2), (3, 2, 1), (3, 3, 3), (2, 4, 3), (4, 2, 3), (4, 4, 4)]
    if not ctx.quick:
        g2 += [(9, 7), (7, 12), (16, 3), (2, 15)]
        g3 += [(5, 4, 3), (3, 5, 6), (6, 6, 5), (1, 7, 4), (7, 1, 5), (5, 6, 1)]
        for _ in range(10):
            g2.append((ctx.rng.randint(1, 14), ctx.rng.randint(1, 14)))
            g3.append((ctx.rng.randint(1, 7), ctx.rng.randint(1, 7), ctx.rng.randint(1, 7)))
    return [(a, b, 0) for a, b in g2] + g3


def params(ctx, ns):
    for _ in range(200):
        xi0 = round(ctx.rng.uniform(0.05, 0.95), 3)
        t = ctx.rng.random()
        p = 40.0 if t < 0.2 else float(ctx.rng.randint(1, 80)) if t < 0.6 else round(ctx.rng.uniform(1.0, 80.0), 3)
        q = p + math.log(ns) / math.log(xi0)
        if q >= 0.5:
            break
    else:
        xi0, p = 0.5, 40.0
    eps = ctx.rng.choice([0.0, 1e-8, 1e-6, 1e-4, 1e-4, 1e-3, 1e-2, round(10 ** ctx.rng.uniform(-8, -2), 10)])
    return xi0, p, eps


def densities(ctx, grid, axis, sign):
    nel = grid[0] * grid[1] * max(grid[2], 1)
    t = ctx.rng.random()
    x = np.array([ctx.rng.random() for _ in range(nel)])
    if t < 0.25:
        pass
    elif t < 0.5:      # exact zeros and ones mixed in
        for e in range(nel):
            u = ctx.rng.random()
            if u < 0.25:
                x[e] = 0.0
            elif u < 0.5:
                x[e] = 1.0
    elif t < 0.75:     # solid columns along the print axis, rest random or void
        X = field3(grid, x).copy()
        Xl = np.moveaxis(X, axis, 0)
        void = ctx.rng.random() < 0.5
        for a in range(Xl.shape[1]):
            for b in range(Xl.shape[2]):
                if ctx.rng.random() < 0.4:
                    Xl[:, a, b] = 1.0
                elif void:
                    Xl[:, a, b] = 0.0
        x = flat3(X)
    else:              # floating block: void lower part, solid upper part
        X = field3(grid, x).copy()
        Xl = np.moveaxis(X, axis, 0)
        L = Xl.shape[0]
        cut = ctx.rng.randint(0, L)
        lo = slice(0, cut) if sign > 0 else slice(L - cut, L)
        hi = slice(cut, L) if sign > 0 else slice(0, L - cut)
        Xl[lo] = 0.0
        Xl[hi] = 1.0
        x = flat3(X)
    return [float(v) for v in x]


# ------------------------------------------------------------------------------------------------
# streams
# ------------------------------------------------------------------------------------------------
def req_of(grid, direction, nsampling, xi0=0.5, p=40.0, eps=1e-4, x=None, seeds=None):
    r = {"m": "c14.run", "nelx": grid[0], "nely": grid[1], "nelz": grid[2], "direction": direction,
         "xi0": float(xi0), "p": float(p), "eps": float(eps), "nsampling": nsampling}
    if x is not None:
        r["x"] = x
        r["seeds"] = seeds or []
    return r


def flatten_dir(direction):
    if isinstance(direction, str):
        return direction
    return [float(v) for v in np.asarray(direction, dtype=np.float64).flatten()]


def stream_strings(ctx):
    strs = list(all_strings(2 if ctx.quick else 3)) + FOREIGN
    reqs, impls, meta = [], [], []
    preqs = []
    for s in strs:
        for grid in [(2, 2, 0), (2, 2, 2)]:
            r = call_impl(impl_ctor, grid, s, None)
            impls.append(("raises", r[1]) if r[0] == "err" else ("ok", [float(v) for v in r[1][0].direction]))
            reqs.append(req_of(grid, s, None))
            meta.append((s, grid))
        preqs.append({"m": "c14.parse", "s": s})
    res = ctx.model(reqs)
    pres = ctx.model(preqs)
    for (s, grid), imp, m in zip(meta, impls, res):
        if "ok" not in m:
            ctx.disagree("strings", {"s": s, "grid": grid}, imp, m, "model error")
            continue
        mo = m["ok"]
        mod = ("raises", mo["ctor"]["raises"]) if "ctor" in mo else ("ok", dec(mo["direction"]))
        ctx.compare_exact("strings", {"s": s, "grid": grid}, list(imp), list(mod), key=("str", s, grid[2]),
                          nontrivial=imp[0] == "ok")
        ctx.branch("strings." + (imp[1] if imp[0] == "raises" else "ok"))
        # oracle: the intended reading of the well-formed forms
        for axis in range(3):
            for sign in (1, -1):
                if s in string_forms(axis, sign):
                    want = ("raises", "Assertion") if (axis == 2 and grid[2] == 0) else ("ok", dir_vec(axis, sign, 3))
                    if tuple(imp) != (want[0], want[1]):
                        ctx.oracle_fail(f"direction string {s!r} on a {'2' if grid[2] == 0 else '3'}-D domain gives {imp}, expected {want}",
                                        {"op": "string", "s": s, "grid": list(grid)})
        letters = {c.lower() for c in s if c in "xyzXYZ"}
        if len(letters) != 1 and imp != ("raises", "ValueError"):
            ctx.oracle_fail(f"malformed direction string {s!r} is not rejected with ValueError: {imp}",
                            {"op": "string", "s": s, "grid": list(grid)})
    # the Int instance of the string branch agrees with the Float one
    for k, (s, m) in enumerate(zip(strs, pres)):
        imp = impls[2 * k + 1]      # the 3-D domain accepts every axis
        mo = m.get("ok")
        mod = ("raises", mo["raises"]) if isinstance(mo, dict) else ("ok", [float(v) for v in mo])
        ctx.compare_exact("strings.int", {"s": s}, list(imp), list(mod), key=("strI", s), nontrivial=imp[0] == "ok")
    ctx.sample({"stream": "strings", "request": reqs[5], "impl": impls[5]})


def stream_ctor(ctx):
    n = 150 if ctx.quick else 1500
    reqs, impls, meta = [], [], []
    mags = [1.0, 2.5, 1e-3, 7.0, 1e6, 1e-200, 1e200, 3.0]
    for t in range(n):
        grid = ctx.rng.choice([(2, 3, 0), (2, 2, 2), (1, 1, 0), (3, 1, 2)])
        dim = 2 if grid[2] == 0 else 3
        kind = ctx.rng.choice(["aligned", "aligned", "aligned", "zero", "z2d", "oblique", "near", "nested", "short", "nsamp", "nsamp"])
        nsampling = None
        aligned = True
        if kind == "aligned":
            L = ctx.rng.randint(1, 5)
            axis = ctx.rng.randint(0, min(L, 3) - 1)
            v = [0.0] * L
            v[axis] = ctx.rng.choice([-1, 1]) * ctx.rng.choice(mags)
            if L > 3:
                v[3:] = [ctx.rng.uniform(-3, 3) for _ in range(L - 3)]
        elif kind == "zero":
            v = [0.0] * ctx.rng.randint(0, 4)
        elif kind == "z2d":
            v = [0.0, 0.0, ctx.rng.choice([-2.0, 1.0])]
            if ctx.rng.random() < 0.5:
                v[1] = 5.0
                aligned = False
        elif kind == "oblique":
            v = [ctx.rng.uniform(-2, 2) for _ in range(ctx.rng.randint(2, 3))]
            aligned = False
        elif kind == "near":
            v = [1.0, ctx.rng.choice([1e-12, -1e-9, 1e-300]), 0.0]
            aligned = False
        elif kind == "nested":
            v = [[0.0, ctx.rng.choice([-3.0, 2.0])], [0.0, 0.0]]
        elif kind == "short":
            v = [ctx.rng.choice([-4.0, 0.5])]
        else:
            v = dir_vec(ctx.rng.randint(0, dim - 1), ctx.rng.choice([-1, 1]), dim)
            nsampling = ctx.rng.choice([None, 3, 5, 9, 0, 1, 4, 6, -3, 27])
        r = call_impl(impl_ctor, grid, v, nsampling)
        impls.append(("raises", r[1]) if r[0] == "err" else ("ok", [float(x) for x in r[1][0].direction], int(r[1][0].nsampling)))
        reqs.append(req_of(grid, flatten_dir(v), nsampling))
        meta.append((kind, aligned, grid, v, nsampling))
    res = ctx.model(reqs)
    for (kind, aligned, grid, v, nsampling), imp, m in zip(meta, impls, res):
        case = {"grid": grid, "direction": v, "nsampling": nsampling}
        key = ("ctor", grid, str(v), nsampling)
        if "ok" not in m:
            ctx.disagree("ctor", case, imp, m, "model error")
            continue
        mo = m["ok"]
        ctx.branch(f"ctor.{kind}." + (imp[1] if imp[0] == "raises" else "ok"))
        if "ctor" in mo:
            ctx.compare_exact("ctor", case, list(imp), ["raises", mo["ctor"]["raises"]], key=key, nontrivial=False)
            continue
        md = dec(mo["direction"])
        if imp[0] == "raises":
            ctx.disagree("ctor", case, imp, ["ok", md], "implementation raises, model accepts")
        elif aligned:
            ctx.compare_exact("ctor", case, [imp[1], imp[2]], [md, mo["nsampling"]], key=key)
        else:
            if imp[2] != mo["nsampling"]:
                ctx.disagree("ctor", case, imp, ["ok", md, mo["nsampling"]], "nsampling")
            else:
                ctx.compare_close("ctor", case, imp[1], md, rtol=1e-14, atol=1e-300, key=key)
    ctx.sample({"stream": "ctor", "request": reqs[0], "impl": impls[0]})


def run_cases(ctx):
    """the list of run cases (dicts)"""
    cases = []
    rot = 0
    for grid in grids(ctx):
        dim = 2 if grid[2] == 0 else 3
        nel = grid[0] * grid[1] * max(grid[2], 1)
        for axis in range(dim):
            for sign in (1, -1):
                forms = vector_forms(ctx, axis, sign, dim) + string_forms(axis, sign)
                if ctx.quick:
                    # rotate through the forms so that every form is used on several grids
                    chosen = [forms[(rot + k * 3) % len(forms)] for k in range(2)]
                    rot += 1
                else:
                    chosen = forms if nel <= 64 else [forms[(rot + k * 3) % len(forms)] for k in range(3)]
                    rot += 1
                for fi, form in enumerate(chosen):
                    nsl = [None, 3] if dim == 2 else [None, 5, 9]
                    ns = nsl[(rot + fi) % len(nsl)]
                    ns_eff = ns if ns is not None else (3 if dim == 2 else 5)
                    xi0, p, eps = params(ctx, ns_eff)
                    if (rot + fi) % 7 == 0:
                        xi0, p, eps = 0.5, 40.0, 1e-4          # the defaults
                    x = densities(ctx, grid, axis, sign)
                    seeds = [[ctx.rng.gauss(0, 1) for _ in range(nel)], [1.0] * nel]
                    cases.append({"grid": grid, "direction": form, "nsampling": ns, "xi0": xi0, "p": p, "eps": eps,
                                  "x": x, "seeds": seeds, "axis": axis, "sign": sign})
    return cases


def stream_run(ctx):
    cases = run_cases(ctx)
    reqs, outs = [], []
    for c in cases:
        r = call_impl(impl_run, c["grid"], c["direction"], c["nsampling"], c["xi0"], c["p"], c["eps"], c["x"], c["seeds"])
        outs.append(r)
        reqs.append(req_of(c["grid"], flatten_dir(c["direction"]), c["nsampling"], c["xi0"], c["p"], c["eps"], c["x"], c["seeds"]))
    res = ctx.model(reqs)
    nsym = 0
    for k, (c, r, m) in enumerate(zip(cases, outs, res)):
        short = {kk: c[kk] for kk in ("grid", "direction", "nsampling", "xi0", "p", "eps")}
        full = dict(short, x=c["x"], axis=c["axis"], sign=c["sign"], op="run")
        if r[0] == "err":
            ctx.disagree("run", full, r[1], "ok", r[2])
            ctx.oracle_fail(f"OverhangFilter raises {r[2]} on an admissible configuration", full)
            continue
        out = r[1]
        if "ok" not in m or "y" not in m["ok"]:
            ctx.disagree("run", full, "ok", m, "model error")
            continue
        mo = m["ok"]
        size = [c["grid"][0], c["grid"][1], max(c["grid"][2], 1)]
        nlayers = size[c["axis"]]
        dim = 2 if c["grid"][2] == 0 else 3
        ctx.branch(f"run.{dim}d.axis{c['axis']}{'+' if c['sign'] > 0 else '-'}")
        ctx.branch("run.form." + ("str" if isinstance(c["direction"], str) else f"vec{len(c['direction'])}"))
        ctx.branch(f"run.ns{out['nsampling']}" + ("" if c["nsampling"] else ".default"))
        ctx.branch("run.layers." + ("1" if nlayers == 1 else "2" if nlayers == 2 else "3+"))
        o1 = [a for a in range(dim) if a != c["axis"]]
        if min(size[a] for a in o1) == 1:
            ctx.branch("run.width1")
        if c["eps"] == 0.0:
            ctx.branch("run.eps0")
        key = ("run", c["grid"], str(c["direction"]), c["nsampling"], c["xi0"], c["p"], c["eps"], hash(tuple(c["x"])))
        nontriv = nlayers >= 2
        # exact part
        ok = ctx.compare_exact("run.direction", short, [out["direction"], c["axis"], c["sign"], out["nsampling"]],
                               [dec(mo["direction"]), mo["dir_layer"], mo["dx_layer"], mo["nsampling"]], key=key + ("d",),
                               nontrivial=nontriv)
        # parameters and fields
        ctx.compare_close("run.params", short, [out["q"], out["shift"], out["backshift"]],
                          [bits2f(mo["q"]), bits2f(mo["shift"]), bits2f(mo["backshift"])], rtol=1e-12, atol=1e-300,
                          key=key + ("p",), nontrivial=nontriv)
        ymod, smod = dec(mo["y"]), dec(mo["smax"])
        sc = max(1.0, float(np.abs(out["y"]).max()), float(np.abs(out["smax"]).max()))
        ctx.compare_close("run.y", full, out["y"].tolist() + out["smax"].tolist(), ymod + smod, rtol=1e-9, atol=1e-11,
                          scale=sc, key=key + ("y",), nontrivial=nontriv)
        kink = False
        if c["eps"] == 0.0 and nlayers >= 2:      # |x - smax| on all layers but the base layer (where smax is a copy of x)
            R = np.moveaxis(field3(c["grid"], np.asarray(c["x"]) - out["smax"]), c["axis"], 0)
            R = R[1:] if c["sign"] > 0 else R[:-1]
            kink = float(np.abs(R).min()) < 1e-9
        if kink:
            ctx.skipped_boundary += 1
        else:
            for si, (dxi, dxm) in enumerate(zip(out["dx"], mo["dx"])):
                dxm = dec(dxm)
                sc = max(1.0, float(np.abs(dxi).max()))
                ctx.compare_close("run.dx", dict(full, seed=c["seeds"][si]), dxi.tolist(), dxm, rtol=1e-8, atol=1e-10, scale=sc,
                                  key=key + ("dx", si), nontrivial=nontriv)
        # oracle on the real output
        why = oracle_case(ctx, c, out)
        if why:
            ctx.oracle_fail(why, full)
        nel = len(c["x"])
        if (ctx.quick and k % 5 == 0 and nel <= 64) or (not ctx.quick and (k % 3 == 0 or nel <= 27)):
            why = oracle_symmetry(ctx, dict(c, nsampling=out["nsampling"]), out["y"])
            nsym += 1
            if why:
                ctx.oracle_fail(why, dict(full, op="symmetry", nsampling=out["nsampling"]))
        if k in (3, len(cases) // 2):
            ctx.sample({"stream": "run", "case": short, "x": c["x"][:8], "y": out["y"][:8].tolist(),
                        "model_y": ymod[:8]})
    ctx.notes.append(f"symmetry oracle run on {nsym} cases")


def stream_malformed(ctx):
    """calls that must be rejected, with data: the error class agrees and no output is produced"""
    bad = [((3, 3, 0), "z", None), ((3, 3, 0), "", None), ((3, 3, 0), "xy", None), ((3, 3, 0), [0.0, 0.0], None),
           ((3, 3, 0), [0, 1], 5), ((3, 3, 0), [0, 1], 9), ((2, 2, 2), [0, 0, 1], 3), ((2, 2, 2), "q", None),
           ((2, 2, 2), [], None), ((2, 2, 2), "-", None), ((2, 2, 0), [0, 0, 1], None), ((2, 2, 2), "x", 7)]
    reqs, impls = [], []
    for grid, d, ns in bad:
        r = call_impl(impl_run, grid, d, ns, 0.5, 40.0, 1e-4, [0.5] * (grid[0] * grid[1] * max(grid[2], 1)), [])
        impls.append(["raises", r[1]] if r[0] == "err" else ["ok"])
        reqs.append(req_of(grid, flatten_dir(d), ns, x=[0.5] * (grid[0] * grid[1] * max(grid[2], 1))))
    for (grid, d, ns), imp, m in zip(bad, impls, ctx.model(reqs)):
        mo = m.get("ok", {})
        mod = ["raises", mo["ctor"]["raises"]] if "ctor" in mo else ["ok"]
        ctx.compare_exact("malformed", {"grid": grid, "direction": d, "nsampling": ns}, imp, mod, nontrivial=False)
        ctx.branch("malformed." + (imp[1] if len(imp) > 1 else "accepted"))
        if imp == ["ok"]:
            ctx.oracle_fail(f"inadmissible configuration accepted: grid {grid} direction {d!r} nsampling {ns}",
                            {"op": "malformed", "grid": list(grid), "direction": d, "nsampling": ns})


def unicode_selftest(ctx):
    """the model's reading of `a in direction.lower()`: only x/X, y/Y, z/Z lower-case to something containing x, y, z"""
    import sys
    bad = []
    for cp in range(sys.maxunicode + 1):
        ch = chr(cp)
        low = ch.lower()
        if any(a in low for a in "xyz") and ch not in "xyzXYZ":
            bad.append(hex(cp))
    if bad:
        ctx.disagree("unicode", {"codepoints": bad[:10]}, "lower() contains an axis letter", "not modelled", "model assumption broken")
    else:
        ctx.agree(("unicode", 0), nontrivial=False)


def selftest_sensitivity(ctx):
    """thorough tier: a deliberately wrong model input (opposite print direction / other nsampling) must be noticed"""
    x = [((7 * e + 3) % 11) / 10 for e in range(27)]
    out = impl_run((3, 3, 3), "z", 5, 0.5, 40.0, 1e-4, x, [])
    for wrong in ({"direction": "-z"}, {"nsampling": 9}, {"direction": "x"}):
        r = req_of((3, 3, 3), wrong.get("direction", "z"), wrong.get("nsampling", 5), 0.5, 40.0, 1e-4, x, [])
        m = ctx.model([r])[0]
        ym = dec(m.get("ok", {}).get("y", []))
        if len(ym) == 27 and float(np.abs(np.asarray(ym) - out["y"]).max()) < 1e-6:
            ctx.disagree("selftest", wrong, out["y"].tolist(), ym, "a wrong model input was not noticed")
        else:
            ctx.branch("selftest.detected_wrong_model_input")


def correspondence(ctx):
    with fast_init_loc():
        if not ctx.quick:
            selftest_sensitivity(ctx)
        unicode_selftest(ctx)
        stream_strings(ctx)
        stream_ctor(ctx)
        stream_malformed(ctx)
        stream_run(ctx)


# ------------------------------------------------------------------------------------------------
# search / replay
# ------------------------------------------------------------------------------------------------
def _recheck(ctx, w):
    op = w.get("op")
    if op == "string":
        s, grid = w["s"], tuple(w["grid"])
        r = call_impl(impl_ctor, grid, s, None)
        imp = ("raises", r[1]) if r[0] == "err" else ("ok", [float(v) for v in r[1][0].direction])
        for axis in range(3):
            for sign in (1, -1):
                if s in string_forms(axis, sign):
                    want = ("raises", "Assertion") if (axis == 2 and grid[2] == 0) else ("ok", dir_vec(axis, sign, 3))
                    if tuple(imp) != want:
                        return f"direction string {s!r} gives {imp}, expected {want}"
        letters = {c.lower() for c in s if c in "xyzXYZ"}
        if len(letters) != 1 and imp != ("raises", "ValueError"):
            return f"malformed direction string {s!r} is not rejected with ValueError: {imp}"
        return None
    if op == "vector":
        v, grid = w["direction"], tuple(w["grid"])
        flat = [float(t) for t in np.asarray(v, dtype=float).flatten()][:3]
        flat += [0.0] * (3 - len(flat))
        nzs = [i for i, t in enumerate(flat) if t != 0.0]
        if len(nzs) != 1 or (nzs[0] == 2 and grid[2] == 0):
            return None                       # not a plain axis direction of this domain: judged by the model comparison only
        r = call_impl(impl_ctor, grid, [t for t in v] if isinstance(v, list) else v, w.get("nsampling"))
        if r[0] == "err":
            return f"axis direction vector {v!r} is rejected: {r[2]}"
        want = [0.0, 0.0, 0.0]
        want[nzs[0]] = 1.0 if flat[nzs[0]] > 0 else -1.0
        got = [float(t) for t in r[1][0].direction]
        if got != want:
            return (f"direction vector {v!r} (handed over as a numpy array that the caller re-uses afterwards) gives the filter "
                    f"direction {got}, expected {want}")
        return None
    if op == "malformed":
        r = call_impl(impl_ctor, tuple(w["grid"]), w["direction"], w["nsampling"])
        return None if r[0] == "err" else "inadmissible configuration accepted"
    if op in ("run", "symmetry"):
        grid = tuple(w["grid"])
        r = call_impl(impl_run, grid, w["direction"], w["nsampling"], w["xi0"], w["p"], w["eps"], w["x"],
                      [[1.0] * len(w["x"])])
        if r[0] == "err":
            return f"OverhangFilter raises {r[2]}"
        c = dict(w, grid=grid)
        why = oracle_case(ctx, c, r[1])
        if why:
            return why
        return oracle_symmetry(ctx, dict(c, nsampling=r[1]["nsampling"]), r[1]["y"])
    return None


def search(ctx, disagreements):
    found = []
    with fast_init_loc():
        for d in disagreements:
            c = d.get("case") or {}
            w = None
            if d.get("stream", "").startswith("strings") and "s" in c:
                for grid in ([c["grid"]] if "grid" in c else [(2, 2, 0), (2, 2, 2)]):
                    w = {"op": "string", "s": c["s"], "grid": list(grid)}
                    why = _recheck(ctx, w)
                    if why:
                        found.append({"what": why, "witness": w})
            elif d.get("stream", "") == "ctor" and isinstance(c.get("direction"), list) and "grid" in c:
                w = {"op": "vector", "direction": c["direction"], "grid": list(c["grid"]), "nsampling": c.get("nsampling")}
                why = _recheck(ctx, w)
                if why:
                    found.append({"what": why, "witness": w})
            elif d.get("stream", "").startswith("run") and "x" in c:
                w = dict(c, op="run", grid=list(c["grid"]))
                w.pop("seed", None)
                why = _recheck(ctx, w)
                if why:
                    found.append({"what": why, "witness": w})
            if len(found) >= 3:
                break
        if not found:
            # sweep: small grids, every direction, defaults
            for grid in [(2, 2, 0), (3, 2, 0), (2, 2, 2), (3, 2, 2)]:
                dim = 2 if grid[2] == 0 else 3
                for axis in range(dim):
                    for sign in (1, -1):
                        for form in string_forms(axis, sign)[:3] + [dir_vec(axis, sign, dim)]:
                            nel = grid[0] * grid[1] * max(grid[2], 1)
                            w = {"op": "run", "grid": list(grid), "direction": form, "nsampling": None, "xi0": 0.5, "p": 40.0,
                                 "eps": 1e-4, "x": [((7 * e + 3) % 11) / 10 for e in range(nel)], "axis": axis, "sign": sign}
                            why = _recheck(ctx, w)
                            if why:
                                found.append({"what": why, "witness": w})
                            if len(found) >= 3:
                                break
    found.sort(key=lambda f: len(str(f["witness"])))
    return found


def replay(ctx, data):
    w = data.get("witness", {})
    w = w.get("witness", w)
    if not w.get("op"):
        return {"still_failing": False, "note": "replay file names no failing input (see no_longer_checks)"}
    with fast_init_loc():
        why = _recheck(ctx, w)
    return {"still_failing": bool(why), "what": why}
