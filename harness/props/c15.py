"""C15 — DyadCarrier behaves exactly like the dense matrix it represents (pymoto/common/dyadcarrier.py)

correspondence: random operation programs run on the real `pymoto.DyadCarrier` and on the Lean model `LA/Dyad.lean`
                (driver op `c15.prog`, one request = one program); every observation (dump of the produced carrier,
                returned array with shape/complex flag, contract result, exception class) and the final register file
                are compared exactly (integer-valued data: every float operation of the implementation is exact).
oracle        : in parallel every register is mirrored by a plain numpy matrix computed ONLY by dense numpy operations;
                after every successful instruction: values, shape, complex/real type, no register / operand other than
                the in-place target changed, no memory shared between the result and any operand / other register.
search/replay : re-run the oracle on a program (witness = JSON program), shrink by dropping instructions.
"""
import json
import warnings

import numpy as np

from ..common import call_impl, _canon

RULE = ("random operation programs over a register file of DyadCarriers (length <= 6 quick / <= 15 thorough; 0-4 dyads, "
        "shapes 0-5 rectangular, real/complex mixtures, integer-valued data so that float arithmetic is exact) plus a fixed "
        "set of hand-written programs reaching every instruction kind and every error kind; ~6% of the instructions are "
        "malformed on purpose. evaluations = compared instructions (+ final register files); distinct = distinct "
        "(program, instruction) pairs")
ASSUMPTIONS = [
    "data are integer valued and bounded (|entry| <= 2^20 in stored vectors) so that IEEE arithmetic is exact; rounding is not covered",
    "vectors are float64 / complex128 arrays (or Python lists / scalars of floats); integer-dtype vectors are not generated",
    "the oracle checks dense semantics only where the dense numpy operation itself is defined (conforming sizes, indices in range)",
    "OPEN KNOWN FINDING key=dyad-dtype-lost-without-stored-complex-vector: a carrier whose dtype is complex while no stored "
    "vector is complex loses the complex type under copy/neg/T/conj/scalar*/slicing/+/+= "
    "(corpus/defects/open_c15_dtype_lost_on_copy.py); likewise the type of a complex scalar / matrix operand is lost when the "
    "carrier stores no dyad and for `D + 0j` (corpus/defects/open_c15_dtype_lost_no_dyads.py). The oracle PERFORMS the type check "
    "on these inputs and tags a lost complex type of exactly this class with the finding key (KNOWN-FINDING, exit 0); values are "
    "always checked; any other deviation (also a type deviation outside the class or in the other direction) is a violation",
    "non-batch contract() returns a number typed by the stored vectors (Python float 0.0 without dyads): only its value is checked",
    "batch-mode contract() goes through numpy.einsum, which silently broadcasts a dimension of size 1 against a non-conforming "
    "size (modelled; not a dense-defined input, so the oracle skips it)",
    "excluded input classes (model comparison kept): "
    "2-D index arrays combined with a slice; index arrays of different (broadcastable) shapes; D + nonzero scalar (NotImplementedError by design); "
    "carriers with an unset dimension (-1) are 'a zero matrix of any shape': shape/type not compared, values are",
]

FINDING_KEY = "dyad-dtype-lost-without-stored-complex-vector"   # open entry of KNOWN_FINDINGS.txt
MAX_KNOWN_REPORTED = 3   # tagged witnesses handed to ctx.oracle_fail per run (the rest is only counted): the slots of
#                          ctx.oracle_failures must stay free for any OTHER deviation

LIMIT = 2 ** 20      # stop a program when a stored entry exceeds this (one more product/sum stays exact in float64)
MAXDY = 24           # cap on the number of stored dyads of one carrier
SCALARS = [-2, -1, 0, 1, 2, 1j, -1j, 1 + 1j]
CPLX_FORMS = ("complex", "npcomplex", "arr0c", "arr1c")
INPLACE = ("add_dyad", "iadd", "isub", "setitem")
UNARY = ("copy", "pos", "neg", "conj", "real", "imag", "transpose")


def _pm():
    import pymoto
    return pymoto


# ----------------------------------------------------------------------------------------------
# encoding / decoding
# ----------------------------------------------------------------------------------------------
def _num(x):
    f = float(x)
    if f.is_integer():
        return int(f)
    n, d = f.as_integer_ratio()
    return f"{n}/{d}"


def _cx(z):
    z = complex(z)
    return [_num(z.real), _num(z.imag)]


def enc_data(a):
    a = np.asarray(a)
    if np.iscomplexobj(a):
        return [_cx(z) for z in a.reshape(-1).tolist()]
    return [[_num(x), 0] for x in a.reshape(-1).tolist()]


def enc_arr(a):
    a = np.asarray(a)
    return {"s": [int(v) for v in a.shape], "d": enc_data(a), "c": bool(np.iscomplexobj(a))}


def enc_vec(a):
    a = np.asarray(a)
    return {"d": enc_data(a), "c": bool(np.iscomplexobj(a))}


def enc_iarr(a):
    a = np.asarray(a)
    return {"s": [int(v) for v in a.shape], "d": [int(v) for v in a.reshape(-1).tolist()]}


def _decnum(v):
    if isinstance(v, str):
        from fractions import Fraction
        return float(Fraction(v))
    return float(v)


def dec_arr(j):
    if j["c"]:
        a = np.array([complex(_decnum(z[0]), _decnum(z[1])) for z in j["d"]], dtype=np.complex128)
    else:
        a = np.array([_decnum(z[0]) for z in j["d"]], dtype=np.float64)
    return a.reshape(tuple(j["s"]))


def dec_vec(j):
    return dec_arr({"s": [len(j["d"])], "d": j["d"], "c": j["c"]})


def dec_iarr(j):
    return np.array(j["d"], dtype=np.int64).reshape(tuple(j["s"]))


def dec_idx(j, npint=False):
    k = j["k"]
    if k == "sl":
        return slice(j.get("a"), j.get("b"), j.get("st"))
    if k == "int":
        return np.int64(j["i"]) if npint else int(j["i"])
    return dec_iarr(j)


def dec_scalar(z, form):
    c = complex(_decnum(z[0]), _decnum(z[1]))
    if form == "int":
        return int(c.real)
    if form == "float":
        return float(c.real)
    if form == "complex":
        return c
    if form == "npfloat":
        return np.float64(c.real)
    if form == "npint":
        return np.int64(c.real)
    if form == "npcomplex":
        return np.complex128(c)
    if form == "arr0f":
        return np.array(c.real)
    if form == "arr0c":
        return np.array(c)
    if form == "arr1f":
        return np.array([c.real])
    if form == "arr1c":
        return np.array([c])
    return c if c.imag != 0 else float(c.real)


def dump(D):
    return {"u": [enc_vec(x) for x in D.u], "v": [enc_vec(x) for x in D.v], "ulen": int(D.ulen), "vlen": int(D.vlen),
            "c": bool(D.iscomplex())}


def _pyform(lst, form, elems):
    """the Python-side argument for a parsed list of arrays (all forms parse to the same list in _parse_to_list)"""
    if lst is None:
        return None
    out = []
    for i, a in enumerate(lst):
        e = elems[i] if elems and i < len(elems) else "arr"
        if form == "single":
            e = "arr"
        if e == "list" and a.ndim >= 1 and (a.size > 0 or not np.iscomplexobj(a)):   # [] would become float64
            out.append(a.tolist())
        elif e == "scalar" and a.ndim == 0:
            out.append(a.item())
        else:
            out.append(a)
    if form == "none" and not out:
        return None
    if form == "single" and len(out) == 1:
        return out[0]
    if form == "tuple":
        return tuple(out)
    return out


# ----------------------------------------------------------------------------------------------
# dense semantics (plain numpy only)
# ----------------------------------------------------------------------------------------------
def sumlead(a):
    a = np.asarray(a)
    if a.ndim == 0:
        return a.reshape(1)
    if a.ndim > 1:
        return a.sum(axis=tuple(range(a.ndim - 1)))
    return a


def dense_add(A, shape, ul, vl, fac):
    """A + fac * sum_i outer(sum-lead(u_i), sum-lead(v_i)); A None = zero matrix of `shape` (entries -1: unset).
    returns ("undef",) | ("free",) | ("val", matrix)"""
    if vl is None:
        vl = ul
    if len(ul) != len(vl):
        return ("undef",)
    su = [sumlead(x) for x in ul]
    sv = [sumlead(x) for x in vl]
    m, n = shape
    if m < 0 and su:
        m = len(su[0])
    if n < 0 and sv:
        n = len(sv[0])
    if any(len(x) != m for x in su) or any(len(x) != n for x in sv):
        return ("undef",)
    if m < 0 or n < 0:
        return ("free",)
    R = np.zeros((m, n)) if A is None else A
    for x, y in zip(su, sv):
        t = np.outer(x, y)
        R = R + (t if fac is None else fac * t)
    return ("val", R.copy() if R is A else R)


def idx_valid(ix, size):
    if isinstance(ix, slice):
        return ix.step != 0
    if isinstance(ix, np.ndarray):
        return ix.size == 0 or (int(ix.min()) >= -size and int(ix.max()) < size)
    return -size <= int(ix) < size


def is_null(ix):
    return isinstance(ix, slice) and ix == slice(None, None, None)


def dense_contract(A, mat, rows, cols):
    """explicit sum_ij A[rows][:, cols]_ij * B_ij per batch entry; returns None when undefined else (value, batch?)"""
    m, n = A.shape
    bs = None
    if mat is not None and mat.ndim > 2:
        bs = tuple(mat.shape[:-2])
    for x in (rows, cols):
        if x is not None and x.ndim > 1:
            if bs is None:
                bs = tuple(x.shape[:-1])
            elif tuple(x.shape[:-1]) != bs:
                return None
    if (rows is not None and not idx_valid(rows, m)) or (cols is not None and not idx_valid(cols, n)):
        return None
    out = []
    for b in (list(np.ndindex(*bs)) if bs is not None else [()]):
        rb = np.arange(m) if rows is None else (rows[b] if rows.ndim > 1 else rows)
        cb = np.arange(n) if cols is None else (cols[b] if cols.ndim > 1 else cols)
        sub = A[rb][:, cb]
        if mat is None:
            if len(rb) != len(cb):
                return None
            val = sum((sub[i, i] for i in range(len(rb))), 0.0)
        else:
            B = mat[b] if mat.ndim > 2 else mat
            if tuple(B.shape) != tuple(sub.shape):
                return None
            val = (sub * B).sum()
        out.append(val)
    if bs is None:
        return out[0], False
    return np.array(out).reshape(bs), True


# ----------------------------------------------------------------------------------------------
# the machine: real carriers + dense mirrors + oracle
# ----------------------------------------------------------------------------------------------
def _loose(D):
    """known residual defect: the dtype is complex but no stored dyad that survives a copy (both vectors nonzero) has a
    complex vector, so any operation that re-constructs the carrier (possibly twice: `z - D`, `A - D`) loses the type"""
    if not D.iscomplex():
        return False
    for x, y in zip(D.u, D.v):
        if (np.iscomplexobj(x) or np.iscomplexobj(y)) and np.any(x != 0) and np.any(y != 0):
            return False
    return True


def _free(D):
    return D.ulen < 0 or D.vlen < 0


def _snap(D):
    return (int(D.ulen), int(D.vlen), str(D.dtype), len(D.u), len(D.v),
            tuple((x.dtype.str, x.shape, x.tobytes()) for x in D.u),
            tuple((x.dtype.str, x.shape, x.tobytes()) for x in D.v))


def _bounds(a):
    if a.size == 0:
        return None
    if a.flags.c_contiguous or a.flags.f_contiguous:
        lo = a.__array_interface__["data"][0]
        return lo, lo + a.nbytes
    return np.lib.array_utils.byte_bounds(a)


def _maxabs(D):
    m = 0.0
    for x in list(D.u) + list(D.v):
        if x.size:
            m = max(m, float(np.abs(x.real).max()), float(np.abs(x.imag).max()) if np.iscomplexobj(x) else 0.0)
    return m


def _returns_self(call0, D):
    def call():
        res = call0()
        if res is not D:
            raise RuntimeError("in-place operation did not return its target")
        return res
    return call


class Machine:
    def __init__(self, ctx=None):
        self.ctx = ctx
        self.regs = []      # real DyadCarriers
        self.dense = []     # numpy mirror (None: carrier with an unset dimension = zero matrix of any shape)
        self.typeok = []    # implementation type is known to agree with the dense type
        self.snaps = []
        self.prog = []
        self.outs = []
        self.created = []   # register created by instruction k (or None)
        self.fails = []     # (what, k, finding key or None)
        self.overflow = False

    def br(self, name):
        if self.ctx is not None:
            self.ctx.branch(name)

    def fail(self, what, k, key=None):
        self.fails.append((what, k, key))

    def type_fail(self, what, k, in_class, lost):
        """a complex/real type deviation: tagged with the open finding's key iff the instruction is in the finding's input
        class AND the deviation is a LOST complex type (result real, dense complex)"""
        if in_class and lost:
            self.br("oracle.known_finding_type_lost")
            self.fail(what, k, FINDING_KEY)
        else:
            self.fail(what, k)

    # -- helpers -----------------------------------------------------------------------------
    def _sync(self, r):
        D = self.regs[r]
        self.dense[r] = None if _free(D) else D.todense()
        self.typeok[r] = True

    def _set_dense(self, r, A, checked):
        """after an instruction: mirror of register r is A (None = free); type flag observational unless checked"""
        D = self.regs[r]
        if _free(D) or A is None:
            self.dense[r] = None if _free(D) else D.todense()
            self.typeok[r] = True
            return
        self.dense[r] = A
        self.typeok[r] = True if checked else (bool(D.iscomplex()) == bool(np.iscomplexobj(A)))

    def run(self, prog):
        for ins in prog:
            self.step(ins)
        return self

    # -- one instruction ---------------------------------------------------------------------
    def step(self, ins):
        pm = _pm()
        DC = pm.DyadCarrier
        op = ins["op"]
        py = ins.get("py") or {}
        k = len(self.prog)
        self.prog.append(ins)
        self.created.append(None)
        regs = self.regs
        refs = [ins[f] for f in ("r", "s") if f in ins]
        if any((not isinstance(x, int)) or x < 0 or x >= len(regs) for x in refs):
            obs = {"t": "badreg"}
            self.outs.append(obs)
            return obs
        r = ins.get("r")
        s = ins.get("s")
        D = regs[r] if r is not None else None
        S = regs[s] if s is not None else None
        A = self.dense[r] if r is not None else None
        B = self.dense[s] if s is not None else None
        arrs = []            # ndarray operands handed to the implementation (mutation / sharing checks)
        special_skip = False  # type of a non-carrier operand is lost (second open defect): skip the type check
        exp = ("undef",)
        target = r if op in INPLACE else None

        pre_loose = any(_loose(regs[i]) for i in refs)
        pre_free = any(_free(regs[i]) for i in refs)
        pre_tok = all(self.typeok[i] for i in refs)

        # ---- decode + expected dense result (computed BEFORE the call) -------------------------
        if op in ("new", "add_dyad"):
            ul = [dec_arr(a) for a in ins["u"]]
            vl = None if ins.get("v") is None else [dec_arr(a) for a in ins["v"]]
            arrs += ul + (vl or [])
            ua = _pyform(ul, py.get("uform", "list"), py.get("ue"))
            va = _pyform(vl, py.get("vform", "list"), py.get("ve"))
            if op == "new":
                ulen, vlen = int(ins["ulen"]), int(ins["vlen"])
                if py.get("noshape") and ulen == -1 and vlen == -1:
                    if va is None and py.get("pos1"):
                        call = lambda: DC(ua)
                    else:
                        call = lambda: DC(ua, va)
                else:
                    call = lambda: DC(ua, va, shape=(ulen, vlen))
                exp = dense_add(None, (ulen, vlen), ul, vl, None)
            else:
                fac = None if ins.get("fac") is None else dec_scalar(ins["fac"], py.get("ff", "float"))
                if fac is None and py.get("nofac"):
                    call = (lambda: D.add_dyad(ua)) if va is None else (lambda: D.add_dyad(ua, va))
                else:
                    call = lambda: D.add_dyad(ua, va, fac)
                call = _returns_self(call, D)
                exp = dense_add(A, (int(D.ulen), int(D.vlen)), ul, vl, None if fac is None else float(fac))
        elif op == "getitem":
            i0 = dec_idx(ins["i0"], py.get("np0"))
            i1 = dec_idx(ins["i1"], py.get("np1"))
            arrs += [x for x in (i0, i1) if isinstance(x, np.ndarray)]
            call = lambda: D[i0, i1]
            if A is None:
                exp = ("free",)
            else:
                a0, a1 = isinstance(i0, np.ndarray), isinstance(i1, np.ndarray)
                ok = idx_valid(i0, A.shape[0]) and idx_valid(i1, A.shape[1])
                if a0 and a1 and i0.shape != i1.shape:
                    ok = False
                if (a0 and i0.ndim >= 2 and isinstance(i1, slice)) or (a1 and i1.ndim >= 2 and isinstance(i0, slice)):
                    ok = False      # excluded input class: a 2-D index array with a slice is summed over its leading axis
                if ok:
                    exp = ("val", A[i0, i1])
        elif op == "setitem":
            i0 = dec_idx(ins["i0"], py.get("np0"))
            i1 = dec_idx(ins["i1"], py.get("np1"))
            arrs += [x for x in (i0, i1) if isinstance(x, np.ndarray)]
            val = {"0": 0, "0.0": 0.0, "np0": np.float64(0.0), "1": 1.0, "-2": -2, "h": 0.5}.get(py.get("val"),
                                                                                               0.0 if ins["zero"] else 1.0)

            def call():
                D[i0, i1] = val
            if A is None:
                exp = ("free",)
            elif ins["zero"] and is_null(i0) and is_null(i1):
                exp = ("val", np.zeros_like(A))      # D[:, :] = 0 (repaired by 9b72248: all dyads are dropped)
            elif ins["zero"] and (is_null(i0) != is_null(i1)):
                if is_null(i1) and idx_valid(i0, A.shape[0]):
                    R = A.copy()
                    R[i0, :] = 0
                    exp = ("val", R)
                elif is_null(i0) and idx_valid(i1, A.shape[1]):
                    R = A.copy()
                    R[:, i1] = 0
                    exp = ("val", R)
        elif op in UNARY:
            call = {"copy": lambda: D.copy(), "pos": lambda: +D, "neg": lambda: -D, "conj": lambda: D.conj(),
                    "real": lambda: D.real, "imag": lambda: D.imag,
                    "transpose": (lambda: D.transpose()) if py.get("fn") else (lambda: D.T)}[op]
            if A is None:
                exp = ("free",)
            else:
                exp = ("val", {"copy": lambda: A.copy(), "pos": lambda: A.copy(), "neg": lambda: -A, "conj": lambda: A.conj().copy(),
                               "real": lambda: A.real.copy(), "imag": lambda: A.imag.copy(), "transpose": lambda: A.T.copy()}[op]())
        elif op in ("iadd", "isub"):
            import operator
            f = operator.iadd if op == "iadd" else operator.isub

            def call():
                res = f(D, S)
                if res is not D:
                    raise RuntimeError("in-place operator returned a different object")
                return res
            sg = 1 if op == "iadd" else -1
            if A is not None and B is not None:
                if A.shape == B.shape:
                    exp = ("val", A + B if sg > 0 else A - B)
            elif A is not None and B is None:
                if all(b < 0 or b == a for a, b in zip(A.shape, (S.ulen, S.vlen))):
                    exp = ("val", A.copy())
            elif A is None and B is not None:
                if all(a < 0 or a == b for a, b in zip((D.ulen, D.vlen), B.shape)):
                    exp = ("val", B.copy() if sg > 0 else -B) if len(S.u) else ("free",)
            else:
                exp = ("free",)
        elif op in ("addD", "subD"):
            call = (lambda: D + S) if op == "addD" else (lambda: D - S)
            sg = 1 if op == "addD" else -1
            if A is not None and B is not None:
                if A.shape == B.shape:
                    exp = ("val", A + B if sg > 0 else A - B)
            elif A is not None and B is None:
                if all(b < 0 or b == a for a, b in zip(A.shape, (S.ulen, S.vlen))):
                    exp = ("val", A.copy())
            elif A is None and B is not None:
                if all(a < 0 or a == b for a, b in zip((D.ulen, D.vlen), B.shape)):
                    exp = ("val", B.copy() if sg > 0 else -B) if len(S.u) else ("free",)
            else:
                exp = ("free",)
        elif op in ("addS", "subS", "rsubS"):
            zf = py.get("zf", "float")
            z = dec_scalar(ins["z"], zf)
            if isinstance(z, np.ndarray):
                arrs.append(z)
            if op == "addS":
                call = (lambda: z + D) if py.get("rev") else (lambda: D + z)
            elif op == "subS":
                call = lambda: D - z
            else:
                call = lambda: z - D
            if zf in CPLX_FORMS:
                special_skip = True
            if complex(z) == 0:
                if A is None:
                    exp = ("free",)
                else:
                    exp = ("val", -A if op == "rsubS" else A.copy())
        elif op in ("addA", "subA", "rsubA"):
            a = dec_arr(ins["a"])
            arrs.append(a)
            if op == "addA":
                call = (lambda: a + D) if py.get("rev") else (lambda: D + a)
            elif op == "subA":
                call = lambda: D - a
            else:
                call = lambda: a - D
            if A is not None:
                try:
                    ab = np.broadcast_to(a, A.shape)
                except ValueError:
                    ab = None
                if ab is not None:
                    exp = ("val", A + ab if op == "addA" else (A - ab if op == "subA" else ab - A))
        elif op in ("mul", "rmul"):
            zf = py.get("zf", "float")
            z = dec_scalar(ins["z"], zf)
            if isinstance(z, np.ndarray):
                arrs.append(z)
            call = (lambda: D * z) if op == "mul" else (lambda: z * D)
            if bool(ins["zc"]) and len(D.u) == 0:
                special_skip = True
            if A is None:
                exp = ("free",)
            else:
                exp = ("val", A * z if op == "mul" else z * A)
        elif op == "contract":
            mat = None if ins.get("mat") is None else dec_arr(ins["mat"])
            rows = None if ins.get("rows") is None else dec_iarr(ins["rows"])
            cols = None if ins.get("cols") is None else dec_iarr(ins["cols"])
            arrs += [x for x in (mat, rows, cols) if x is not None]
            matarg = mat
            if mat is not None and py.get("sp") and mat.ndim == 2:
                import scipy.sparse as sp
                matarg = {"csr": sp.csr_matrix, "coo": sp.coo_matrix, "csc": sp.csc_matrix}[py["sp"]](mat)
            if py.get("kw"):
                call = lambda: D.contract(mat=matarg, rows=rows, cols=cols)
            elif rows is None and cols is None:
                call = (lambda: D.contract()) if mat is None else (lambda: D.contract(matarg))
            else:
                call = lambda: D.contract(matarg, rows, cols)
            if A is None:
                exp = ("free",)
            else:
                dc = dense_contract(A, mat, rows, cols)
                if dc is not None:
                    exp = ("val", dc[0], dc[1], bool(np.iscomplexobj(A)) or (mat is not None and bool(np.iscomplexobj(mat))))
        elif op == "contract_multi":
            import scipy.sparse as sp
            mats, dm = [], []
            for mj in ins["mats"]:
                if mj is None:
                    mats.append(None)
                    dm.append(None)
                elif mj["k"] == "coo":
                    data = dec_vec({"d": mj["data"], "c": mj["c"]})
                    row = np.array(mj["row"], dtype=np.int64)
                    col = np.array(mj["col"], dtype=np.int64)
                    arrs += [data, row, col]
                    mats.append(sp.coo_matrix((data, (row, col)), shape=(mj["nrow"], mj["ncol"])))
                    dm.append(("coo", mj["nrow"], mj["ncol"], row, col, data))
                else:
                    a = dec_arr(mj)
                    arrs.append(a)
                    mats.append(a)
                    dm.append(("dense", a))
            call = lambda: D.contract_multi(mats)
            if A is None:
                exp = ("free",)
            elif dm and dm[0] is not None:
                vals, ok = [], True
                for e in dm:
                    if e is None:
                        vals.append(0.0)
                    elif e[0] == "coo":
                        if (e[1], e[2]) != A.shape:
                            ok = False
                            break
                        vals.append(sum((e[5][t] * A[e[3][t], e[4][t]] for t in range(len(e[5]))), 0.0))
                    else:
                        if e[1].shape != A.shape:
                            ok = False
                            break
                        vals.append((A * e[1]).sum())
                if ok:
                    first = dm[0][5] if dm[0][0] == "coo" else dm[0][1]
                    R = np.array(vals, dtype=np.result_type(A.dtype, first.dtype))
                    exp = ("val", R)
        elif op == "todense":
            call = lambda: D.todense()
            exp = ("free",) if A is None else ("val", A)
        elif op == "diagonal":
            kk = int(ins["k"])
            call = (lambda: D.diagonal(kk)) if not py.get("kw") else (lambda: D.diagonal(k=kk))
            exp = ("free",) if A is None else ("val", np.diagonal(A, kk))
        elif op in ("dotV", "rdotV"):
            x = dec_vec(ins["x"])
            arrs.append(x)
            if op == "dotV":
                call = (lambda: D.dot(x)) if py.get("dot") else (lambda: D @ x)
                if A is not None and len(x) == A.shape[1]:
                    exp = ("val", A @ x)
            else:
                call = lambda: x @ D
                if A is not None and len(x) == A.shape[0]:
                    exp = ("val", x @ A)
            if A is None:
                exp = ("free",)
        elif op in ("matmulM", "rmatmulM"):
            M = dec_arr(ins["M"])
            arrs.append(M)
            if op == "matmulM":
                call = (lambda: D.dot(M)) if py.get("dot") else (lambda: D @ M)
                if A is not None and M.shape[0] == A.shape[1]:
                    exp = ("val", A @ M)
            else:
                call = lambda: M @ D
                if A is not None and M.shape[1] == A.shape[0]:
                    exp = ("val", M @ A)
            if A is None:
                exp = ("free",)
            if np.iscomplexobj(M) and len(D.u) == 0:
                special_skip = True
        elif op == "matmulD":
            call = lambda: D @ S
            if A is None or B is None:
                exp = ("free",)
            elif A.shape[1] == B.shape[0]:
                exp = ("val", A @ B)
            if len(D.u) == 0 and (S.iscomplex() or (B is not None and np.iscomplexobj(B))):
                special_skip = True
        else:
            raise ValueError(f"unknown op {op}")

        arr_before = [(a.dtype.str, a.shape, a.tobytes()) for a in arrs]

        # ---- run the real code --------------------------------------------------------------
        with warnings.catch_warnings():
            warnings.simplefilter("ignore")
            res = call_impl(call)
        if res[0] == "err" and res[1] == "RuntimeError" and res[2].startswith("NotImplementedError"):
            # common.errname lists RuntimeError before its subclass NotImplementedError: report the class actually raised
            res = ("err", "NotImplementedError", res[2])

        # ---- observation --------------------------------------------------------------------
        newreg = None
        result_arr = None
        if res[0] == "err":
            obs = {"t": "err", "e": res[1]}
            if target is not None:
                obs["car"] = dump(regs[target])
            outcome = "err." + res[1]
        else:
            v = res[1]
            if target is not None:
                obs = {"t": "unit", "car": dump(regs[target])}
            elif isinstance(v, DC):
                newreg = len(regs)
                regs.append(v)
                self.dense.append(None)
                self.typeok.append(True)
                self.created[k] = newreg
                obs = {"t": "car", "r": newreg, "car": dump(v)}
            elif op == "contract":
                obs = {"t": "cres", "s": [int(t) for t in np.shape(v)], "d": enc_data(v), "c": bool(np.iscomplexobj(v)),
                       "pyfloat": type(v) is float}
                result_arr = v
            else:
                obs = {"t": "arr", "a": enc_arr(v)}
                result_arr = v
            outcome = "ok"
        self.outs.append(obs)
        self.br(f"op.{op}.{outcome}")
        if op == "contract" and self.ctx is not None:
            kd = lambda x, base: "none" if x is None else ("batch%d" % (x.ndim - base) if x.ndim > base else "plain")
            self.br(f"contract.form.mat={'sparse' if matarg is not mat else kd(mat, 2)},rows={kd(rows, 1)},cols={kd(cols, 1)}."
                    + ("ok" if outcome == "ok" else "err"))
        elif op == "getitem" and outcome == "ok" and self.ctx is not None:
            self.br(f"getitem.form.{ins['i0']['k']}x{ins['i1']['k']}." + ("carrier" if newreg is not None else "array"))

        # ---- oracle -------------------------------------------------------------------------
        changed = target if target is not None else newreg
        in_class = pre_loose or (not pre_tok) or special_skip   # input class of the open finding FINDING_KEY
        can_type = not pre_free                                  # unset shape: no dense type to compare with
        if res[0] == "err":
            if exp[0] == "val":
                self.fail(f"{op}: exception on an input for which the dense operation is defined: {res[2]}", k)
            elif exp[0] == "free":
                self.br("oracle.free_skip")
            else:
                self.br("oracle.undefined_err")
            if target is not None:
                self._sync(target)
                self.br("oracle.resync_after_error")
        elif exp[0] == "undef":
            self.br("oracle.undefined_ok." + op)
            if changed is not None:
                self._sync(changed)
        elif exp[0] == "free":
            # some operand (or the result) is a zero matrix with an unset dimension: the result must be zero
            self.br("oracle.free_zero_check")
            if changed is not None:
                Dn = regs[changed]
                if len(Dn.u) or len(Dn.v) or np.any(Dn.todense() != 0):
                    self.fail(f"{op}: result of an operation on an empty (unset shape) carrier is not zero", k)
                self._sync(changed)
            elif result_arr is not None and np.any(np.asarray(result_arr) != 0):
                self.fail(f"{op}: result of an operation on an empty (unset shape) carrier is not zero", k)
        else:
            E = exp[1]
            self.br("oracle.checked." + op)
            if not can_type:
                self.br("oracle.type_skipped_free")
            elif in_class:
                self.br("oracle.type_checked_in_finding_class")
            if changed is not None:
                Dn = regs[changed]
                if _free(Dn):
                    if len(Dn.u) or np.any(np.asarray(E) != 0):
                        self.fail(f"{op}: carrier with unset shape but the dense result is a nonzero matrix", k)
                    elif not pre_free and op in UNARY + ("mul", "rmul", "neg", "sub", "add", "iadd", "isub") and np.ndim(E) == 2:
                        # every operand had a definite shape: so has the result (a zero matrix of that shape), cf. d.T.T == d
                        self.fail(f"{op}: the result has lost its shape (dimensions {(int(Dn.ulen), int(Dn.vlen))}) although every operand "
                                  f"had one; dense semantics gives a {np.shape(E)[0]} x {np.shape(E)[1]} matrix", k)
                    self._sync(changed)
                else:
                    T = Dn.todense()
                    if (int(Dn.ulen), int(Dn.vlen)) != tuple(E.shape) or tuple(T.shape) != tuple(E.shape):
                        if pre_free:
                            self.br("oracle.shape_skipped_free")
                            self._sync(changed)
                        else:
                            self.fail(f"{op}: result shape {(int(Dn.ulen), int(Dn.vlen))} (todense {T.shape}) but dense semantics gives {tuple(E.shape)}", k)
                            self._sync(changed)
                    else:
                        if not np.array_equal(T, E):
                            self.fail(f"{op}: todense of the result differs from the dense computation: {T.tolist()} vs {E.tolist()}", k)
                        tmatch = bool(Dn.iscomplex()) == bool(np.iscomplexobj(E)) and bool(np.iscomplexobj(T)) == bool(Dn.iscomplex())
                        if can_type and not tmatch:
                            lost = (not Dn.iscomplex()) and (not np.iscomplexobj(T)) and bool(np.iscomplexobj(E))
                            self.type_fail(f"{op}: result is {'complex' if Dn.iscomplex() else 'real'} (todense dtype {T.dtype}) but dense semantics gives dtype {E.dtype}", k, in_class, lost)
                        self._set_dense(changed, np.array(E), False)
            elif op == "contract":
                Ev, batch, ecplx = exp[1], exp[2], exp[3]
                if tuple(np.shape(result_arr)) != tuple(np.shape(Ev)):
                    self.fail(f"contract: result shape {np.shape(result_arr)} but dense semantics gives {np.shape(Ev)}", k)
                elif not np.array_equal(np.asarray(result_arr), np.asarray(Ev)):
                    self.fail(f"contract: value {np.asarray(result_arr).tolist()} but dense semantics gives {np.asarray(Ev).tolist()}", k)
                if batch and can_type and bool(np.iscomplexobj(result_arr)) != ecplx:
                    self.type_fail(f"contract: batch result dtype {np.asarray(result_arr).dtype} but dense semantics is {'complex' if ecplx else 'real'}", k,
                                   in_class, ecplx and not np.iscomplexobj(result_arr))
            else:
                Ra = np.asarray(result_arr)
                if tuple(Ra.shape) != tuple(np.shape(E)):
                    self.fail(f"{op}: result shape {Ra.shape} but dense semantics gives {np.shape(E)}", k)
                elif not np.array_equal(Ra, np.asarray(E)):
                    self.fail(f"{op}: value {Ra.tolist()} but dense semantics gives {np.asarray(E).tolist()}", k)
                if can_type and bool(np.iscomplexobj(Ra)) != bool(np.iscomplexobj(E)):
                    self.type_fail(f"{op}: result dtype {Ra.dtype} but dense semantics gives {np.asarray(E).dtype}", k,
                                   in_class, bool(np.iscomplexobj(E)) and not np.iscomplexobj(Ra))

        # ---- no mutation of anything but the in-place target ---------------------------------
        for i in range(len(self.snaps)):
            if i == target:
                continue
            if _snap(regs[i]) != self.snaps[i]:
                self.fail(f"{op}: register {i} (not the target of an in-place operation) was changed", k)
        for a, b in zip(arrs, arr_before):
            if (a.dtype.str, a.shape, a.tobytes()) != b:
                self.fail(f"{op}: an ndarray operand was changed by the operation", k)
        if changed is not None:
            if changed < len(self.snaps):
                self.snaps[changed] = _snap(regs[changed])
            else:
                self.snaps.append(_snap(regs[changed]))

        # ---- no shared memory between the result and operands / other registers ---------------
        if res[0] == "ok" and (changed is not None or isinstance(result_arr, np.ndarray)):
            fresh = []
            if changed is not None:
                fresh = [(x, f"r{changed}") for x in list(regs[changed].u) + list(regs[changed].v)]
            elif result_arr.ndim > 0:
                fresh = [(result_arr, "result")]
            items = []
            for x, tag in fresh:
                bnd = _bounds(x)
                if bnd:
                    items.append((bnd[0], bnd[1], 1, x, tag))
            for i, Dr in enumerate(regs):
                if i == changed:
                    continue
                for x in list(Dr.u) + list(Dr.v):
                    bnd = _bounds(x)
                    if bnd:
                        items.append((bnd[0], bnd[1], 0, x, f"r{i}"))
            for a in arrs:
                bnd = _bounds(a)
                if bnd:
                    items.append((bnd[0], bnd[1], 0, a, "operand"))
            if any(it[2] for it in items):
                items.sort(key=lambda t: (t[0], t[1]))
                active = []
                for it in items:
                    active = [p for p in active if p[1] > it[0]]
                    for p in active:
                        if (p[2] or it[2]) and (p[3] is it[3] or np.shares_memory(p[3], it[3])):
                            self.fail(f"{op}: result ({it[4] if it[2] else p[4]}) shares memory with {p[4] if it[2] else it[4]}", k)
                    active.append(it)

        # ---- exactness guard -------------------------------------------------------------------
        if changed is not None and _maxabs(regs[changed]) > LIMIT:
            self.overflow = True
        return obs

    def env(self):
        return [dump(D) for D in self.regs]


# ----------------------------------------------------------------------------------------------
# generator
# ----------------------------------------------------------------------------------------------
def g_arr(rng, shape, cplx=False, zero=False):
    n = int(np.prod(shape)) if len(shape) else 1
    if zero:
        vals = [0] * n
    else:
        p0 = rng.choice([0.0, 0.2, 0.5])
        vals = [0 if rng.random() < p0 else rng.randint(-3, 3) for _ in range(n)]
    if cplx:
        ims = [0 if (zero or rng.random() < 0.3) else rng.randint(-3, 3) for _ in range(n)]
        return np.array([complex(a, b) for a, b in zip(vals, ims)], dtype=np.complex128).reshape(shape)
    return np.array(vals, dtype=np.float64).reshape(shape)


def g_vecarg(rng, L, pc=0.35):
    """an array argument that parses to one vector of length L"""
    t = rng.random()
    if L == 1 and t < 0.3:
        shape = ()
    elif t < 0.72:
        shape = (L,)
    elif t < 0.92:
        shape = (rng.randint(1, 3), L)
    else:
        shape = (rng.randint(1, 2), rng.randint(1, 2), L)
    return g_arr(rng, shape, cplx=rng.random() < pc, zero=rng.random() < 0.1)


def g_forms(rng, lst):
    """python-side form hints for a list of arrays"""
    k = len(lst)
    if k == 0:
        form = rng.choice(["none", "list", "tuple"])
    elif k == 1:
        form = rng.choice(["single", "single", "list", "tuple"])
    else:
        form = rng.choice(["list", "list", "tuple"])
    elems = []
    for a in lst:
        if a.ndim == 0:
            elems.append(rng.choice(["arr", "scalar"]))
        elif rng.random() < 0.12:
            elems.append("list")
        else:
            elems.append("arr")
    return form, elems


def g_dyads(rng, m, n, nd, sym, pc):
    ul = [g_vecarg(rng, m, pc) for _ in range(nd)]
    vl = None if sym else [g_vecarg(rng, n, pc) for _ in range(nd)]
    return ul, vl


def g_new(rng, mach, malformed):
    t = rng.random()
    py = {}
    if t < 0.045:
        py = {"noshape": True, "uform": "none"}
        return {"op": "new", "u": [], "v": None, "ulen": -1, "vlen": -1, "py": py}
    if t < 0.10:
        m, n = rng.randint(0, 5), rng.randint(0, 5)
        if rng.random() < 0.15:
            m = -1
        elif rng.random() < 0.1:
            n = -1
        return {"op": "new", "u": [], "v": None, "ulen": m, "vlen": n, "py": {"uform": rng.choice(["none", "list"])}}
    # shape: reuse the shape (or a compatible one) of an existing register half of the time
    shaped = [D for D in mach.regs if D.ulen > 0 and D.vlen > 0]
    if shaped and rng.random() < 0.55:
        D = rng.choice(shaped)
        m, n = rng.choice([(D.ulen, D.vlen), (D.ulen, D.vlen), (D.vlen, D.ulen), (D.vlen, rng.randint(1, 5))])
    else:
        m, n = rng.randint(1, 5), rng.randint(1, 5)
    sym = rng.random() < 0.15
    if sym:
        n = m
    nd = rng.choice([0, 1, 1, 2, 2, 3, 4])
    pc = rng.choice([0.0, 0.0, 0.35, 0.35, 1.0])
    ul, vl = g_dyads(rng, m, n, nd, sym, pc)
    giveshape = rng.random() < 0.3 or nd == 0
    ulen, vlen = (m, n) if giveshape else (-1, -1)
    if giveshape and rng.random() < 0.2:
        if rng.random() < 0.5:
            ulen = -1
        else:
            vlen = -1
    if malformed:
        w = rng.random()
        if w < 0.3 and nd >= 1:
            i = rng.randrange(nd)
            ul[i] = g_vecarg(rng, m + 1)
        elif w < 0.55 and nd >= 1 and vl is not None:
            i = rng.randrange(nd)
            vl[i] = g_vecarg(rng, n + rng.choice([-1, 1]) if n > 1 else n + 1)
        elif w < 0.8 and vl is not None:
            vl = vl + [g_vecarg(rng, n)]
        else:
            ulen, vlen = m + 1, n
    uf, ue = g_forms(rng, ul)
    py = {"uform": uf, "ue": ue, "noshape": True, "pos1": rng.random() < 0.5}
    if vl is not None:
        vf, ve = g_forms(rng, vl)
        py.update({"vform": vf, "ve": ve})
    return {"op": "new", "u": [enc_arr(a) for a in ul], "v": None if vl is None else [enc_arr(a) for a in vl],
            "ulen": ulen, "vlen": vlen, "py": py}


def g_slice(rng, n):
    t = rng.random()
    if t < 0.15:
        return {"k": "sl", "a": None, "b": None, "st": None}
    lim = n + 2

    def ep():
        return None if rng.random() < 0.3 else rng.randint(-lim, lim)
    st = rng.choice([None, None, 1, 2, 3, -1, -1, -2])
    return {"k": "sl", "a": ep(), "b": ep(), "st": st}


def g_iarr(rng, n, shape=None, bad=False):
    if shape is None:
        shape = (rng.randint(0, 5),) if rng.random() < 0.95 else ()
    cnt = int(np.prod(shape)) if len(shape) else 1
    if n == 0:
        d = [0] * cnt
    else:
        d = [rng.randint(-n, n - 1) for _ in range(cnt)]
    if bad and cnt:
        d[rng.randrange(cnt)] = rng.choice([n, n + 1, -n - 1])
    return {"k": "arr", "s": list(shape), "d": d}


def g_index(rng, n, bad=False, kinds=("sl", "int", "arr")):
    k = rng.choice(kinds)
    if k == "int" and n == 0 and not bad:
        k = "sl"
    if k == "sl":
        j = g_slice(rng, n)
        if bad and rng.random() < 0.5:
            j["st"] = 0
        return j
    if k == "int":
        return {"k": "int", "i": rng.choice([n, -n - 1, n + 2]) if bad else rng.randint(-n, n - 1)}
    if n == 0 and not bad:
        return {"k": "arr", "s": [0], "d": []}
    return g_iarr(rng, n, bad=bad)


def _dims(D):
    return max(0, int(D.ulen)), max(0, int(D.vlen))


def g_getitem(rng, mach, r, malformed):
    D = mach.regs[r]
    m, n = _dims(D)
    t = rng.random()
    py = {"np0": rng.random() < 0.3, "np1": rng.random() < 0.3}
    if t < 0.18:   # array x array (same shape; 1-D or 2-D)
        shape = rng.choice([(rng.randint(0, 4),), (rng.randint(1, 2), rng.randint(1, 3)), ()])
        if (m == 0 or n == 0) and not malformed:
            shape = (0,)
        i0 = g_iarr(rng, m, shape)
        shape1 = shape
        bad = False
        if malformed:
            if rng.random() < 0.5:
                shape1 = (len(shape) and shape[0] or 0) + 1,
            else:
                bad = True
        i1 = g_iarr(rng, n, shape1, bad=bad)
    elif malformed and t < 0.35:   # 2-D index array with a slice (excluded class, model comparison only)
        i0 = g_iarr(rng, max(m, 1), (2, 2)) if m else g_slice(rng, m)
        i1 = g_slice(rng, n)
        if rng.random() < 0.5:
            i0, i1 = g_slice(rng, m), (g_iarr(rng, max(n, 1), (2, 2)) if n else g_slice(rng, n))
    else:
        b0 = malformed and rng.random() < 0.5
        i0 = g_index(rng, m, bad=b0)
        i1 = g_index(rng, n, bad=malformed and not b0)
        if i0["k"] == "arr" and i1["k"] == "arr" and not malformed:
            i1 = g_iarr(rng, n, tuple(i0["s"]))
    return {"op": "getitem", "r": r, "i0": i0, "i1": i1, "py": py}


def g_setitem(rng, mach, r, malformed):
    D = mach.regs[r]
    m, n = _dims(D)
    null = {"k": "sl", "a": None, "b": None, "st": None}
    py = {"np0": rng.random() < 0.3, "np1": rng.random() < 0.3, "val": rng.choice(["0", "0.0", "np0"])}
    zero = True
    w = rng.random()
    rowside = rng.random() < 0.5
    idx = g_index(rng, m if rowside else n, bad=malformed and w < 0.3)
    if rng.random() < 0.06:
        idx = g_iarr(rng, max(1, m if rowside else n), (2, 2)) if (m if rowside else n) else idx
    i0, i1 = (idx, null) if rowside else (null, idx)
    if malformed and 0.3 <= w < 0.6:
        zero = False
        py["val"] = rng.choice(["1", "-2", "h"])
    elif malformed and 0.6 <= w < 0.9:
        i0, i1 = g_index(rng, m, kinds=("int", "arr", "sl")), g_index(rng, n, kinds=("int", "arr", "sl"))
    elif malformed or rng.random() < 0.08:
        i0, i1 = null, null    # D[:, :] = 0 : drops all dyads (repaired by 9b72248)
    return {"op": "setitem", "r": r, "i0": i0, "i1": i1, "zero": zero, "py": py}


def g_scalar(rng, pool=None, allow1=False, force_zero=False):
    z = 0 if force_zero else rng.choice(pool or SCALARS)
    if isinstance(z, complex):
        forms = ["complex", "npcomplex", "arr0c"] + (["arr1c"] if allow1 else [])
    else:
        forms = ["int", "float", "float", "npfloat", "npint", "arr0f"] + (["arr1f"] if allow1 else [])
        if rng.random() < 0.15:
            forms = ["complex", "npcomplex", "arr0c"] + (["arr1c"] if allow1 else [])
    zf = rng.choice(forms)
    return _cx(z), zf, zf in CPLX_FORMS


def g_addA_arr(rng, m, n, malformed):
    shapes = [(m, n), (m, n), (n,), (1,), (1, n), (m, 1), (1, 1)]
    shape = rng.choice(shapes)
    if malformed:
        shape = rng.choice([(m + 1, n), (n + 1,), (2, m, n), (m, n + 2)])
    return g_arr(rng, shape, cplx=rng.random() < 0.3)


def g_contract(rng, mach, r, malformed):
    D = mach.regs[r]
    m, n = _dims(D)
    py = {"kw": rng.random() < 0.3}
    usemat = rng.random() < 0.7
    userows = rng.random() < 0.5
    usecols = rng.random() < 0.5
    batch = rng.random() < 0.5
    bs = rng.choice([(rng.randint(1, 3),), (rng.randint(1, 3),), (rng.randint(1, 2), rng.randint(1, 2))]) if batch else ()
    bm = batch and usemat and rng.random() < 0.6
    br_ = batch and userows and rng.random() < 0.6
    bc = batch and usecols and rng.random() < 0.6
    nr = rng.randint(0, 4) if userows else m
    nc = rng.randint(0, 4) if usecols else n
    if not usemat:
        # u[rows] @ v[cols]: both lengths must agree
        if userows and usecols:
            nc = nr
        elif userows:
            nr = n
        elif usecols:
            nc = m
    if (m == 0 and userows) or (n == 0 and usecols):
        nr = 0 if userows else nr
        nc = 0 if usecols else nc
        if not usemat and nr != nc:
            usemat = True
    bad = rng.random() if malformed else 1.0
    rows = cols = mat = None
    if userows:
        rows = g_iarr(rng, m, tuple(bs) + (nr,) if br_ else (nr,), bad=bad < 0.2)
        rows = {"s": rows["s"], "d": rows["d"]}
    if usecols:
        cols = g_iarr(rng, n, tuple(bs) + (nc,) if bc else (nc,), bad=0.2 <= bad < 0.35)
        cols = {"s": cols["s"], "d": cols["d"]}
    if usemat:
        p, q = nr, nc
        if 0.35 <= bad < 0.6:
            p, q = rng.choice([(p + 1, q), (p, q + 1), (q + 1, p + 2)])
        mbs = tuple(bs)
        if bm and 0.6 <= bad < 0.8 and (br_ or bc):
            mbs = (bs[0] + 1,) + tuple(bs[1:])
        mat = g_arr(rng, (mbs + (p, q)) if bm else (p, q), cplx=rng.random() < 0.3)
        if mat.ndim == 2 and not (br_ or bc) and rng.random() < 0.3:
            py["sp"] = rng.choice(["csr", "coo", "csc"])
        mat = enc_arr(mat)
    elif 0.35 <= bad < 0.8 and rows is not None and not br_:
        rows = {"s": [nr + 1], "d": rows["d"] + [0]}
    if 0.8 <= bad < 1.0 and br_ and bc:
        cshape = [bs[0] + 1] + list(bs[1:]) + [nc]
        cols = {"s": cshape, "d": [0] * int(np.prod(cshape))}
    return {"op": "contract", "r": r, "mat": mat, "rows": rows, "cols": cols, "py": py}


def g_contract_multi(rng, mach, r, malformed):
    D = mach.regs[r]
    m, n = _dims(D)
    cplx = rng.random() < 0.3
    k = rng.randint(1, 4)
    mats = []
    bad = rng.random() if malformed else 1.0
    for i in range(k):
        t = rng.random()
        if t < 0.15 and (i > 0 or bad < 0.25):
            mats.append(None)
        elif t < 0.7 or m == 0 or n == 0:
            nr, nc = m, n
            if 0.25 <= bad < 0.6:
                nr, nc = m + 2, n + 1
            nnz = rng.randint(0, 6) if nr and nc else 0
            row = [rng.randrange(nr) for _ in range(nnz)]
            col = [rng.randrange(nc) for _ in range(nnz)]
            if nnz >= 2 and rng.random() < 0.4:
                row[1], col[1] = row[0], col[0]
            data = g_arr(rng, (nnz,), cplx=cplx)
            mats.append({"k": "coo", "nrow": nr, "ncol": nc, "row": row, "col": col, "data": enc_data(data), "c": cplx})
        else:
            shape = (m, n)
            if 0.6 <= bad < 0.9:
                shape = rng.choice([(m + 1, n), (m, n + 1)])
            a = enc_arr(g_arr(rng, shape, cplx=cplx))
            a["k"] = "dense"
            mats.append(a)
    if bad >= 0.9 and bad < 1.0:
        mats = []
    return {"op": "contract_multi", "r": r, "mats": mats, "py": {}}


WEIGHTS = [("new", 5), ("add_dyad", 5), ("getitem", 11), ("setitem", 5), ("unary", 9), ("iadd", 4), ("isub", 3), ("addS", 2),
           ("addD", 4), ("addA", 3), ("subS", 1.5), ("subD", 3), ("subA", 2), ("rsubS", 1.5), ("rsubA", 2), ("mul", 4), ("rmul", 3),
           ("contract", 10), ("contract_multi", 4), ("todense", 3), ("diagonal", 3), ("dotV", 3), ("rdotV", 3), ("matmulM", 3),
           ("rmatmulM", 3), ("matmulD", 4)]


def _pick_partner(rng, mach, r, pred, malformed):
    cands = [i for i, S in enumerate(mach.regs) if pred(S)]
    if malformed or not cands:
        return rng.randrange(len(mach.regs)) if (malformed or rng.random() < 0.15) else None
    return rng.choice(cands)


def gen_instr(rng, mach, pmal):
    """one instruction for the current state of the machine"""
    regs = mach.regs
    if not regs:
        return g_new(rng, mach, rng.random() < pmal)
    names = [w[0] for w in WEIGHTS]
    ws = [w[1] for w in WEIGHTS]
    for _ in range(20):
        op = rng.choices(names, ws)[0]
        malformed = rng.random() < pmal
        r = rng.randrange(len(regs))
        if rng.random() < 0.5:
            r = len(regs) - 1 - min(rng.randrange(len(regs)), rng.randrange(len(regs)))   # prefer recent registers
        D = regs[r]
        m, n = _dims(D)
        nd = len(D.u)
        if op == "new":
            return g_new(rng, mach, malformed)
        if op == "add_dyad":
            k = rng.choice([0, 1, 1, 2])
            if nd + k > MAXDY:
                continue
            sym = rng.random() < 0.2 and (m == n or D.ulen < 0)
            mm = m if D.ulen >= 0 else rng.randint(1, 4)
            nn = n if D.vlen >= 0 else (mm if sym else rng.randint(1, 4))
            ul, vl = g_dyads(rng, mm, nn, k, sym, rng.choice([0.0, 0.35, 1.0]))
            if malformed and k:
                if rng.random() < 0.5:
                    ul[-1] = g_vecarg(rng, mm + 1)
                elif vl is not None:
                    vl[0] = g_vecarg(rng, nn + 1)
                else:
                    ul[0] = g_vecarg(rng, mm + 2)
            elif malformed and vl is not None:
                vl = vl + [g_vecarg(rng, nn)]
            uf, ue = g_forms(rng, ul)
            py = {"uform": uf if uf != "none" else "list", "ue": ue, "nofac": rng.random() < 0.5}
            if vl is not None:
                vf, ve = g_forms(rng, vl)
                py.update({"vform": vf if vf != "none" else "list", "ve": ve})
            fac = None
            if rng.random() < 0.4:
                fac = [rng.choice([-2, -1, 1, 2, 0]), 0]
                py["ff"] = rng.choice(["float", "int", "npfloat"])
            return {"op": "add_dyad", "r": r, "u": [enc_arr(a) for a in ul], "v": None if vl is None else [enc_arr(a) for a in vl],
                    "fac": fac, "py": py}
        if op == "getitem":
            return g_getitem(rng, mach, r, malformed)
        if op == "setitem":
            return g_setitem(rng, mach, r, malformed)
        if op == "unary":
            u = rng.choice(UNARY)
            if u in ("real", "imag") and 2 * nd > MAXDY:
                continue
            return {"op": u, "r": r, "py": {"fn": rng.random() < 0.5}}
        if op in ("iadd", "isub", "addD", "subD"):
            if rng.random() < 0.12:
                s = r
            else:
                s = _pick_partner(rng, mach, r, lambda S: (S.ulen, S.vlen) == (D.ulen, D.vlen) or _free(S) or _free(D), malformed)
            if s is None or nd + len(regs[s].u) > MAXDY:
                continue
            return {"op": op, "r": r, "s": s}
        if op in ("addS", "subS", "rsubS"):
            z, zf, _ = g_scalar(rng, force_zero=not malformed and rng.random() < 0.93)
            return {"op": op, "r": r, "z": z, "py": {"zf": zf, "rev": rng.random() < 0.5}}
        if op in ("addA", "subA", "rsubA"):
            a = g_addA_arr(rng, m, n, malformed)
            return {"op": op, "r": r, "a": enc_arr(a), "py": {"rev": rng.random() < 0.5}}
        if op in ("mul", "rmul"):
            z, zf, zc = g_scalar(rng, allow1=True)
            return {"op": op, "r": r, "z": z, "zc": zc, "py": {"zf": zf}}
        if op == "contract":
            return g_contract(rng, mach, r, malformed)
        if op == "contract_multi":
            return g_contract_multi(rng, mach, r, malformed)
        if op == "todense":
            return {"op": "todense", "r": r}
        if op == "diagonal":
            return {"op": "diagonal", "r": r, "k": rng.randint(-max(m, n) - 1, max(m, n) + 1), "py": {"kw": rng.random() < 0.3}}
        if op in ("dotV", "rdotV"):
            L = n if op == "dotV" else m
            if malformed:
                L += rng.choice([1, 2])
            x = g_arr(rng, (L,), cplx=rng.random() < 0.3)
            return {"op": op, "r": r, "x": enc_vec(x), "py": {"dot": rng.random() < 0.5}}
        if op == "matmulM":
            p = n + (1 if malformed else 0)
            M = g_arr(rng, (p, rng.randint(0 if rng.random() < 0.1 else 1, 4)), cplx=rng.random() < 0.3)
            return {"op": op, "r": r, "M": enc_arr(M), "py": {"dot": rng.random() < 0.5}}
        if op == "rmatmulM":
            p = m + (1 if malformed else 0)
            M = g_arr(rng, (rng.randint(0 if rng.random() < 0.1 else 1, 4), p), cplx=rng.random() < 0.3)
            return {"op": op, "r": r, "M": enc_arr(M)}
        if op == "matmulD":
            s = _pick_partner(rng, mach, r, lambda S: S.ulen == D.vlen or _free(S) or _free(D), malformed)
            if s is None:
                continue
            return {"op": op, "r": r, "s": s}
    return {"op": "todense", "r": len(regs) - 1}


def gen_program(rng, maxlen, pmal, ctx=None):
    """generates AND executes a program; returns the machine"""
    mach = Machine(ctx)
    length = rng.randint(3, maxlen)
    nnew = rng.choice([1, 1, 1, 2, 2])
    for k in range(length):
        if k < min(nnew, length - 1):
            ins = g_new(rng, mach, rng.random() < pmal / 2)
        else:
            ins = gen_instr(rng, mach, pmal)
        mach.step(ins)
        if mach.overflow:
            break
    return mach


# ----------------------------------------------------------------------------------------------
# fixed programs: every instruction kind succeeds, every error kind is reached
# ----------------------------------------------------------------------------------------------
def _A(x, c=None):
    a = np.array(x)
    if c or (c is None and np.iscomplexobj(a)):
        return enc_arr(a.astype(np.complex128))
    return enc_arr(a.astype(np.float64))


def _V(x, c=False):
    return enc_vec(np.array(x, dtype=np.complex128 if c else np.float64))


NULL = {"k": "sl", "a": None, "b": None, "st": None}


def fixed_programs():
    P = []
    new32 = {"op": "new", "u": [_A([1, 2, 0]), _A([[1, 0, 1], [0, 1, 1]])], "v": [_A([1, -1]), _A([2j, 1])], "ulen": -1, "vlen": -1,
             "py": {"noshape": True}}
    new33 = {"op": "new", "u": [_A([1, -2, 3])], "v": None, "ulen": 3, "vlen": 3, "py": {"uform": "single"}}
    P.append([new32, {"op": "todense", "r": 0}, {"op": "copy", "r": 0}, {"op": "pos", "r": 0}, {"op": "neg", "r": 0}, {"op": "conj", "r": 0},
              {"op": "real", "r": 0}, {"op": "imag", "r": 0}, {"op": "transpose", "r": 0}, {"op": "matmulD", "r": 0, "s": 7},
              {"op": "diagonal", "r": 8, "k": 1}, {"op": "iadd", "r": 1, "s": 1}, {"op": "isub", "r": 2, "s": 0}, {"op": "addD", "r": 0, "s": 1},
              {"op": "subD", "r": 0, "s": 3}])
    P.append([new33, {"op": "add_dyad", "r": 0, "u": [_A([[1, 1, 1]])], "v": [_A([0, 1j, 0])], "fac": [-1, 0], "py": {"ff": "float"}},
              {"op": "getitem", "r": 0, "i0": {"k": "sl", "a": -2, "b": None, "st": None}, "i1": {"k": "sl", "a": None, "b": None, "st": -1}},
              {"op": "getitem", "r": 0, "i0": {"k": "int", "i": -1}, "i1": NULL},
              {"op": "getitem", "r": 0, "i0": {"k": "arr", "s": [2, 2], "d": [0, 1, 2, -1]}, "i1": {"k": "arr", "s": [2, 2], "d": [1, 1, 0, 2]}},
              {"op": "getitem", "r": 0, "i0": {"k": "int", "i": 1}, "i1": {"k": "int", "i": 1}},
              {"op": "getitem", "r": 0, "i0": {"k": "arr", "s": [3], "d": [2, 2, 0]}, "i1": {"k": "sl", "a": 0, "b": 3, "st": 2}},
              {"op": "setitem", "r": 0, "i0": {"k": "arr", "s": [2], "d": [0, 0]}, "i1": NULL, "zero": True, "py": {"val": "0"}},
              {"op": "setitem", "r": 1, "i0": NULL, "i1": {"k": "int", "i": 0}, "zero": True, "py": {"val": "0.0"}},
              {"op": "addS", "r": 0, "z": [0, 0], "py": {"zf": "int", "rev": True}}, {"op": "subS", "r": 0, "z": [0, 0], "py": {"zf": "float"}},
              {"op": "rsubS", "r": 0, "z": [0, 0], "py": {"zf": "npfloat"}},
              {"op": "mul", "r": 0, "z": [0, 1], "zc": True, "py": {"zf": "complex"}}, {"op": "rmul", "r": 0, "z": [2, 0], "zc": False, "py": {"zf": "arr1f"}},
              {"op": "mul", "r": 0, "z": [0, 0], "zc": False, "py": {"zf": "int"}}])
    P.append([new32, {"op": "addA", "r": 0, "a": _A([[1, 2], [3, 4], [5, 6]]), "py": {"rev": True}}, {"op": "subA", "r": 0, "a": _A([1, 1j])},
              {"op": "rsubA", "r": 0, "a": _A([[1], [2], [3]])}, {"op": "dotV", "r": 0, "x": _V([1, 2]), "py": {"dot": True}},
              {"op": "dotV", "r": 0, "x": _V([1, 1j], True)}, {"op": "rdotV", "r": 0, "x": _V([1, 0, -1])},
              {"op": "matmulM", "r": 0, "M": _A([[1, 2, 0], [0, 1, 1]])}, {"op": "rmatmulM", "r": 0, "M": _A([[1, 2, 3]])},
              {"op": "contract", "r": 0, "mat": _A([[1, 0], [0, 1], [2, 2]]), "rows": None, "cols": None, "py": {"sp": "csr"}},
              {"op": "contract", "r": 0, "mat": _A(np.arange(12).reshape(2, 3, 2) % 3), "rows": None, "cols": None},
              {"op": "contract", "r": 0, "mat": None, "rows": {"s": [2, 2], "d": [0, 1, 2, 2]}, "cols": {"s": [2], "d": [1, 0]}},
              {"op": "contract", "r": 0, "mat": _A(np.ones((2, 1, 2, 1))), "rows": {"s": [2, 1, 2], "d": [0, 1, 2, -1]}, "cols": {"s": [2, 1, 1], "d": [0, 1]}},
              {"op": "contract", "r": 0, "mat": None, "rows": {"s": [2], "d": [0, 2]}, "cols": None, "py": {"kw": True}},
              {"op": "contract_multi", "r": 0, "mats": [
                  {"k": "coo", "nrow": 3, "ncol": 2, "row": [0, 0, 2], "col": [1, 1, 0], "data": [[1, 0], [2, 0], [-1, 0]], "c": False},
                  None, dict(_A([[1, 0], [0, 1], [1, 1]]), k="dense")]}])
    # errors
    P.append([new32,
              {"op": "new", "u": [_A([1, 2]), _A([1, 2, 3])], "v": [_A([1]), _A([1])], "ulen": -1, "vlen": -1, "py": {"noshape": True}},   # TypeError
              {"op": "add_dyad", "r": 0, "u": [_A([1, 0, 0]), _A([1, 1])], "v": None, "fac": None, "py": {}},                               # TypeError, partial
              {"op": "new", "u": [_A([1, 2])], "v": [_A([1]), _A([1])], "ulen": -1, "vlen": -1, "py": {"noshape": True}},                   # TypeError (counts)
              {"op": "addS", "r": 0, "z": [1, 0], "py": {"zf": "float"}},                                                                    # NotImplementedError
              {"op": "rsubS", "r": 0, "z": [0, 1], "py": {"zf": "complex"}},
              {"op": "getitem", "r": 0, "i0": {"k": "int", "i": 5}, "i1": NULL},                                                             # IndexError
              {"op": "getitem", "r": 0, "i0": {"k": "sl", "a": None, "b": None, "st": 0}, "i1": NULL},                                      # ValueError
              {"op": "getitem", "r": 0, "i0": {"k": "arr", "s": [2], "d": [0, 1]}, "i1": {"k": "arr", "s": [3], "d": [0, 1, 1]}},         # IndexError
              {"op": "setitem", "r": 0, "i0": {"k": "int", "i": 0}, "i1": NULL, "zero": False, "py": {"val": "1"}},                         # ValueError
              {"op": "setitem", "r": 0, "i0": {"k": "int", "i": 0}, "i1": {"k": "int", "i": 0}, "zero": True, "py": {"val": "0"}},          # IndexError
              {"op": "setitem", "r": 0, "i0": NULL, "i1": NULL, "zero": True, "py": {"val": "0"}},                                           # clears all dyads
              {"op": "contract_multi", "r": 0, "mats": [None], "py": {}},                                                                     # AttributeError
              {"op": "contract_multi", "r": 0, "mats": [], "py": {}},                                                                         # IndexError
              {"op": "addA", "r": 0, "a": _A([1, 2, 3])}])                                                                                   # ValueError
    P.append([{"op": "new", "u": [], "v": None, "ulen": -1, "vlen": -1, "py": {"noshape": True, "uform": "none"}},
              new33, {"op": "iadd", "r": 0, "s": 1}, {"op": "todense", "r": 0},
              {"op": "new", "u": [], "v": None, "ulen": -1, "vlen": -1, "py": {"noshape": True, "uform": "list"}},
              {"op": "getitem", "r": 2, "i0": NULL, "i1": NULL}, {"op": "addD", "r": 2, "s": 1}, {"op": "todense", "r": 2},
              {"op": "contract", "r": 2, "mat": None, "rows": None, "cols": None}, {"op": "addA", "r": 2, "a": _A([1.0])},
              {"op": "new", "u": [], "v": None, "ulen": 0, "vlen": 3, "py": {}}, {"op": "diagonal", "r": 5, "k": 0},
              {"op": "new", "u": [], "v": None, "ulen": -1, "vlen": 3, "py": {}}, {"op": "getitem", "r": 6, "i0": NULL, "i1": NULL},
              {"op": "matmulD", "r": 2, "s": 1}])
    # the loose-dtype carrier (known residual defect): the model must follow the code
    P.append([{"op": "new", "u": [_A([1j, 0, 0])], "v": [_A([0, 2])], "ulen": -1, "vlen": -1, "py": {"noshape": True}},
              {"op": "mul", "r": 0, "z": [0, 0], "zc": False, "py": {"zf": "int"}}, {"op": "copy", "r": 1}, {"op": "todense", "r": 1},
              {"op": "todense", "r": 2}, {"op": "transpose", "r": 1}, {"op": "neg", "r": 1},
              {"op": "getitem", "r": 1, "i0": {"k": "sl", "a": 1, "b": None, "st": None}, "i1": NULL},
              {"op": "new", "u": [_A([1, 1, 1])], "v": [_A([1, 1])], "ulen": -1, "vlen": -1, "py": {"noshape": True}},
              {"op": "iadd", "r": 6, "s": 1}, {"op": "addD", "r": 1, "s": 6}, {"op": "contract", "r": 1, "mat": None, "rows": {"s": [1, 2], "d": [0, 1]}, "cols": None},
              {"op": "new", "u": [], "v": None, "ulen": 2, "vlen": 2, "py": {}}, {"op": "mul", "r": 8, "z": [0, 1], "zc": True, "py": {"zf": "complex"}},
              {"op": "matmulM", "r": 8, "M": _A([[1j, 0], [0, 1]])}])
    return P


# ----------------------------------------------------------------------------------------------
# correspondence
# ----------------------------------------------------------------------------------------------
def _witness(mach, k):
    return {"prog": mach.prog[:k + 1]}


def oracle_program(prog):
    """run the oracle on a JSON program; returns the list of (what, k, finding key or None)"""
    mach = Machine(None)
    try:
        mach.run(prog)
    except Exception as e:  # noqa
        return [(f"harness could not run the program: {type(e).__name__}: {e}", len(mach.prog) - 1, None)], mach
    return mach.fails, mach


def shrink(prog, pred, budget=400):
    """drop instructions (renumbering registers) while pred(prog) holds"""
    prog = [dict(i) for i in prog]
    changed = True
    while changed and budget > 0:
        changed = False
        _, mach = oracle_program(prog)
        created = list(mach.created) + [None] * (len(prog) - len(mach.created))
        for k in range(len(prog) - 1, -1, -1):
            c = created[k]
            later = prog[k + 1:]
            redirect = None
            if c is not None and any(i.get(f) == c for i in later for f in ("r", "s")):
                redirect = prog[k].get("r")       # use the operand of the dropped instruction in its place
                if not isinstance(redirect, int) or redirect >= c:
                    continue
            cand = [dict(i) for i in prog[:k]]
            for i in later:
                j = dict(i)
                if c is not None:
                    for f in ("r", "s"):
                        if f in j and isinstance(j[f], int):
                            if j[f] == c and redirect is not None:
                                j[f] = redirect
                            elif j[f] > c:
                                j[f] -= 1
                cand.append(j)
            budget -= 1
            if cand and pred(cand):
                prog = cand
                changed = True
                break
            if budget <= 0:
                break
    return prog


def _fails_like(what, key=None):
    """same kind of failure: same instruction head AND same known-finding tag (a shrink must not turn a fresh deviation
    into a witness of the known finding or vice versa)"""
    head = what.split(":")[0]

    def pred(p):
        f, _ = oracle_program(p)
        return any(w.split(":")[0] == head and kk == key for w, _, kk in f)
    return pred


def _first_like(fails, what, key):
    head = what.split(":")[0]
    for w, _, kk in fails:
        if w.split(":")[0] == head and kk == key:
            return w
    return None


def _report_fail(ctx, mach, what, k, nshrunk, key=None):
    prog = mach.prog[:k + 1]
    if key is not None:
        # witness of the OPEN KNOWN FINDING: counted, only the first few are handed over (tagged), never shrunk
        ctx.branch("oracle.known_finding_witnesses")
        n = getattr(ctx, "_c15_known_reported", 0)
        if n < MAX_KNOWN_REPORTED:
            ctx._c15_known_reported = n + 1
            ctx.oracle_fail(what, {"prog": prog}, key=key)
        return
    if nshrunk[0] < 5:
        nshrunk[0] += 1
        try:
            small = shrink(prog, _fails_like(what, None))
            f, _ = oracle_program(small)
            w2 = _first_like(f, what, None)
            if w2:
                prog, what = small, w2
        except Exception:  # noqa
            pass
    ctx.oracle_fail(what, {"prog": prog})


def correspondence(ctx):
    rng = ctx.rng
    maxlen = 6 if ctx.quick else 15
    nprog = 1800 if ctx.quick else 30000
    batch = 1500
    pmal = 0.06
    nshrunk = [0]
    total_instr = 0
    pid = 0
    selftest_done = ctx.quick
    fixed = fixed_programs()
    todo = nprog + len(fixed)
    while pid < todo:
        machs = []
        for _ in range(min(batch, todo - pid)):
            if pid + len(machs) < len(fixed):
                mach = Machine(ctx)
                mach.run(fixed[pid + len(machs)])
                ctx.branch("program.fixed")
            else:
                mach = gen_program(rng, maxlen, pmal, ctx)
                ctx.branch("program.random")
                if mach.overflow:
                    ctx.branch("program.stopped_magnitude")
            machs.append(mach)
        reqs = [{"m": "c15.prog", "prog": m.prog} for m in machs]
        res = ctx.model(reqs)
        for j, (mach, mres) in enumerate(zip(machs, res)):
            p = pid + j
            total_instr += len(mach.prog)
            for what, k, fkey in mach.fails:
                _report_fail(ctx, mach, what, k, nshrunk, fkey)
            if "ok" not in mres:
                ctx.disagree("prog", {"prog": mach.prog}, "ran", mres, "model error")
                continue
            mo = mres["ok"]["outs"]
            good = len(mo) == len(mach.outs)
            if not good:
                ctx.disagree("prog", {"prog": mach.prog}, len(mach.outs), len(mo), "number of observations")
                continue
            for k, (a, b) in enumerate(zip(mach.outs, mo)):
                if not ctx.compare_exact("prog", {"prog": mach.prog[:k + 1], "k": k}, a, b, key=("prog", p, k)):
                    good = False
                    break
            if good:
                ctx.compare_exact("prog", {"prog": mach.prog, "k": "env"}, mach.env(), mres["ok"]["env"], key=("prog", p, "env"))
            if p >= len(fixed) and len(ctx.samples) < 4 and mach.prog and mach.prog[0].get("u") and len(mach.regs) and len(mach.regs[0].u):
                ctx.sample({"program": [{kk: vv for kk, vv in i.items() if kk != "py"} for i in mach.prog][:4],
                            "last_observation": mach.outs[-1] if mach.outs else None})
        # ---- self-test (thorough): a flipped number in a request must be seen as a disagreement ---------
        if not selftest_done:
            selftest_done = True
            _selftest(ctx, machs)
        pid += len(machs)
    ctx.notes.append(f"programs={todo} instructions={total_instr}")


def _selftest(ctx, machs):
    """flip one number of one request sent to the model; the comparison must notice (not counted as a disagreement)"""
    for mach in machs:
        for k, ins in enumerate(mach.prog):
            if ins["op"] != "new" or not ins["u"] or mach.created[k] is None:
                continue
            D = mach.regs[mach.created[k]]
            if not len(D.u) or ins["u"][0]["s"] != [len(D.u[0])]:
                continue
            # the first vector is stored as given: changing one of its entries must change the dump
            bad = json.loads(json.dumps(mach.prog))
            e = bad[k]["u"][0]["d"][0]
            e[0] = e[0] + 7 if isinstance(e[0], int) else 7
            mres = ctx.model([{"m": "c15.prog", "prog": bad}], shards=1)[0]
            seen = ("ok" not in mres) or any(_canon(a) != _canon(b) for a, b in zip(mach.outs, mres["ok"]["outs"])) \
                or _canon(mach.env()) != _canon(mres["ok"]["env"])
            if seen:
                ctx.branch("selftest.flipped_request_detected")
            else:
                ctx.disagree("selftest", {"prog": bad}, "unchanged", "unchanged", "a flipped request number was not detected")
            return
    ctx.notes.append("selftest: no suitable program found")


# ----------------------------------------------------------------------------------------------
# search / replay
# ----------------------------------------------------------------------------------------------
def search(ctx, disagreements):
    found = []
    seen = set()
    for d in disagreements:
        c = d.get("case") or {}
        prog = c.get("prog") if isinstance(c, dict) else None
        if not prog:
            continue
        key = json.dumps(prog, sort_keys=True)
        if key in seen:
            continue
        seen.add(key)
        fails, _ = oracle_program(prog)
        fresh = [f for f in fails if f[2] is None]
        if fresh:
            what, kf, _ = fresh[0]
            small = shrink(prog[:kf + 1], _fails_like(what, None))
            f2, _ = oracle_program(small)
            w2 = _first_like(f2, what, None)
            found.append({"what": w2 or what, "witness": {"prog": small if w2 else prog}})
        elif fails:     # only witnesses of the open known finding
            what, kf, fkey = fails[0]
            found.append({"what": what, "witness": {"prog": prog[:kf + 1]}, "finding_key": fkey})
        if len(found) >= 3:
            break
    found.sort(key=lambda w: len(json.dumps(w["witness"])))
    return found


def replay(ctx, data):
    w = data.get("witness", {})
    if isinstance(w, dict) and "witness" in w:
        w = w["witness"]
    if isinstance(w, dict) and w.get("script"):
        import subprocess
        import sys
        import os
        from ..common import VERIF
        p = subprocess.run([sys.executable, os.path.join(VERIF, w["script"])], capture_output=True, text=True)
        return {"still_failing": p.returncode != 0, "what": (p.stdout + p.stderr)[-400:]}
    prog = w.get("prog") if isinstance(w, dict) else None
    if not prog:
        return {"still_failing": False, "note": "replay file names no failing input (see no_longer_checks)"}
    fails, _ = oracle_program(prog)
    fresh = [f for f in fails if f[2] is None]
    pick = fresh[0] if fresh else (fails[0] if fails else None)
    return {"still_failing": bool(fails), "what": pick[0] if pick else None,
            "finding_key": (pick[2] if pick else None)}


# ----------------------------------------------------------------------------------------------
# open known findings: probes replayed on the real code by harness/main.py
# ----------------------------------------------------------------------------------------------
def probe_dtype_lost(ctx):
    """the logic of corpus/defects/open_c15_dtype_lost_on_copy.py and open_c15_dtype_lost_no_dyads.py on the real code:
    returns a short description while the complex type is still lost somewhere, else None"""
    DC = _pm().DyadCarrier
    bad = []

    def chk(name, got_complex, want_complex):
        if bool(got_complex) != bool(want_complex):
            bad.append(name)

    # (1) complex dtype, no stored complex vector: Z = A*0
    A = DC([np.array([1j, 0, 0])], [np.array([0., 2.])])
    Z = A * 0
    Zd = Z.todense()
    R = DC([np.array([1., 2, 3])], [np.array([1., -1])])
    W = R.copy()
    W += Z
    for name, got, want in (("Z.copy()", Z.copy(), Zd.copy()), ("-Z", -Z, -Zd), ("Z.T", Z.T, Zd.T), ("2*Z", 2 * Z, 2 * Zd),
                            ("Z[0:2,:]", Z[0:2, :], Zd[0:2, :]), ("Z.conj()", Z.conj(), Zd.conj()),
                            ("Z+R", Z + R, Zd + R.todense()), ("R+Z", R + Z, R.todense() + Zd), ("R+=Z", W, R.todense() + Zd)):
        chk(name, got.iscomplex() and np.iscomplexobj(got.todense()), np.iscomplexobj(want))
    # (2) the type of a complex operand is lost when no dyad is stored; D + 0j
    E = DC(shape=(2, 2))
    M = np.array([[1j, 0], [0, 1]])
    C = DC([np.array([1j, 1])], [np.array([1., 1.])])
    D = DC([np.array([1., 2.])], [np.array([1., 1.])])
    Ed = E.todense()
    for name, got, want in (("E*1j", E * 1j, Ed * 1j), ("1j*E", 1j * E, 1j * Ed), ("E@M", E @ M, Ed @ M), ("M@E", M @ E, M @ Ed),
                            ("E@C", E @ C, Ed @ C.todense()), ("D+0j", D + 0j, D.todense() + 0j)):
        chk(name, got.iscomplex(), np.iscomplexobj(want))
    if not bad:
        return None
    return "complex type still lost in: " + ", ".join(bad)


FINDING_PROBES = {FINDING_KEY: probe_dtype_lost}
