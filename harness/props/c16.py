"""C16 — aggregations bound the true extreme; active sets select the requested band
(pymoto/modules/aggregation.py: AggActiveSet, AggScaling, Aggregation, PNorm, SoftMinMax, KSFunction)

correspondence
  actset   : real AggActiveSet.__call__ vs the Lean model at Rat (mask compared exactly; fractions and
             data are sent as the exact rationals of the floats actually used; cases whose float
             evaluation sits next to a branch threshold are skipped and counted as boundary)
  scaling  : histories of 2..10 AggScaling calls vs the Lean model at Rat (exact for dyadic data,
             tolerance otherwise)
  response : histories of response()/sensitivity() calls of PNorm / SoftMinMax / KSFunction modules
             (optional active set, optional scaling with damping) vs the SAME Lean definitions run at Float
             (mask exact, values with tolerance)
  malformed: constructor assertions, which='foo', p = 0, rho = 0, empty input, empty selection
oracle (on the real code, independent of the model)
  mask characterisation per value group, zero count removes nothing, approximation bounds on the active
  entries, undamped scaling gives the true extreme, damping recurrence
"""
import itertools
import math
import struct
import warnings
from fractions import Fraction

import numpy as np

from ..common import q, qlist, fr, frlist, call_impl

RULE = ("actset: all vectors over {0,1,2} (and shifted/scaled variants) of length 1..N (N=5 quick / 7 thorough), random "
        "small-integer vectors with ties of every length up to 12, random longer float vectors; fraction grid "
        "(k+1/2)/n, dyadic fractions and random ones so that rounded counts hit 0, 1, n-1; scaling: histories of 2-10 calls; "
        "response: 3 aggregations x both parameter signs x optional active set x optional scaling (damping 0, dyadic, random, 1) "
        "x histories of 1-10 calls on positive data of length 1..12 and longer; extreme: the same modules with |param|*(max-min) "
        "stratified log-uniformly over [1e-3, 5e3] (SoftMinMax; KS/PNorm as far as the as-coded formulas stay finite) on data in "
        "[2,900], [1,2], [1e-3,1], [0.9,1.1], both signs, with/without active set and scaling. distinct = distinct case keys whose "
        "mask is not Ellipsis / whose history is non-empty")
ASSUMPTIONS = [
    "np.argsort contract: returns a permutation that sorts ascending (checked at run time on every case; the tie order "
    "actually produced by numpy is passed to the model)",
    "bounds and the response / extreme streams use positive data (the property's hypothesis)",
    "extreme stream: SoftMinMax is exercised without restriction (|alpha|*(max-min) log-uniform in [1e-3, 5e3], both signs); "
    "KSFunction and PNorm are exercised only where the AS-CODED formulas stay finite and normal in float64, because "
    "np.exp(rho*x) and x**p overflow/underflow in the real code beyond that: KS requires for every call "
    "rho*max(x) + ln(n) <= 700 if rho > 0, and |rho|*min(x) <= 700 (no active set) or |rho|*max(x) <= 700 (with active set) "
    "if rho < 0; PNorm requires with L = max|ln x_i|: ln(n) + |p|*L <= 600, ln(n)/|p| + L <= 600 and "
    "(ln(n) + |p|*L)*(1 + 1/|p|) <= 700. Candidates outside are rejected and counted in the branch histogram "
    "(extreme.skipped_as_coded_nonfinite.<kind>) and in the evidence notes",
    "python warnings (PNorm on negative data, log(0)) are not observables",
]

BND = Fraction(1, 10 ** 9)   # distance to a branch threshold below which an inexact float case is skipped


def _pm():
    import pymoto
    return pymoto


def bits2f(b):
    return struct.unpack("<d", struct.pack("<Q", int(b)))[0]


def dec(v):
    """decode the driver's exact float encoding"""
    if isinstance(v, list):
        return [dec(w) for w in v]
    if isinstance(v, int):
        return bits2f(v)
    return v


# ------------------------------------------------------------------------------------------------
# active set
# ------------------------------------------------------------------------------------------------
def impl_actset(cfg, x):
    pm = _pm()
    a = pm.AggActiveSet(*cfg)
    sel = a(x)
    if sel is Ellipsis:
        return "ellipsis"
    return [bool(b) for b in np.asarray(sel).tolist()]


def exact_counts(cfg, n):
    """(nl, nu, boundary?) : counts in exact arithmetic on the floats actually used, and whether the float
    evaluation of int(n*frac) could differ from it"""
    lr, ur, la, ua = cfg
    boundary = False
    nl = nu = 0
    if la > 0:
        r = n * Fraction(la)
        f = n * la
        if Fraction(f) != r and abs(r - round(r)) < BND * max(1, n):
            boundary = True
        nl = math.floor(r)
    if ua < 1:
        one_m = 1 - ua
        r = n * (1 - Fraction(ua))
        f = n * one_m
        if not (Fraction(one_m) == 1 - Fraction(ua) and Fraction(f) == r) and abs(r - round(r)) < BND * max(1, n):
            boundary = True
        nu = math.floor(r) if r >= 0 else -math.floor(-r)
    return nl, nu, boundary


def band_exact(cfg, x):
    """exact band membership per entry (None if all equal) and whether a float comparison is on a threshold"""
    lr, ur, la, ua = cfg
    xs = [Fraction(v) for v in x.tolist()]
    xmin, xmax = min(xs), max(xs)
    if xmax == xmin:
        return None, False
    xf = np.asarray(x)
    fmin, fmax = xf.min(), xf.max()
    with np.errstate(all="ignore"):
        frel = ((xf - fmin) / (fmax - fmin)).tolist()
    band, boundary = [], False
    for v, fv in zip(xs, frel):
        rel = (v - xmin) / (xmax - xmin)
        inexact = Fraction(fv) != rel
        ok = True
        if lr > 0:
            ok = ok and rel >= Fraction(lr)
            if inexact and abs(rel - Fraction(lr)) < BND:
                boundary = True
        if ur < 1:
            ok = ok and rel <= Fraction(ur)
            if inexact and abs(rel - Fraction(ur)) < BND:
                boundary = True
        band.append(ok)
    return band, boundary


def oracle_actset(cfg, x, mask):
    """the property's mask characterisation evaluated directly (tie order free): per group of equal values the number of
    kept entries is determined"""
    n = len(x)
    band, _ = band_exact(cfg, x)
    if band is None:
        return None if mask == "ellipsis" else "all values equal but a mask was returned"
    if mask == "ellipsis":
        return "Ellipsis returned although the values differ"
    nl, nu, _ = exact_counts(cfg, n)
    nl, nu = max(0, min(nl, n)), max(0, min(nu, n))
    xs = [Fraction(v) for v in x.tolist()]
    if nl == 0 and nu == 0 and mask != band:
        return f"rounded counts are zero but mask {mask} != value band {band}"
    for v in sorted(set(xs)):
        grp = [i for i in range(n) if xs[i] == v]
        g = len(grp)
        below = sum(1 for w in xs if w < v)
        above = sum(1 for w in xs if w > v)
        cl = max(0, min(nl - below, g))
        cu = max(0, min(nu - above, g))
        want = max(0, g - cl - cu) if band[grp[0]] else 0
        got = sum(1 for i in grp if mask[i])
        if got != want:
            return (f"value {float(v)}: {got} entries kept, expected {want} (group size {g}, in band {band[grp[0]]}, "
                    f"floor counts lower={nl} upper={nu})")
    return None


def check_argsort(x):
    isort = np.argsort(x)
    n = len(x)
    l = [int(v) for v in isort.tolist()]
    if sorted(l) != list(range(n)):
        return l, "np.argsort did not return a permutation", False
    xs = np.asarray(x)[isort]
    if n > 1 and not bool(np.all(xs[:-1] <= xs[1:])):
        return l, "np.argsort result is not ascending", False
    stable = all(not (xs[k] == xs[k + 1] and l[k] > l[k + 1]) for k in range(n - 1))
    return l, None, stable


def frac_grid(ctx, n):
    """fractions making the rounded counts hit 0, 1, n-1 and everything between (robustly: (k+1/2)/n), plus dyadic and
    exactly-representable products"""
    g = [0.0, 1.0]
    for k in range(0, n):
        g.append((k + 0.5) / n)
    g += [0.25, 0.5, 0.75, 0.125, 0.05, 0.95, 0.15, 0.9, 0.1]
    return g


def actset_configs(ctx, n, count):
    g = frac_grid(ctx, n)
    rels = [0.0, 1.0, 0.25, 0.5, 0.75, 0.1, 0.9, 0.3, 0.6]
    out = []
    tries = 0
    while len(out) < count and tries < 50 * count:
        tries += 1
        t = ctx.rng.random()
        if t < 0.25:      # only amounts
            lr, ur = 0.0, 1.0
            la, ua = ctx.rng.choice(g), ctx.rng.choice(g)
        elif t < 0.4:     # only values
            lr, ur = ctx.rng.choice(rels), ctx.rng.choice(rels)
            la, ua = 0.0, 1.0
        elif t < 0.85:
            lr, ur = ctx.rng.choice(rels), ctx.rng.choice(rels)
            la, ua = ctx.rng.choice(g), ctx.rng.choice(g)
        else:
            lr, ur = sorted([round(ctx.rng.uniform(-0.2, 1.2), 3), round(ctx.rng.uniform(-0.2, 1.2), 3)])
            la, ua = sorted([ctx.rng.uniform(-0.1, 1.1), ctx.rng.uniform(-0.1, 1.1)])
        if lr > ur:
            lr, ur = ur, lr
        if la > ua:
            la, ua = ua, la
        if not (ur > lr and ua > la):
            continue
        out.append((lr, ur, la, ua))
    return out


def actset_vectors(ctx):
    """(array, tag)"""
    N = 5 if ctx.quick else 7
    for n in range(1, N + 1):
        for pat in itertools.product((0, 1, 2), repeat=n):
            kind = (sum(pat) + n) % 3
            if kind == 0:
                yield np.array(pat, dtype=float), "exh"
            elif kind == 1:
                yield np.array(pat, dtype=np.int64) * 2 - 1, "exh.int"       # integer dtype, negative values
            else:
                yield np.array(pat, dtype=float) * 0.3 + 0.1, "exh.inexact"  # xrel not exactly representable
    per = 12 if ctx.quick else 120
    for n in range(1, 13):
        for _ in range(per):
            hi = ctx.rng.choice([1, 2, 4, 8])
            v = np.array([ctx.rng.randint(0, hi) for _ in range(n)], dtype=float)
            # magnitude and spread of the data must not matter: only "all values equal" (exactly) switches the band off
            tr = ctx.rng.choice(["id", "id", "tiny", "tiny10", "close", "close7", "offset"])
            if tr == "tiny":
                v = v * 2.0 ** -40          # exact scaling: same ratios
            elif tr == "tiny10":
                v = (v + 1.0) * 1e-10
            elif tr == "close":
                v = 1.0 + v * 2.0 ** -24    # relative spread ~1e-7, every value exactly representable
            elif tr == "close7":
                v = 1.0 + v * 1e-7
            elif tr == "offset":
                v = 2.0 ** 30 + v
            yield v, "ties" if tr == "id" else "ties." + tr
    nlong = 25 if ctx.quick else 400
    for t in range(nlong):
        n = ctx.rng.randint(13, 60 if ctx.quick else 250)
        if t % 3 == 0:
            yield np.array([ctx.rng.randint(0, 16) for _ in range(n)], dtype=float), "long.ties"
        elif t % 3 == 1:
            yield np.array([ctx.rng.uniform(0.01, 10.0) for _ in range(n)]), "long.float"
        else:
            yield np.arange(n, dtype=float)[ctx.nprng.permutation(n)], "long.perm"


def fixed_actset_cases():
    """regression witness of the repaired zero-count defect and the configurations of the repo's own tests"""
    yield np.array([3., 1., 2., 5., 4.]), (0.0, 1.0, 0.0, 0.95)
    yield np.array([3., 1., 2., 5., 4.]), (0.0, 1.0, 0.05, 1.0)
    yield np.array([3., 1., 2., 5., 4.]), (0.0, 1.0, 0.05, 0.95)
    x = np.arange(101)
    for cfg in ((0.0, 1.0, 0.0, 1.0), (0.1, 1.0, 0.0, 1.0), (0.0, 0.9, 0.0, 1.0), (0.1, 0.9, 0.0, 1.0),
                (0.0, 1.0, 0.15, 1.0), (0.0, 1.0, 0.0, 0.95), (0.0, 1.0, 0.15, 0.95), (0.1, 0.9, 0.15, 0.95)):
        yield x, cfg
    yield np.ones(5), (0.1, 0.9, 0.1, 0.9)


def stream_actset(ctx):
    reqs, meta = [], []

    def all_cases():
        for x, cfg in fixed_actset_cases():
            yield x, "fixed", [cfg]
        for x, tag in actset_vectors(ctx):
            yield x, tag, actset_configs(ctx, len(x), 2 if tag.startswith("exh") else 3)

    for x, tag, cfgs in all_cases():
        n = len(x)
        for cfg in cfgs:
            isort, why, stable = check_argsort(x)
            if why:
                ctx.oracle_fail(why, {"op": "argsort", "x": x.tolist()})
                continue
            r = call_impl(impl_actset, cfg, x)
            if r[0] == "err":
                ctx.disagree("actset", {"cfg": cfg, "x": x.tolist()}, r[1], "ok", r[2])
                continue
            mask = r[1]
            _, b1 = band_exact(cfg, x)
            _, _, b2 = exact_counts(cfg, n)
            if b1 or b2:
                ctx.skipped_boundary += 1
                ctx.branch("actset.boundary_skip")
                continue
            why = oracle_actset(cfg, x, mask)
            if why:
                ctx.oracle_fail(why, {"op": "actset", "cfg": list(cfg), "x": x.tolist(), "mask": mask})
            reqs.append({"m": "c16.actset", "lr": q(cfg[0]), "ur": q(cfg[1]), "la": q(cfg[2]), "ua": q(cfg[3]),
                         "x": qlist(x), "isort": isort})
            meta.append((cfg, x, mask, tag, stable))
    res = ctx.model(reqs)
    for rq, (cfg, x, mask, tag, stable), m in zip(reqs, meta, res):
        case = {"cfg": list(cfg), "x": x.tolist()}
        if "ok" not in m:
            ctx.disagree("actset", case, mask, m, "driver error")
            continue
        mo = m["ok"]
        if "raises" in mo:
            ctx.disagree("actset", case, mask, mo, "model raises")
            continue
        n = len(x)
        ok = ctx.compare_exact("actset", case, mask, mo["mask"], key=("actset", str(cfg), x.tobytes().hex()),
                               nontrivial=mask != "ellipsis")
        ctx.branch("actset." + tag)
        if mask == "ellipsis":
            ctx.branch("actset.ellipsis")
        else:
            nl, nu = mo["nlower"], mo["nupper"]
            if cfg[2] > 0:
                ctx.branch("actset.nlower=" + ("0" if nl == 0 else "1" if nl == 1 else "n-1" if nl == n - 1 else "mid" if nl < n else ">=n"))
            if cfg[3] < 1:
                ctx.branch("actset.nupper=" + ("0" if nu == 0 else "1" if nu == 1 else "n-1" if nu == n - 1 else "mid" if nu < n else ">=n"))
            if cfg[0] > 0 or cfg[1] < 1:
                ctx.branch("actset.band")
            if not any(mask):
                ctx.branch("actset.empty_selection")
            if not stable:
                ctx.branch("actset.argsort_unstable")
        if ok and mask != "ellipsis":
            ctx.sample({"stream": "actset", "cfg": list(cfg), "x": x.tolist(), "mask": mask}, limit=2)


# ------------------------------------------------------------------------------------------------
# scaling
# ------------------------------------------------------------------------------------------------
def impl_scaling(which, damping, calls):
    pm = _pm()
    s = pm.AggScaling(which, damping=damping)
    out = []
    for x, a in calls:
        out.append(float(s(np.asarray(x), a)))
    return out


def oracle_scaling(which, damping, calls, sfs):
    f = max if which.lower() == "max" else min
    prev = None
    for k, ((x, a), s) in enumerate(zip(calls, sfs)):
        true = f(x)
        if damping == 0 or k == 0:
            if abs(s * a - true) > 4e-16 * abs(true):
                return f"call {k}: undamped scale factor {s} times approx {a} = {s * a} is not the true extreme {true}"
        if k > 0:
            want = Fraction(damping) * Fraction(prev) + (1 - Fraction(damping)) * Fraction(true) / Fraction(a)
            mag = abs(Fraction(damping) * Fraction(prev)) + abs((1 - Fraction(damping)) * Fraction(true) / Fraction(a))
            if abs(Fraction(s) - want) > Fraction(1, 10 ** 14) * mag:
                return f"call {k}: sf={s} but d*sf_prev + (1-d)*true/approx = {float(want)}"
        prev = s
    return None


def stream_scaling(ctx):
    nseq = 40 if ctx.quick else 600
    reqs, meta = [], []
    for t in range(nseq):
        which = ctx.rng.choice(["min", "max", "MAX", "Min"])
        exact = t % 2 == 0
        ncalls = ctx.rng.randint(2, 10)
        if exact:
            damping = ctx.rng.choice([0.0, 0.5, 0.25, 0.75, 1.0, 0.125])
        else:
            damping = ctx.rng.choice([0.0, ctx.rng.uniform(0.0, 1.0), ctx.rng.uniform(0.0, 1.0), 1.0, 0.3])
        calls = []
        for _ in range(ncalls):
            n = ctx.rng.randint(1, 12)
            if exact:
                x = [float(ctx.rng.randint(1, 16)) / 4 for _ in range(n)]
                a = 2.0 ** ctx.rng.randint(-2, 2)
            else:
                x = [ctx.rng.uniform(0.01, 10.0) for _ in range(n)]
                a = ctx.rng.uniform(0.1, 12.0)
            calls.append((x, a))
        r = call_impl(impl_scaling, which, damping, calls)
        case = {"which": which, "damping": damping, "calls": calls}
        if r[0] == "err":
            ctx.disagree("scaling", case, r[1], "ok", r[2])
            continue
        why = oracle_scaling(which, damping, calls, r[1])
        if why:
            ctx.oracle_fail(why, {"op": "scaling", **case})
        reqs.append({"m": "c16.scaling", "which": which, "damping": q(damping),
                     "calls": [{"x": qlist(x), "approx": q(a)} for x, a in calls]})
        meta.append((case, r[1], exact))
    res = ctx.model(reqs)
    for (case, sfs, exact), m in zip(meta, res):
        if "ok" not in m or not isinstance(m["ok"], list) or any(isinstance(v, dict) for v in m["ok"]):
            ctx.disagree("scaling", case, sfs, m, "model error")
            continue
        ms = frlist(m["ok"])
        key = ("scaling", str(case))
        if exact:
            ctx.compare_exact("scaling", case, [Fraction(v) for v in sfs], ms, key=key)
        else:
            ctx.compare_close("scaling", case, sfs, ms, rtol=1e-12, atol=1e-14, key=key)
        d = case["damping"]
        ctx.branch("scaling.d=" + ("0" if d == 0 else "1" if d == 1 else "mid") + ("." + case["which"].lower()))
    if meta:
        ctx.sample({"stream": "scaling", "case": meta[0][0], "sf": meta[0][1]}, limit=3)


# ------------------------------------------------------------------------------------------------
# response / sensitivity of the modules
# ------------------------------------------------------------------------------------------------
KINDS = {"pnorm": ("PNorm", "p"), "softminmax": ("SoftMinMax", "alpha"), "ks": ("KSFunction", "rho")}


def build_module(kind, param, actset, scaling, x0):
    pm = _pm()
    cls, pname = KINDS[kind]
    kw = {pname: param}
    if actset is not None:
        kw["active_set"] = pm.AggActiveSet(*actset)
    if scaling is not None:
        kw["scaling"] = pm.AggScaling(scaling[0], damping=scaling[1])
    s = pm.Signal("x", np.array(x0, dtype=float))
    return s, getattr(pm, cls)(s, **kw)


def impl_response(kind, param, actset, scaling, calls):
    """returns (ctor_error | None, list of per-call dicts); a call that raises ends the history"""
    with warnings.catch_warnings(), np.errstate(all="ignore"):
        warnings.simplefilter("ignore")
        r = call_impl(build_module, kind, param, actset, scaling, calls[0][0])
        if r[0] == "err":
            return r[1], []
        s, m = r[1]
        outs = []
        x00 = np.asarray(calls[0][0], dtype=float).ravel() if len(calls) else np.zeros(0)
        if scaling is None and x00.size > 0 and np.all(np.isfinite(x00)) and np.all(x00 > 0) \
                and (x00.size + int(abs(x00[0]) * 100)) % 2 == 0:
            # the SAME instance has been evaluated before on single-precision data of the same shape (no scaling state involved):
            # work arrays kept between calls must follow the dtype of the current data
            s.state = np.array(calls[0][0], dtype=np.float32)[::-1].copy()
            call_impl(m.response)
            m.reset()
        for x, dfdy in calls:
            xa = np.array(x, dtype=float)
            if actset is None and xa.ndim == 1 and xa.size in (4, 6, 8, 9, 10, 12) and int(abs(xa[0]) * 1000) % 2 == 0:
                # the same data as a 2-D array (a field on a grid): the aggregation runs over ALL entries
                a_ = 3 if xa.size == 9 else 2
                xa = xa.reshape(a_, xa.size // a_)
            s.state = xa
            m.reset()
            rr = call_impl(m.response)
            if rr[0] == "err":
                outs.append({"raises": rr[1]})
                break
            sel = m.select
            o = {"y": float(m.sig_out[0].state), "sf": float(m.sf),
                 "mask": "ellipsis" if sel is Ellipsis else [bool(b) for b in np.asarray(sel).tolist()]}
            if dfdy is not None:
                m.sig_out[0].sensitivity = dfdy
                rr = call_impl(m.sensitivity)
                if rr[0] == "err":
                    o["dx"] = {"raises": rr[1]}
                else:
                    o["dx"] = np.asarray(s.sensitivity, dtype=float).flatten().tolist()
                    if np.shape(s.sensitivity) != np.shape(s.state):
                        o["dx"] = {"raises": f"sensitivity shape {np.shape(s.sensitivity)} != state shape {np.shape(s.state)}"}
            outs.append(o)
        return None, outs


def plain_value(kind, param, xa):
    """the un-scaled aggregation on the given (already selected) entries, from a fresh module"""
    with warnings.catch_warnings(), np.errstate(all="ignore"):
        warnings.simplefilter("ignore")
        s, m = build_module(kind, param, None, None, xa)
        m.response()
        return float(m.sig_out[0].state)


def bounds_violation(kind, param, xa, v):
    """the property's bounds on positive active entries xa for the un-scaled value v"""
    n = len(xa)
    mx, mn = max(xa), min(xa)
    e = 1e-12
    tol = lambda a: e * max(1.0, abs(a))  # noqa
    if kind == "pnorm":
        if param > 0:
            lo, hi = mx, n ** (1 / param) * mx
        else:
            lo, hi = n ** (1 / param) * mn, mn
    elif kind == "ks":
        if param > 0:
            lo, hi = mx, mx + math.log(n) / param
        else:
            lo, hi = mn + math.log(n) / param, mn
    else:
        if param > 0:
            lo, hi = max(mn, mx - math.log(n) / param), mx
        elif param < 0:
            lo, hi = mn, min(mx, mn - math.log(n) / param)
        else:
            lo, hi = mn, mx
    # conditioning of the AS-CODED float formulas (not of the property): log(sum)/rho carries an absolute error of about
    # eps*(1+|log sum|)/|rho|, (sum)**(1/p) a relative error of about eps*(n + |ln sum|)/|p|
    extra = 0.0
    if kind == "ks":
        extra = 1e-14 * (1.0 + math.log(n) + abs(param) * mx) / abs(param)
    elif kind == "pnorm":
        L = max(abs(math.log(w)) for w in xa)
        extra = (2e-15 * n / min(1.0, abs(param)) + 1e-15 * (math.log(n) / abs(param) + L)) * max(abs(lo), abs(hi))
    if not (lo - tol(lo) - extra <= v <= hi + tol(hi) + extra):
        return f"{kind}({param}) = {v!r} outside [{lo!r}, {hi!r}] for active entries {xa}"
    return None


def oracle_response(kind, param, actset, scaling, calls, outs):
    prev_sf = None
    for k, ((x, dfdy), o) in enumerate(zip(calls, outs)):
        if "raises" in o:
            return None
        mask = o["mask"]
        xa = list(x) if mask == "ellipsis" else [v for v, b in zip(x, mask) if b]
        if actset is not None:
            why = oracle_actset(actset, np.array(x, dtype=float), mask) if not _near_boundary(actset, x) else None
            if why:
                return f"call {k}: active set of the module: {why}"
        elif mask != "ellipsis":
            return f"call {k}: a mask was used without an active set"
        if not xa or min(xa) <= 0:
            return None
        approx = plain_value(kind, param, xa)
        why = bounds_violation(kind, param, xa, approx)
        if why:
            return f"call {k}: {why}"
        if scaling is None:
            if abs(o["y"] - approx) > 1e-12 * max(1.0, abs(approx)) or o["sf"] != 1.0:
                return f"call {k}: output {o['y']} differs from the aggregation of the active entries {approx}"
        else:
            true = max(xa) if scaling[0].lower() == "max" else min(xa)
            d = scaling[1]
            if d == 0 or k == 0:
                if abs(o["y"] - true) > 1e-13 * abs(true):
                    return f"call {k}: undamped scaled output {o['y']!r} is not the true extreme {true!r}"
            if k > 0:
                want = d * prev_sf + (1 - d) * true / approx
                if abs(o["sf"] - want) > 1e-11 * (abs(d * prev_sf) + abs((1 - d) * true / approx)):
                    return f"call {k}: sf {o['sf']!r} != d*sf_prev + (1-d)*true/approx = {want!r}"
            if abs(o["y"] - o["sf"] * approx) > 1e-11 * abs(o["sf"] * approx):
                return f"call {k}: output {o['y']!r} != sf*approx = {o['sf'] * approx!r}"
        prev_sf = o["sf"]
    return None


def _near_boundary(actset, x):
    xa = np.array(x, dtype=float)
    _, b1 = band_exact(actset, xa)
    _, _, b2 = exact_counts(actset, len(x))
    return b1 or b2


def rand_positive(ctx, n, spread):
    t = ctx.rng.random()
    if t < 0.25:
        return [float(ctx.rng.randint(1, 4)) for _ in range(n)]                 # ties
    if t < 0.35:
        v = ctx.rng.uniform(0.5, 3.0)
        return [v] * n                                                          # all equal
    return [ctx.rng.uniform(0.2, spread) for _ in range(n)]


def response_cases(ctx):
    nseq = 60 if ctx.quick else 1200
    for t in range(nseq):
        kind = ["pnorm", "softminmax", "ks"][t % 3]
        sign = 1 if (t // 3) % 2 == 0 else -1
        if kind == "pnorm":
            param = sign * ctx.rng.choice([1, 2, 3, 4, 8, 20, 0.5, 2.5, ctx.rng.uniform(0.5, 12)])
            if ctx.rng.random() < 0.5:
                param = float(param)
        else:
            param = sign * ctx.rng.choice([1.0, 2.0, 0.5, 10.0, 20.0, ctx.rng.uniform(0.1, 25.0)])
        aset = None
        if ctx.rng.random() < 0.6:
            n_hint = ctx.rng.randint(1, 12)
            aset = actset_configs(ctx, n_hint, 1)[0]
        scal = None
        if ctx.rng.random() < 0.65:
            which = ("max" if sign > 0 else "min") if ctx.rng.random() < 0.85 else ("min" if sign > 0 else "max")
            scal = (which, ctx.rng.choice([0.0, 0.0, 0.5, 0.25, 1.0, ctx.rng.uniform(0, 1)]))
        ncalls = ctx.rng.randint(1, 10)
        calls = []
        for c in range(ncalls):
            n = ctx.rng.randint(1, 12) if ctx.rng.random() < 0.8 else ctx.rng.randint(13, 80)
            x = rand_positive(ctx, n, 10.0)
            dfdy = ctx.rng.choice([1.0, -2.0, 0.5, ctx.rng.uniform(-3, 3)]) if ctx.rng.random() < 0.8 else None
            calls.append((x, dfdy))
        yield kind, param, aset, scal, calls


# ------------------------------------------------------------------------------------------------
# extreme scales: |param| * (max - min) from 1e-3 up to 5e3
# ------------------------------------------------------------------------------------------------
EXTREME_FAMILIES = {"wide": (2.0, 900.0), "unit": (1.0, 2.0), "nearzero": (1e-3, 1.0), "narrow": (0.9, 1.1)}


def as_coded_finite(kind, param, aset, x):
    """the exact bound (see ASSUMPTIONS) inside which np.exp(rho*x) / x**p of the REAL code stay finite and normal"""
    n = len(x)
    if n == 0 or min(x) <= 0:
        return False
    if kind == "softminmax":
        return True
    if kind == "ks":
        if param > 0:
            return param * max(x) + math.log(n) <= 700
        ref = max(x) if aset is not None else min(x)
        return abs(param) * ref <= 700
    L = max(abs(math.log(v)) for v in x)
    ap = abs(param)
    ln = math.log(n)
    return ln + ap * L <= 600 and ln / ap + L <= 600 and (ln + ap * L) * (1 + 1 / ap) <= 700


def extreme_data(ctx, fam, n):
    lo, hi = EXTREME_FAMILIES[fam]
    t = ctx.rng.random()
    if t < 0.2 and fam != "nearzero":
        x = [float(ctx.rng.choice([lo, hi, (lo + hi) / 2])) for _ in range(n)]       # ties at the ends
    elif t < 0.5:
        x = [math.exp(ctx.rng.uniform(math.log(lo), math.log(hi))) for _ in range(n)]
    else:
        x = [ctx.rng.uniform(lo, hi) for _ in range(n)]
    if n >= 2 and ctx.rng.random() < 0.6:     # make sure the whole range is present
        i, j = ctx.rng.sample(range(n), 2)
        x[i], x[j] = lo, hi
    return x


def extreme_fixed_cases():
    wide = [2.0, 900.0, 450.0, 17.5, 899.0, 3.0]
    unit = [1.0, 2.0, 1.5, 1.25, 1.999, 1.001, 2.0]
    for alpha in (-1.0, 1.0, -5.0, 5.0):
        yield "softminmax", alpha, None, None, [(wide, 1.0), (wide[::-1], -2.0)]
        yield "softminmax", alpha, None, ("min" if alpha < 0 else "max", 0.0), [(wide, 1.0), (wide[:3], 0.5)]
        yield "softminmax", alpha, (0.0, 1.0, 0.0, 0.7) if alpha > 0 else (0.0, 1.0, 0.3, 1.0), \
            ("min" if alpha < 0 else "max", 0.5), [(wide, 1.0), (wide[::-1], 1.0), (wide, None)]
    for alpha in (-1000.0, 1000.0, -5000.0, 5000.0, -750.0, 750.0):
        yield "softminmax", alpha, None, None, [(unit, 1.0)]
        yield "softminmax", alpha, (0.0, 0.9, 0.2, 1.0), ("min" if alpha < 0 else "max", 0.0), [(unit, 2.0), (unit[::-1], 1.0)]
    for rho in (-300.0, -5.0, 0.75, -0.75):
        yield "ks", rho, None, None, [(wide, 1.0)]
        yield "ks", rho, None, ("min" if rho < 0 else "max", 0.0), [(wide, 1.0), (wide[:4], -1.0)]
    for p in (-90.0, 90.0, 0.01, -0.01):
        yield "pnorm", p, None, None, [(wide, 1.0)]
        yield "pnorm", p, (0.0, 1.0, 0.2, 0.8), ("min" if p < 0 else "max", 0.25), [(wide, 1.0), (wide[::-1], 1.0)]


def extreme_cases(ctx):
    for c in extreme_fixed_cases():
        yield c
    reps = 2 if ctx.quick else 30
    nbins = 9
    edges = [-3.0 + (math.log10(5e3) + 3.0) * b / nbins for b in range(nbins + 1)]
    t = 0
    for _ in range(reps):
        for kind in ("softminmax", "ks", "pnorm"):
            for sign in (1, -1):
                for b in range(nbins):
                    t += 1
                    made = False
                    for attempt in range(12):
                        target = 10.0 ** ctx.rng.uniform(edges[b], edges[b + 1])
                        if kind == "pnorm":
                            fam = ctx.rng.choice(["wide", "unit", "narrow", "nearzero"])
                        elif kind == "ks":
                            fam = ctx.rng.choice(["wide", "unit", "nearzero"])
                        else:
                            fam = ctx.rng.choice(["wide", "wide", "unit", "nearzero"])
                        aset = None
                        if ctx.rng.random() < 0.4:
                            aset = actset_configs(ctx, ctx.rng.randint(2, 12), 1)[0]
                        ncalls = ctx.rng.randint(1, 4)
                        calls = []
                        for _c in range(ncalls):
                            n = ctx.rng.randint(2, 12) if ctx.rng.random() < 0.85 else ctx.rng.randint(13, 40)
                            x = extreme_data(ctx, fam, n)
                            dfdy = ctx.rng.choice([1.0, -2.0, 0.5, ctx.rng.uniform(-3, 3)]) if ctx.rng.random() < 0.9 else None
                            calls.append((x, dfdy))
                        x0 = calls[0][0]
                        spread = max(x0) - min(x0)
                        if spread <= 0:
                            lo, hi = EXTREME_FAMILIES[fam]
                            spread = hi - lo
                        # PNorm: the parameter itself is spread over [1e-2, 5e3] (its natural scale is p*ln x)
                        mag = target / spread if kind != "pnorm" else max(1e-2, target)
                        param = sign * mag
                        if not all(as_coded_finite(kind, param, aset, x) for x, _d in calls):
                            ctx.branch(f"extreme.skipped_as_coded_nonfinite.{kind}")
                            EXTREME_SKIPS[kind] = EXTREME_SKIPS.get(kind, 0) + 1
                            continue
                        scal = None
                        if ctx.rng.random() < 0.6:
                            which = ("max" if sign > 0 else "min") if ctx.rng.random() < 0.9 else ("min" if sign > 0 else "max")
                            scal = (which, ctx.rng.choice([0.0, 0.0, 0.5, 0.25, 1.0, ctx.rng.uniform(0, 1)]))
                        prod = abs(param) * spread
                        ctx.branch(f"extreme.{kind}.{'pos' if sign > 0 else 'neg'}.prod~1e{int(math.floor(math.log10(prod)))}")
                        yield kind, param, aset, scal, calls
                        made = True
                        break
                    if not made:
                        ctx.branch(f"extreme.bin_infeasible.{kind}.{'pos' if sign > 0 else 'neg'}.bin{b}")


EXTREME_SKIPS = {}


def malformed_cases(ctx):
    x2 = [1.0, 2.0]
    yield "pnorm", 0, None, None, [(x2, 1.0)]
    yield "pnorm", 0.0, None, ("max", 0.0), [(x2, 1.0)]
    yield "ks", 0.0, None, None, [(x2, 1.0)]
    yield "ks", 0, (0.0, 1.0, 0.0, 0.5), None, [(x2, 1.0)]
    yield "softminmax", 0.0, None, None, [(x2, 1.0)]
    yield "ks", 1.0, None, ("foo", 0.0), [(x2, 1.0)]
    yield "pnorm", 2.0, (0.5, 0.5, 0.0, 1.0), None, [(x2, 1.0)]
    yield "pnorm", 2.0, (0.0, 1.0, 0.5, 0.25), None, [(x2, 1.0)]
    # empty selection: the value band [0.4, 0.6] contains no entry of [1, 2]
    for kind in ("pnorm", "softminmax", "ks"):
        yield kind, 2.0, (0.4, 0.6, 0.0, 1.0), None, [([1.0, 3.0, 3.0], 1.0), (x2, 1.0), (x2, 1.0)]
        yield kind, -2.0, (0.4, 0.6, 0.0, 1.0), ("min", 0.5), [([1.0, 2.0, 3.0], 1.0), (x2, 1.0)]
    # empty input
    yield "softminmax", 1.0, (0.0, 1.0, 0.0, 1.0), None, [([], None)]
    yield "pnorm", 2.0, None, None, [([], None)]
    yield "ks", 2.0, None, ("max", 0.0), [([], None)]
    # non-positive data (outside the bounds' hypothesis; model and code must still agree)
    yield "pnorm", 3.0, None, None, [([-1.0, 2.0, -3.0, 0.5], 1.0)]
    yield "softminmax", -1.5, (0.1, 1.0, 0.0, 0.9), ("min", 0.25), [([-1.0, 2.0, -3.0, 0.5], 1.0), ([0.0, -2.0, 5.0], -1.0)]
    yield "ks", 0.7, (0.0, 0.9, 0.2, 1.0), None, [([-1.0, 2.0, -3.0, 0.5], 2.0)]


def _same_special(a, b):
    if math.isnan(a) or math.isnan(b):
        return math.isnan(a) and math.isnan(b)
    return a == b


def compare_outs(ctx, stream, case, iouts, mouts, rtol, key, extra_atol=0.0):
    """True if all agree; registers exactly one agree/disagree"""
    if len(iouts) != len(mouts):
        ctx.disagree(stream, case, iouts, mouts, f"history length {len(iouts)} vs {len(mouts)}")
        return False
    vi, vm = [], []
    for k, (a, b) in enumerate(zip(iouts, mouts)):
        if ("raises" in a) != ("raises" in b) or ("raises" in a and a["raises"] != b["raises"]):
            ctx.disagree(stream, case, a, b, f"call {k}: error class")
            return False
        if "raises" in a:
            continue
        if a["mask"] != b["mask"]:
            ctx.disagree(stream, case, a["mask"], b["mask"], f"call {k}: mask")
            return False
        for fld in ("y", "sf"):
            vi.append(a[fld])
            vm.append(b[fld])
        if ("dx" in a) != ("dx" in b):
            ctx.disagree(stream, case, a, b, f"call {k}: sensitivity presence")
            return False
        if "dx" in a:
            if isinstance(a["dx"], dict) or isinstance(b["dx"], dict):
                if a["dx"] != b["dx"]:
                    ctx.disagree(stream, case, a["dx"], b["dx"], f"call {k}: sensitivity error class")
                    return False
            else:
                if len(a["dx"]) != len(b["dx"]):
                    ctx.disagree(stream, case, a["dx"], b["dx"], f"call {k}: sensitivity length")
                    return False
                vi += a["dx"]
                vm += b["dx"]
    fi, fm = [], []
    for a, b in zip(vi, vm):
        if not (math.isfinite(a) and math.isfinite(b)):
            if not _same_special(a, b):
                ctx.disagree(stream, case, a, b, "non-finite value mismatch")
                return False
        else:
            fi.append(a)
            fm.append(b)
    scale = max([1.0] + [abs(v) for v in fm])
    return ctx.compare_close(stream, case, fi, fm, rtol=rtol, atol=1e-13 + extra_atol / scale, scale=scale, key=key)


def run_response_stream(ctx, stream, gen, with_oracle):
    reqs, meta = [], []
    for kind, param, aset, scal, calls in gen:
        case = {"kind": kind, "param": param, "actset": list(aset) if aset else None,
                "scaling": list(scal) if scal else None, "calls": [[x, d] for x, d in calls]}
        ctor, outs = impl_response(kind, param, aset, scal, calls)
        if with_oracle and ctor is None:
            why = oracle_response(kind, param, aset, scal, calls, outs)
            if why:
                ctx.oracle_fail(why, {"op": "response", **case})
        jcalls = []
        for x, dfdy in calls:
            isort, why, _ = check_argsort(np.array(x, dtype=float))
            c = {"x": [float(v) for v in x], "isort": isort}
            if dfdy is not None:
                c["dfdy"] = float(dfdy)
            jcalls.append(c)
        reqs.append({"m": "c16.response", "kind": kind, "param": float(param),
                     "actset": [float(v) for v in aset] if aset else None,
                     "scaling": {"which": scal[0], "damping": float(scal[1])} if scal else None, "calls": jcalls})
        meta.append((case, ctor, outs))
    res = ctx.model(reqs)
    for (case, ctor, outs), m in zip(meta, res):
        if "ok" not in m:
            ctx.disagree(stream, case, outs, m, "driver error")
            continue
        mo = m["ok"]
        key = (stream, str(case))
        if "ctor" in mo or ctor is not None:
            mc = mo.get("ctor", {}).get("raises")
            ctx.compare_exact(stream, case, ctor, mc, key=key)
            ctx.branch(f"{stream}.ctor.{ctor}")
            continue
        mouts = []
        for o in mo["outs"]:
            if "raises" in o:
                mouts.append(o)
                continue
            d = {"y": dec(o["y"]), "sf": dec(o["sf"]), "mask": o["mask"]}
            if "dx" in o:
                d["dx"] = o["dx"] if isinstance(o["dx"], dict) else dec(o["dx"])
            mouts.append(d)
        kind = case["kind"]
        # libm vs numpy exp differ by an ulp; log(sum)/rho turns that into about eps/|rho| absolute
        extra = 1e-14 / abs(case["param"]) if kind == "ks" and case["param"] != 0 else 0.0
        ok = compare_outs(ctx, stream, case, outs, mouts, 1e-9, key, extra_atol=extra)
        ctx.branch(f"{stream}.{kind}.{'pos' if case['param'] > 0 else 'neg' if case['param'] < 0 else 'zero'}")
        if case["actset"]:
            ctx.branch(f"{stream}.with_actset")
        if case["scaling"]:
            d = case["scaling"][1]
            ctx.branch(f"{stream}.scaling.d=" + ("0" if d == 0 else "1" if d == 1 else "mid"))
        for o in outs:
            if "raises" in o:
                ctx.branch(f"{stream}.raises.{o['raises']}")
            elif o["mask"] != "ellipsis":
                ctx.branch(f"{stream}.masked_call")
        if ok and outs and "raises" not in outs[0]:
            ctx.sample({"stream": stream, "case": case, "first_output": outs[0]}, limit=5)


def transport_selftest(ctx):
    """the JSON float transport of the driver must be bit exact"""
    xs = [ctx.rng.uniform(-1, 1) * 10.0 ** ctx.rng.randint(-12, 12) for _ in range(200)] + [0.1, 1e-300, 5e-324, 1.5e300]
    m = ctx.model([{"m": "c16.echo", "x": xs}])[0]
    back = dec(m.get("ok", []))
    if back != xs:
        bad = [(a, b) for a, b in zip(xs, back) if a != b][:3]
        ctx.disagree("transport", {"x": "random floats"}, bad, None, "float transport is not exact")
    else:
        ctx.agree(("transport", ctx.seed), nontrivial=False)


def selftest_sensitivity(ctx):
    """thorough tier: a deliberately wrong model input (reversed argsort) must be noticed by the comparison"""
    x = np.array([3., 1., 2., 5., 4., 0.5, 7., 6.])
    cfg = (0.0, 1.0, 0.3, 0.8)
    mask = impl_actset(cfg, x)
    isort = [int(v) for v in np.argsort(x)[::-1]]
    m = ctx.model([{"m": "c16.actset", "lr": q(cfg[0]), "ur": q(cfg[1]), "la": q(cfg[2]), "ua": q(cfg[3]),
                    "x": qlist(x), "isort": isort}])[0]
    if m.get("ok", {}).get("mask") == mask:
        ctx.disagree("selftest", {"cfg": cfg}, mask, m, "a wrong argsort given to the model was not noticed")
    else:
        ctx.branch("selftest.detected_wrong_model_input")


def correspondence(ctx):
    transport_selftest(ctx)
    stream_actset(ctx)
    stream_scaling(ctx)
    run_response_stream(ctx, "response", response_cases(ctx), True)
    EXTREME_SKIPS.clear()
    run_response_stream(ctx, "extreme", extreme_cases(ctx), True)
    if EXTREME_SKIPS:
        ctx.notes.append(f"extreme stream: candidates rejected because the as-coded np.exp(rho*x) / x**p would leave the "
                         f"finite normal float64 range: {dict(EXTREME_SKIPS)}")
    run_response_stream(ctx, "malformed", malformed_cases(ctx), False)
    if not ctx.quick:
        selftest_sensitivity(ctx)


# ------------------------------------------------------------------------------------------------
# search / replay
# ------------------------------------------------------------------------------------------------
def fd_violation(kind, param, calls, outs):
    """search only (not part of the regular run): without active set and scaling the returned sensitivity must be
    dfdy times the gradient of the output; central differences on positive data"""
    for k, ((x, dfdy), o) in enumerate(zip(calls, outs)):
        if "raises" in o or dfdy is None or isinstance(o.get("dx"), dict) or not x or min(abs(v) for v in x) < 1e-3:
            continue
        for i in range(len(x)):
            h = 1e-6 * max(1.0, abs(x[i]))
            xp, xm = list(x), list(x)
            xp[i] += h
            xm[i] -= h
            g = dfdy * (plain_value(kind, param, xp) - plain_value(kind, param, xm)) / (2 * h)
            if abs(g - o["dx"][i]) > 1e-5 * max(1.0, abs(g), abs(dfdy)):
                return (f"call {k}: sensitivity[{i}] = {o['dx'][i]!r} but dfdy * d{kind}/dx[{i}] = {g!r} "
                        f"(central difference) for x = {x}")
    return None


def _oracle_case(w):
    op = w.get("op")
    if op == "actset":
        x = np.array(w["x"], dtype=float)
        cfg = tuple(w["cfg"])
        if _near_boundary(cfg, x):
            return None
        r = call_impl(impl_actset, cfg, x)
        if r[0] == "err":
            return f"AggActiveSet raises {r[2]}"
        return oracle_actset(cfg, x, r[1])
    if op == "scaling":
        calls = [(list(x), a) for x, a in w["calls"]]
        r = call_impl(impl_scaling, w["which"], w["damping"], calls)
        if r[0] == "err":
            return f"AggScaling raises {r[2]}"
        return oracle_scaling(w["which"], w["damping"], calls, r[1])
    if op == "response":
        calls = [(list(x), d) for x, d in w["calls"]]
        aset = tuple(w["actset"]) if w.get("actset") else None
        scal = tuple(w["scaling"]) if w.get("scaling") else None
        ctor, outs = impl_response(w["kind"], w["param"], aset, scal, calls)
        if ctor is not None:
            return None
        why = oracle_response(w["kind"], w["param"], aset, scal, calls, outs)
        if why is None and aset is None and scal is None:
            why = fd_violation(w["kind"], w["param"], calls, outs)
        return why
    return None


def search(ctx, disagreements):
    found = []
    for d in disagreements:
        c = d.get("case") or {}
        st = d.get("stream")
        if st == "actset":
            w = {"op": "actset", "cfg": c["cfg"], "x": c["x"]}
        elif st == "scaling":
            w = {"op": "scaling", **c}
        elif st in ("response", "malformed", "extreme"):
            w = {"op": "response", **c}
        else:
            continue
        why = _oracle_case(w)
        if why:
            found.append({"what": why, "witness": w})
        if len(found) >= 3:
            break
    if not found:
        # sweep: small vectors, every count
        for n in range(2, 9):
            x = np.arange(n, dtype=float)
            for k in range(n):
                for cfg in ((0.0, 1.0, 0.0, 1 - (k + 0.5) / n), (0.0, 1.0, (k + 0.5) / n / 2, 1.0)):
                    if not cfg[3] > cfg[2]:
                        continue
                    w = {"op": "actset", "cfg": list(cfg), "x": x.tolist()}
                    why = _oracle_case(w)
                    if why:
                        found.append({"what": why, "witness": w})
                        break
                if found:
                    break
            if found:
                break
        if not found:
            for kind in ("pnorm", "softminmax", "ks"):
                for param in (2.0, -2.0, 8.0, -8.0):
                    for scal in (None, ("max" if param > 0 else "min", 0.0), ("max" if param > 0 else "min", 0.5)):
                        w = {"op": "response", "kind": kind, "param": param, "actset": None,
                             "scaling": list(scal) if scal else None,
                             "calls": [[[1.0, 2.0, 3.0], 1.0], [[2.0, 0.5, 4.0, 4.0], 1.0]]}
                        why = _oracle_case(w)
                        if why:
                            found.append({"what": why, "witness": w})
    found.sort(key=lambda f: len(str(f["witness"])))
    return found


def replay(ctx, data):
    w = data.get("witness", {})
    w = w.get("witness", w)
    if w.get("op") in ("actset", "scaling", "response"):
        why = _oracle_case(w)
        return {"still_failing": bool(why), "what": why}
    if "script" in w:
        import subprocess
        import sys
        import os
        from ..common import VERIF
        p = subprocess.run([sys.executable, os.path.join(VERIF, w["script"])], capture_output=True, text=True)
        return {"still_failing": p.returncode != 0, "what": (p.stdout + p.stderr)[-400:]}
    return {"still_failing": False, "note": "replay file names no failing input (see no_longer_checks)"}
