"""C17 — the optimality-criteria update keeps bounds, move limit and volume (pymoto/routines.py minimize_oc)

correspondence
  run     : whole `minimize_oc` runs on random separable problems  f = sum c_i / x_i  spread over 1-4 variable signals
            (harness-defined pymoto Modules, one module for all signals or one per signal + adder; array, scalar,
            0-d and 2-D states), scalar / per-variable xmin xmax move, volume targets (None, reachable, unreachable),
            l1init l2init l1l2tol tolx tolf maxit varied, objectives with non-negative gradients (clipping branch)
            vs the SAME loop of `Core/OC.lean` run at Float (driver op c17.run): the design seen by EVERY network
            response, the final signal states and the number of responses are compared (tolerance); cases in which a
            bisection decision or a stopping rule sits on its threshold are counted as boundary and skipped
  concat  : `_concatenate_to_array` / `_split_from_array` on integer data vs the model (exact)
  malformed: None state, bounds of the wrong length, empty design, bracket narrower than the tolerance
            (UnboundLocalError), maxit = 0
oracle (on the real code, independent of the model)
  (bounds may have FIXED entries xmin[i] == xmax[i] != 0; maxvol is the TOTAL volume including them; the analytic optimum
  then is x_free = clip(sqrt(c_free/lambda)) with the remaining volume, x_fixed unchanged)
  every design within [xmin, xmax]; consecutive designs differ by at most move; |sum x - maxvol| within the bound that
  the bisection tolerance implies (computed through the monotone volume function at lambda* -/+ l1l2tol) whenever the
  target is reachable within the move limits; after a converged run the design is the analytic optimum
  x*_i = clip(sqrt(c_i/lambda), xmin_i, xmax_i), sum x* = maxvol, which also pins every value to the right signal;
  final signal states are the slices of the last design.
"""
import io
import math
import signal
import struct
import time
import warnings
from contextlib import redirect_stdout

import numpy as np

from ..common import call_impl

RULE = ("run: 1-4 variable signals of 1-8 (quick) / 1-20 (thorough) entries each (arrays, python-float / 0-d / 2-D states), "
        "c_i in (0.1,5) (15% of the cases contain c_i <= 0: clipped gradients), xmin/xmax/move scalar or per-variable, "
        "30% of the cases with n >= 2 have per-variable bound vectors with 1..2n/3 entries FIXED (xmin[i] == xmax[i] at xmax, 1, 0.5, "
        "xmin or a random non-zero value: passive regions) mixed with free ones, mostly with a reachable TOTAL volume and tolf = 0; "
        "x0 inside the bounds, maxvol None / inside (sum xmin, sum xmax) / outside, l2init in {1e3,1e5,1e9}, "
        "l1l2tol in {1e-2,1e-4,1e-6}, tolx,tolf in {0,1e-8,1e-4,1e-2}, maxit 1-30; distinct = distinct case specs "
        "with at least two network responses")
ASSUMPTIONS = [
    "the objective state is a numpy float64 (a Python float 0.0 would raise ZeroDivisionError in |f-fprev|/|f|) and f != 0",
    "a bound vector whose length is neither n nor 1 while n == 1 (numpy would broadcast the design) is not generated",
    "Float model vs numpy: elementwise operations are IEEE identical, sums/norms differ in order (tolerance 1e-9); "
    "runs whose bisection meets |sum(xnew)-maxvol| < 1e-11*scale or whose rel_fchange/rel_stepsize is within 1e-6 "
    "(relative) of its tolerance are skipped as boundary",
    "the while loop of the bisection has no cap: the model runs it with fuel 400 (never exhausted in the generated cases)",
    "wall-clock budget per run of minimize_oc: 15 s (x3 thorough; normal runs take 1-50 ms), enforced by SIGALRM inside the "
    "harness; a run that exceeds it is a disagreement, its recorded designs go to the oracle, and a time-out on a case the model "
    "completes is reported with the case as failing input; quick tier: no new case after 120 s of running the real code",
    "convergence to the analytic optimum is observed (oracle), not proved; it is checked for runs that stop on the step-size rule (tolf = 0)",
]

FUEL = 400


def _pm():
    import pymoto
    return pymoto


class RunTimeout(Exception):
    """raised inside the harness process by the watchdog when a run of the real code exceeds its budget"""


class watchdog:
    """SIGALRM based wall-clock budget around ONE run of the real code (main thread of the harness process)"""

    def __init__(self, seconds):
        self.seconds = float(seconds)
        self.fired = False

    def _handler(self, signum, frame):
        self.fired = True
        raise RunTimeout(f"run of the real code exceeded its budget of {self.seconds:.0f} s")

    def __enter__(self):
        self.old = signal.signal(signal.SIGALRM, self._handler)
        signal.setitimer(signal.ITIMER_REAL, self.seconds)
        return self

    def __exit__(self, *a):
        signal.setitimer(signal.ITIMER_REAL, 0)
        signal.signal(signal.SIGALRM, self.old)
        return False


RUN_BUDGET = 15.0          # a normal minimize_oc run of the generated size takes 1-50 ms
QUICK_WALL_CAP = 120.0     # quick tier: no new case is started after this many seconds of running the real code


class fast_init_loc:
    """pymoto.core_objects.get_init_str walks the interpreter stack (~7 ms per Signal/Module); it only feeds messages"""

    def __enter__(self):
        import pymoto.core_objects as co
        self.co, self.orig = co, co.get_init_str
        co.get_init_str = lambda: "File \"<verif>\", line 0, in harness"

    def __exit__(self, *a):
        self.co.get_init_str = self.orig


def bits2f(b):
    return struct.unpack("<d", struct.pack("<Q", int(b)))[0]


def dec(v):
    if isinstance(v, list):
        return [dec(w) for w in v]
    if isinstance(v, int):
        return bits2f(v)
    return v


# ------------------------------------------------------------------------------------------------
# harness-defined modules
# ------------------------------------------------------------------------------------------------
_MODS = None


def modules():
    global _MODS
    if _MODS is not None:
        return _MODS
    pm = _pm()

    class SepObj(pm.Module):
        """f = sum_k sum_i c_k[i] / x_k[i]; records the states it is evaluated at"""

        def _prepare(self, cs, rec, slot=None):
            self.cs = [np.asarray(c, dtype=float) for c in cs]
            self.rec = rec
            self.slot = slot

        def _response(self, *xs):
            seen = [np.array(x, dtype=float, copy=True) for x in xs]
            self.rec.append((self.slot, seen))
            terms = [c / np.ravel(x) for c, x in zip(self.cs, seen)]
            return np.float64(np.sum(np.concatenate(terms))) if terms else np.float64(0.0)

        def _sensitivity(self, df):
            out = []
            for c, s in zip(self.cs, self.sig_in):
                x = np.asarray(s.state, dtype=float)
                xr = np.ravel(x)
                out.append((df * (-c / (xr * xr))).reshape(x.shape) if x.ndim != 1 else df * (-c / (xr * xr)))
            return out

    class AddUp(pm.Module):
        def _response(self, *ys):
            return np.float64(sum(float(y) for y in ys))

        def _sensitivity(self, df):
            return [df for _ in self.sig_in]

    _MODS = (SepObj, AddUp)
    return _MODS


def make_state(kind, vals):
    if kind == "pyfloat":
        return float(vals[0])
    if kind == "npfloat":
        return np.float64(vals[0])
    if kind == "0d":
        return np.array(vals[0], dtype=float)
    if kind == "2d":
        return np.array(vals, dtype=float).reshape(2, -1)
    if kind == "none":
        return None
    if kind == "int":     # integer-typed start design (e.g. np.ones(n, dtype=int)): later designs are floats all the same
        return np.array([int(round(v)) for v in vals], dtype=np.int64)
    return np.array(vals, dtype=float)


def bnd_arg(b):
    """('s', v) -> python float ; ('v', [..]) -> numpy array"""
    return float(b[1]) if b[0] == "s" else np.array(b[1], dtype=float)


def bnd_full(b, n):
    if b[0] == "s":
        return np.full(n, float(b[1]))
    a = np.array(b[1], dtype=float)
    return np.full(n, a[0]) if (a.size == 1 and n != 1) else a


def run_impl(case):
    """returns dict(trace=[flat designs seen by each response], states=[final flat states], shapes=[...])"""
    pm = _pm()
    SepObj, AddUp = modules()
    with fast_init_loc():
        sigs = [pm.Signal(f"x{k}", make_state(kind, vals)) for k, (kind, vals) in enumerate(zip(case["kinds"], case["x0"]))]
        for i, j in case.get("share", []):   # two variable signals initialised with the SAME array object
            sigs[j].state = sigs[i].state
        rec = []
        cs = case["c"]
        if case["net"] == "single":
            obj = pm.Signal("f")
            net = pm.Network([SepObj(sigs, obj, cs, rec, None)])
        else:
            parts = [pm.Signal(f"f{k}") for k in range(len(sigs))]
            mods = [SepObj([s], p, [c], rec, k) for k, (s, p, c) in enumerate(zip(sigs, parts, cs))]
            obj = pm.Signal("f")
            net = pm.Network(mods + [AddUp(parts, obj)])
    kw = dict(tolx=case["tolx"], tolf=case["tolf"], maxit=case["maxit"], xmin=bnd_arg(case["xmin"]),
              xmax=bnd_arg(case["xmax"]), move=bnd_arg(case["move"]), l1init=case["l1init"], l2init=case["l2init"],
              l1l2tol=case["l1l2tol"], maxvol=case["maxvol"], verbosity=0)
    budget = case.get("_budget", RUN_BUDGET)
    wd = watchdog(budget)
    with warnings.catch_warnings(), np.errstate(all="ignore"), redirect_stdout(io.StringIO()):
        warnings.simplefilter("ignore")
        try:
            with wd:
                r = call_impl(pm.minimize_oc, net, sigs, obj, **kw)
        except RunTimeout as e:     # the alarm went off outside call_impl
            r = ("err", "RunTimeout", str(e))
    # assemble the designs seen by the responses
    trace = []
    if case["net"] == "single":
        for _, seen in rec:
            trace.append([float(v) for a in seen for v in np.ravel(a)])
    else:
        k = len(sigs)
        for j in range(len(rec) // k):
            grp = rec[j * k:(j + 1) * k]
            trace.append([float(v) for _, seen in sorted(grp, key=lambda t: t[0]) for v in np.ravel(seen[0])])
    states = [None if s.state is None else [float(v) for v in np.ravel(s.state)] for s in sigs]
    out = {"trace": trace, "states": states}
    if r[0] == "err":
        out["raises"] = r[1]
        out["msg"] = r[2]
    if wd.fired:
        out["timeout"] = budget
        out["raises"] = "RunTimeout"
    return out


# ------------------------------------------------------------------------------------------------
# oracle (independent of the model)
# ------------------------------------------------------------------------------------------------
def oc_update(x, g, lam, lo, hi):
    with np.errstate(all="ignore"):
        return np.minimum(np.maximum(x * np.sqrt(-g / lam), lo), hi)


def vol_root(fun, a, b, target):
    """smallest lambda in (a,b] with fun(lambda) <= target for a non-increasing fun (many bisection steps)"""
    for _ in range(200):
        m = 0.5 * (a + b)
        if fun(m) - target > 0:
            a = m
        else:
            b = m
    return a, b


def analytic_optimum(c, xmin, xmax, V):
    """min sum c/x  s.t. sum x = V, xmin <= x <= xmax (c > 0):  x_i = clip(sqrt(c_i/lam))"""
    f = lambda lam: float(np.sum(np.clip(np.sqrt(c / lam), xmin, xmax)))  # noqa
    a, b = 1e-300, 1e300
    for _ in range(3000):
        m = math.sqrt(a) * math.sqrt(b)
        if f(m) - V > 0:
            a = m
        else:
            b = m
        if b / a < 1 + 1e-15:
            break
    return np.clip(np.sqrt(c / b), xmin, xmax)


def vol_bound(case, p, c, xmin, xmax, move, maxvol):
    """(bound on |sum(xnew) - maxvol|, lambda*) for the OC step from the design p when the target is reachable within the
    move limits of this step (a root of the volume equation strictly inside the bracket), else None"""
    if not np.all(p > 0):
        return None
    g = np.minimum(-c / (p * p), 0)
    lo, hi = np.maximum(xmin, p - move), np.minimum(xmax, p + move)
    vol = lambda lam: float(np.sum(oc_update(p, g, lam, lo, hi)))  # noqa
    l1, l2, tol_l = case["l1init"], case["l2init"], case["l1l2tol"]
    if not (tol_l > 0 and l2 - l1 > tol_l):
        return None
    a, b = vol_root(vol, l1, l2, maxvol)
    if not (a > l1 + 2 * tol_l and b < l2 - 2 * tol_l):
        return None
    up = vol(max(a - tol_l, l1 + 0.25 * tol_l)) - maxvol
    dn = maxvol - vol(b + tol_l)
    return max(up, dn, 0.0) + 1e-12 * (1 + abs(maxvol)), b


def oracle_run(case, out):
    """the property checked directly on what the real code did (for a run stopped by the watchdog: on the designs recorded
    before the time-out); returns a message or None"""
    if "raises" in out and not out.get("timeout"):
        return None
    trace = [np.array(t) for t in out["trace"]]
    if not trace:
        return None
    n = trace[0].size
    c = np.concatenate([np.asarray(v, dtype=float) for v in case["c"]]) if case["c"] else np.zeros(0)
    xmin, xmax, move = bnd_full(case["xmin"], n), bnd_full(case["xmax"], n), bnd_full(case["move"], n)
    x0 = trace[0]
    if not (np.all(xmin <= x0) and np.all(x0 <= xmax) and np.all(move >= 0)):
        return None          # outside the property's hypotheses
    if np.any(xmin <= 0) and np.any(c <= 0):
        return None          # a variable with clipped gradient is driven to x = 0 where c/x is undefined
    final = np.array([v for s in out["states"] for v in s])
    designs = trace + ([final] if not np.array_equal(final, trace[-1]) else [])
    maxvol = float(np.sum(x0)) if case["maxvol"] is None else case["maxvol"]
    sizes = [len(v) for v in case["x0"]]
    cum = np.concatenate([[0], np.cumsum(sizes)]).astype(int)
    for j, x in enumerate(designs):
        if x.size != n:
            return f"design {j} has {x.size} entries instead of {n}"
        if not (np.all(x >= xmin) and np.all(x <= xmax)):
            i = int(np.argmax((x < xmin) | (x > xmax)))
            return f"design {j}: x[{i}] = {x[i]!r} outside [{xmin[i]!r}, {xmax[i]!r}]"
        if j > 0:
            p = designs[j - 1]
            d = np.abs(x - p)
            tol = 4e-16 * (np.abs(p) + move)
            if np.any(d > move + tol):
                i = int(np.argmax(d - move - tol))
                return f"design {j}: |x[{i}] - previous| = {d[i]!r} exceeds the move limit {move[i]!r}"
            vb = vol_bound(case, p, c, xmin, xmax, move, maxvol)
            if vb is not None:
                case["_volchecks"] = case.get("_volchecks", 0) + 1
                err = abs(float(np.sum(x)) - maxvol)
                if err > vb[0]:
                    return (f"design {j}: |sum x - maxvol| = {err!r} exceeds {vb[0]!r}, the spread of the volume over "
                            f"lambda* -/+ l1l2tol (lambda* = {vb[1]!r})")
    # final states are the slices of the last design (write-back to the right signal)
    for k, s in enumerate(out["states"]):
        if list(final[cum[k]:cum[k + 1]]) != list(s):
            return f"state of signal {k} is not the slice [{cum[k]}:{cum[k + 1]}] of the design"
    # convergence to the analytic optimum: a run that stopped on the step-size rule (tolf = 0 excludes the other rule)
    if (len(trace) < case["maxit"] and case["tolf"] == 0 and 0 < case["tolx"] <= 1e-4 and len(trace) >= 2
            and np.all(c > 0) and float(np.sum(xmin)) + 1e-6 < maxvol < float(np.sum(xmax)) - 1e-6
            and float(np.min(move)) >= 0.02 and np.all(x0 > 0)):
        vb = vol_bound(case, final, c, xmin, xmax, move, maxvol)
        if vb is not None:
            # the unobserved last update xnew is within tolx*|x| of the final design, is not move limited, hence equals
            # clip(sqrt(c/lambda)) for the last multiplier, and |xnew - x*|_1 = |sum xnew - maxvol| <= vb[0]
            xs = analytic_optimum(c, xmin, xmax, maxvol)
            err = float(np.max(np.abs(final - xs)))
            lim = vb[0] + 2 * case["tolx"] * float(np.linalg.norm(final)) + 1e-9
            if err > lim:
                i = int(np.argmax(np.abs(final - xs)))
                k = int(np.searchsorted(cum, i, side="right") - 1)
                return (f"run stopped on the step-size rule {err!r} (> {lim!r}) away from the analytic optimum: x[{i}] "
                        f"(signal {k}) = {final[i]!r}, optimum {xs[i]!r}")
            case.setdefault("_stats", {})["opt_err"] = err
    return None


# ------------------------------------------------------------------------------------------------
# generators
# ------------------------------------------------------------------------------------------------
def gen_case(ctx, t):
    rng = ctx.rng
    nsig = rng.randint(1, 4)
    big = (not ctx.quick) and rng.random() < 0.3
    kinds, sizes = [], []
    for _ in range(nsig):
        r = rng.random()
        if r < 0.12:
            kinds.append(rng.choice(["pyfloat", "npfloat", "0d"]))
            sizes.append(1)
        elif r < 0.2:
            kinds.append("2d")
            sizes.append(2 * rng.randint(1, 3))
        else:
            kinds.append("arr")
            sizes.append(rng.randint(1, 20 if big else 8))
    n = sum(sizes)

    def bound(lo, hi, scalars):
        r = rng.random()
        if r < 0.5:
            return ("s", rng.choice(scalars))
        if r < 0.55 and n != 1:
            return ("v", [rng.uniform(lo, hi)])           # length-1 array: broadcast
        return ("v", [rng.uniform(lo, hi) for _ in range(n)])

    xmin = bound(0.001, 0.2, [0.0, 0.0, 0.01, 0.1, 0.001])
    xmax = bound(0.6, 1.5, [1.0, 1.0, 1.0, 0.8, 2.0])
    move = bound(0.02, 0.5, [0.2, 0.2, 0.1, 0.05, 0.5, 1.0, 0.0])
    # passive regions: per-variable bound vectors with entries FIXED (xmin[i] == xmax[i]) at a non-zero value, mixed with free ones
    fixed = np.zeros(n, dtype=bool)
    if n >= 2 and rng.random() < 0.3:
        lo, hi = bnd_full(xmin, n), bnd_full(xmax, n)
        nfix = rng.randint(1, max(1, min(n - 1, (2 * n) // 3)))
        for i in rng.sample(range(n), nfix):
            v = rng.choice([float(hi[i]), float(hi[i]), 1.0, 0.5, float(lo[i]) if lo[i] > 0 else 0.01, rng.uniform(0.05, 1.5)])
            lo[i] = hi[i] = v
            fixed[i] = True
        xmin, xmax = ("v", [float(v) for v in lo]), ("v", [float(v) for v in hi])
    lo, hi = bnd_full(xmin, n), bnd_full(xmax, n)
    flat = []
    for i in range(n):
        r = rng.random()
        if fixed[i]:
            flat.append(float(lo[i]))
        elif r < 0.1:
            flat.append(float(lo[i]) if lo[i] > 0 else float(hi[i]))
        elif r < 0.15:
            flat.append(float(hi[i]))
        elif r < 0.45:
            flat.append(float(lo[i] + 0.5 * (hi[i] - lo[i])))
        else:
            flat.append(float(rng.uniform(max(lo[i], 1e-3), hi[i])))
    if rng.random() < 0.2 and not fixed.any():             # uniform start, the usual topology-optimisation set-up
        v = rng.uniform(float(np.max(lo)) + 1e-3, float(np.min(hi)))
        flat = [v] * n
    clipcase = rng.random() < 0.15 and float(np.min(lo)) > 0 and not fixed.any()
    cflat = [rng.uniform(0.1, 5.0) for _ in range(n)]
    if clipcase:
        for i in range(n):
            if rng.random() < 0.35:
                cflat[i] = rng.choice([0.0, -rng.uniform(0.1, 2.0)])
    x0, c, pos = [], [], 0
    for s in sizes:
        x0.append(flat[pos:pos + s])
        c.append(cflat[pos:pos + s])
        pos += s
    share = []
    if not fixed.any() and xmin[0] == "s" and xmax[0] == "s":
        same = [(i, j) for i in range(nsig) for j in range(i + 1, nsig) if kinds[i] == kinds[j] and sizes[i] == sizes[j]
                and kinds[i] in ("arr", "2d")]
        if same and rng.random() < 0.5:
            i, j = rng.choice(same)
            x0[j] = list(x0[i])
            share.append([i, j])
        elif float(xmax[1]) >= 1.0 and float(xmin[1]) < 1.0 and rng.random() < 0.25:
            ks = [k for k in range(nsig) if kinds[k] == "arr"]
            if ks:
                k = rng.choice(ks)
                kinds[k] = "int"
                x0[k] = [1.0] * sizes[k]
    r = rng.random()
    slo, shi = float(np.sum(lo)), float(np.sum(hi))
    if r < 0.3:
        maxvol = None
    elif r < 0.8:
        maxvol = slo + rng.uniform(0.1, 0.9) * (shi - slo)
    elif r < 0.9:
        maxvol = slo - rng.uniform(0.0, 0.5) * max(slo, 0.1)      # below everything reachable
    else:
        maxvol = shi * rng.uniform(1.0, 1.5)                       # above everything reachable
    if fixed.any() and rng.random() < 0.7:
        # the usual passive-region set-up: a reachable total volume and a run that is allowed to converge
        maxvol = None if rng.random() < 0.3 else slo + rng.uniform(0.15, 0.85) * (shi - slo)
        tolx, tolf, maxit = 1e-4, 0.0, rng.randint(10, 40)
    else:
        tolx, tolf = rng.choice([1e-4, 1e-4, 0.0, 1e-8, 1e-2]), rng.choice([1e-4, 0.0, 0.0, 1e-8, 1e-2])
        maxit = rng.randint(1, 30)
    return {
        "kinds": kinds, "x0": x0, "c": c, "net": rng.choice(["single", "single", "per-signal"]),
        "tolx": tolx, "tolf": tolf,
        "maxit": maxit, "xmin": xmin, "xmax": xmax, "move": move,
        "l1init": rng.choice([0, 0, 0, 0.0, 1e-3]), "l2init": rng.choice([1e5, 100000, 1e5, 1e3, 1e9]),
        "l1l2tol": rng.choice([1e-4, 1e-4, 1e-4, 1e-2, 1e-6]), "maxvol": maxvol, "share": share,
    }


def malformed_cases():
    base = {"kinds": ["arr", "arr"], "x0": [[0.5, 0.4], [0.3]], "c": [[1.0, 2.0], [3.0]], "net": "single",
            "tolx": 1e-4, "tolf": 1e-4, "maxit": 4, "xmin": ("s", 0.0), "xmax": ("s", 1.0), "move": ("s", 0.2),
            "l1init": 0, "l2init": 100000, "l1l2tol": 1e-4, "maxvol": None}
    yield dict(base, kinds=["arr", "none"])                               # ValueError in _concatenate_to_array
    yield dict(base, xmin=("v", [0.0, 0.1]))                              # broadcast error
    yield dict(base, xmax=("v", [1.0, 1.0, 1.0, 1.0]))
    yield dict(base, move=("v", [0.1, 0.2]))
    yield dict(base, xmin=("v", [0.0, 0.1]), l2init=0)                    # bisection never entered: UnboundLocalError
    yield dict(base, l1init=5, l2init=5)                                  # UnboundLocalError
    yield dict(base, l2init=-1.0)
    yield dict(base, maxit=0)
    yield dict(base, xmin=("v", [0.0, 0.1]), maxit=0)
    yield dict(base, xmin=("v", [0.0, 0.1]), tolf=2.0)                    # stops on tolf before the broadcast
    yield dict(base, kinds=["arr", "arr"], x0=[[], []], c=[[], []])       # empty design: max() of empty
    yield dict(base, tolf=2.0)                                            # first rel_fchange = 1 < tolf
    yield dict(base, tolx=10.0)                                           # stops on tolx in the first iteration
    yield dict(base, maxit=1)


def to_req(case):
    def b(v):
        return {"s": float(v[1])} if v[0] == "s" else {"v": [float(w) for w in v[1]]}
    states = [None if k == "none" else [float(v) for v in vals] for k, vals in zip(case["kinds"], case["x0"])]
    return {"m": "c17.run", "states": states, "c": [float(v) for cc in case["c"] for v in cc],
            "tolx": float(case["tolx"]), "tolf": float(case["tolf"]), "maxit": int(case["maxit"]),
            "xmin": b(case["xmin"]), "xmax": b(case["xmax"]), "move": b(case["move"]),
            "l1init": float(case["l1init"]), "l2init": float(case["l2init"]), "l1l2tol": float(case["l1l2tol"]),
            "maxvol": None if case["maxvol"] is None else float(case["maxvol"]), "fuel": FUEL}


def is_boundary(case, mo):
    relf, relx, margins = dec(mo["relf"]), dec(mo["relx"]), dec(mo["margins"])
    trace = dec(mo["trace"])
    scale = 1.0 + max([sum(abs(v) for v in t) for t in trace] + [0.0]) + abs(case["maxvol"] or 0.0)
    for m in margins:
        if not math.isnan(m) and m < 1e-11 * scale:
            return True
    for r, tol in [(v, case["tolf"]) for v in relf] + [(v, case["tolx"]) for v in relx]:
        if tol > 0 and not math.isnan(r) and abs(r - tol) <= 1e-6 * tol:
            return True
        if tol == 0 and r == 0:
            pass
    return False


def public(case):
    return {k: v for k, v in case.items() if not k.startswith("_")}


def run_stream(ctx, stream, cases, with_oracle):
    reqs, meta = [], []
    t_start = time.time()
    for ncase, case in enumerate(cases):
        if ctx.quick and time.time() - t_start > QUICK_WALL_CAP:
            ctx.notes.append(f"{stream} stream: generation stopped after {ncase} of {len(cases)} cases (wall-time cap of the quick "
                             f"tier, {QUICK_WALL_CAP:.0f} s of running the real code)")
            ctx.branch(f"{stream}.wall_cap_reached")
            break
        if not ctx.quick:
            case["_budget"] = 3 * RUN_BUDGET
        out = run_impl(case)
        if out.get("timeout"):
            ctx.branch(f"{stream}.watchdog_timeout")
        if with_oracle:
            why = oracle_run(case, out)
            if why:
                ctx.oracle_fail(why, {"op": "run", "case": public(case)})
        reqs.append(to_req(case))
        meta.append((case, out))
    res = ctx.model(reqs)
    worst = 0.0
    for (case, out), m in zip(meta, res):
        pc = public(case)
        key = (stream, str(pc))
        if "ok" not in m:
            ctx.disagree(stream, pc, out, m, "driver error")
            continue
        mo = m["ok"]
        if out.get("timeout") and "raises" not in mo:
            # observable: the optimiser did not produce the designs the model produced
            ctx.oracle_fail(f"minimize_oc did not return within {out['timeout']:.0f} s ({len(out['trace'])} network responses "
                            f"recorded) on a problem the model completes in {len(mo['trace'])} responses (stop: {mo['stop']})",
                            {"op": "run", "case": pc})
        if "raises" in mo or "raises" in out:
            ctx.compare_exact(stream, pc, out.get("raises"), mo.get("raises"), key=key)
            ctx.branch(f"{stream}.raises.{out.get('raises')}")
            continue
        if is_boundary(case, mo):
            ctx.skipped_boundary += 1
            ctx.branch(f"{stream}.boundary_skip")
            continue
        mtrace, mstates = dec(mo["trace"]), dec(mo["states"])
        if len(mtrace) != len(out["trace"]) or [len(t) for t in mtrace] != [len(t) for t in out["trace"]]:
            ctx.disagree(stream, pc, [len(t) for t in out["trace"]], [len(t) for t in mtrace],
                         f"number of responses / sizes: impl {len(out['trace'])} model {len(mtrace)} (stop {mo['stop']})")
            continue
        if [len(s) for s in mstates] != [len(s) for s in out["states"]]:
            ctx.disagree(stream, pc, out["states"], mstates, "final state sizes")
            continue
        fi = [v for t in out["trace"] for v in t] + [v for s in out["states"] for v in s]
        fm = [v for t in mtrace for v in t] + [v for s in mstates for v in s]
        ok = ctx.compare_close(stream, pc, fi, fm, rtol=1e-9, atol=1e-12, key=key, nontrivial=len(mtrace) >= 2)
        ctx.branch(f"{stream}.stop.{mo['stop']}")
        ctx.branch(f"{stream}.nsig={len(case['kinds'])}")
        for nm in ("xmin", "xmax", "move"):
            ctx.branch(f"{stream}.{nm}.{'scalar' if case[nm][0] == 's' else 'vector'}")
        mv = case["maxvol"]
        ctx.branch(f"{stream}.maxvol." + ("none" if mv is None else "given"))
        if any(k != "arr" for k in case["kinds"]):
            ctx.branch(f"{stream}.nonarray_state")
        if any(v <= 0 for cc in case["c"] for v in cc):
            ctx.branch(f"{stream}.clipped_gradient")
        if case["xmin"][0] == "v" and case["xmax"][0] == "v" and len(case["xmin"][1]) == len(case["xmax"][1]) and \
                any(a == b for a, b in zip(case["xmin"][1], case["xmax"][1])):
            ctx.branch(f"{stream}.fixed_entries(xmin==xmax)")
            if "_stats" in case:
                ctx.branch(f"{stream}.fixed_entries.optimum_checked")
            if case.get("_volchecks"):
                ctx.branch(f"{stream}.fixed_entries.volume_checked")
        if "_stats" in case:
            worst = max(worst, case["_stats"]["opt_err"])
            ctx.branch(f"{stream}.optimum_checked")
        if ok and len(mtrace) >= 2:
            ctx.sample({"stream": stream, "case": pc, "responses": len(mtrace), "final": out["states"]}, limit=3)
    if worst:
        ctx.notes.append(f"{stream}: largest distance of a converged run to the analytic optimum: {worst:.3e}")


def stream_concat(ctx):
    pu = __import__("pymoto.utils", fromlist=["x"])
    reqs, meta = [], []
    for t in range(30 if ctx.quick else 300):
        k = ctx.rng.randint(0, 5)
        states = []
        for _ in range(k):
            r = ctx.rng.random()
            if r < 0.08 and t % 5 == 0:
                states.append(None)
            else:
                states.append([ctx.rng.randint(-9, 9) for _ in range(ctx.rng.randint(0, 5))])
        r = call_impl(pu._concatenate_to_array, [None if s is None else (s[0] if len(s) == 1 and t % 2 else np.array(s, dtype=float)) for s in states])
        if r[0] == "err":
            impl = {"raises": r[1]}
            values = None
        else:
            v, cl = r[1]
            values = [int(w) for w in v]
            if ctx.rng.random() < 0.2:
                values = values + [7]                               # the assertion of _split_from_array
            rs = call_impl(pu._split_from_array, np.array(values, dtype=float), cl)
            sp = {"raises": rs[1]} if rs[0] == "err" else [[int(w) for w in a] for a in rs[1]]
            impl = {"values": [int(w) for w in v], "cumlens": [int(w) for w in cl], "split": sp}
            # oracle: round trip
            if rs[0] == "ok" and values == [int(w) for w in v]:
                if sp != [list(s) for s in states]:
                    ctx.oracle_fail("_split_from_array(_concatenate_to_array(states)) != states", {"op": "concat", "states": states})
        rq = {"m": "c17.concat", "states": states}
        if values is not None:
            rq["values"] = values
        reqs.append(rq)
        meta.append((states, impl))
    res = ctx.model(reqs)
    for (states, impl), m in zip(meta, res):
        mo = m.get("ok")
        if mo is None:
            ctx.disagree("concat", states, impl, m, "driver error")
            continue
        if "raises" not in mo:
            mo = {k: mo[k] for k in ("values", "cumlens", "split")}
        ctx.compare_exact("concat", {"states": states}, impl, mo, key=("concat", str(states)), nontrivial=bool(states))
        ctx.branch("concat." + ("raises" if "raises" in impl else "assert" if isinstance(impl["split"], dict) else "ok"))


def transport_selftest(ctx):
    xs = [ctx.rng.uniform(-1, 1) * 10.0 ** ctx.rng.randint(-12, 12) for _ in range(100)] + [0.1, 1e-300, 5e-324, 1.5e300, 1e-4, 100000.0]
    m = ctx.model([{"m": "c17.echo", "x": xs}])[0]
    if dec(m.get("ok", [])) != xs:
        ctx.disagree("transport", {"x": "random floats"}, xs[:3], m, "float transport is not exact")
    else:
        ctx.agree(("transport", ctx.seed), nontrivial=False)


def selftest_detects(ctx):
    """a deliberately wrong model input (move limit halved) must be noticed by the comparison"""
    case = {"kinds": ["arr", "arr"], "x0": [[0.5, 0.4, 0.6], [0.3, 0.5]], "c": [[1.0, 2.0, 0.5], [3.0, 1.5]], "net": "single",
            "tolx": 0.0, "tolf": 0.0, "maxit": 5, "xmin": ("s", 0.0), "xmax": ("s", 1.0), "move": ("s", 0.1),
            "l1init": 0, "l2init": 100000, "l1l2tol": 1e-4, "maxvol": None}
    out = run_impl(case)
    rq = to_req(case)
    rq["move"] = {"s": 0.05}
    m = ctx.model([rq])[0]["ok"]
    fi = [v for t in out["trace"] for v in t]
    fm = [v for t in dec(m["trace"]) for v in t]
    from ..common import close
    if len(fi) == len(fm) and close(fi, fm, 1e-9, 1e-12)[0]:
        ctx.disagree("selftest", public(case), fi, fm, "a wrong move limit given to the model was not noticed")
    else:
        ctx.branch("selftest.detected_wrong_model_input")


def correspondence(ctx):
    transport_selftest(ctx)
    ncase = 250 if ctx.quick else 5000
    run_stream(ctx, "run", [gen_case(ctx, t) for t in range(ncase)], True)
    run_stream(ctx, "malformed", list(malformed_cases()), False)
    stream_concat(ctx)
    selftest_detects(ctx)


# ------------------------------------------------------------------------------------------------
# search / replay
# ------------------------------------------------------------------------------------------------
def _oracle_case(w):
    case = dict(w["case"])
    for k in ("xmin", "xmax", "move"):
        case[k] = tuple(case[k])
    out = run_impl(case)
    why = oracle_run(case, out)
    if why is None and out.get("timeout"):
        why = f"minimize_oc did not return within {out['timeout']:.0f} s ({len(out['trace'])} network responses recorded)"
    return why


def search(ctx, disagreements):
    found = []
    t0 = time.time()
    for d in disagreements:
        if time.time() - t0 > 120:          # every re-run is under the watchdog; the search as a whole is capped too
            break
        if d.get("stream") not in ("run", "malformed") or not d.get("case"):
            continue
        w = {"op": "run", "case": d["case"]}
        why = _oracle_case(w)
        if why:
            found.append({"what": why, "witness": w})
        if len(found) >= 3:
            break
    if not found:
        for t in range(300):
            if time.time() - t0 > 180:
                break
            case = gen_case(ctx, t)
            case["tolx"] = case["tolf"] = 0.0
            out = run_impl(case)
            why = oracle_run(case, out)
            if why:
                found.append({"what": why, "witness": {"op": "run", "case": public(case)}})
                if len(found) >= 3:
                    break
    found.sort(key=lambda f: len(str(f["witness"])))
    return found


def replay(ctx, data):
    w = data.get("witness", {})
    w = w.get("witness", w)
    if w.get("op") == "run":
        why = _oracle_case(w)
        return {"still_failing": bool(why), "what": why}
    if "script" in w:
        import subprocess
        import sys
        import os
        from ..common import VERIF
        p = subprocess.run([sys.executable, os.path.join(VERIF, w["script"])], capture_output=True, text=True)
        return {"still_failing": p.returncode != 0, "what": (p.stdout + p.stderr)[-400:]}
    return {"still_failing": False, "note": "replay file names no failing input (see no_longer_checks)"}
